//! C15 — the single-threaded executor: systems of scripted tasks on the real `yash_executor::Executor`.
//!
//! Case line: `<d|s> <roots> : <script> / <script> / …`; a script is a list of actions
//! `Y` (wake the own waker twice — `wake_by_ref` and `clone().wake()` — and return `Pending`),
//! `W<k>` (take a token of channel k or register the waker and return `Pending`), `S<k>` (add a token
//! to channel k and wake every registered waker; mode `d` drains the registrations, mode `s` keeps them
//! so that later signals wake queued, spuriously waiting and finished tasks too), `P` (spawn the next
//! script that has not been started, through `Spawner::spawn`, keeping the `Receiver`), `J` (await the
//! receiver of the oldest child not yet joined), `C` (return `Ready`; so does the end of the script).
//! `-` is the empty script.  The first `<roots>` scripts are started with `Executor::spawn`.
//! The channels live in this file and store real `Waker`s, so every wake-up goes through the waker
//! vtable of `yash-executor/src/waker.rs` into `Task::wake`.
//!
//! Observation (see /verif/lean/YashModel/Executor/Main.lean): one token per `Executor::step` with
//! `wake_count()` after it, completion order, number of `true` steps, `run_until_stalled()` of a
//! fresh copy, two `try_receive` calls on every receiver, where every unfinished task is blocked.
//!
//! Oracle (independent of the Lean model, public API only): no poll after completion, no re-entrant
//! poll, `wake_count` grows by one on the wake of a task that is not queued and not at all otherwise,
//! a task enqueued at queue position p is polled exactly p steps later (FIFO bound, nothing is polled
//! without having been woken), every result is delivered exactly once, and when `step` returns `None`
//! every unfinished task is registered with a channel without token or awaits an unfinished child.

//!
//! `n <script> / <script> / …` cases: `Executor::step` called from INSIDE a poll (nested polling and the
//! recursion guard of `Task::poll`); see `run_nested`.

use std::cell::RefCell;
use std::collections::{HashMap, VecDeque};
use std::future::Future;
use std::pin::Pin;
use std::rc::Rc;
use std::task::{Context, Poll, Waker};
use yash_executor::forwarder::{Receiver, TryReceiveError};
use yash_executor::{Executor, SpawnError, Spawner};
use yverif::proto::{Opts, emit, guarded, quiet_panics};
use yverif::rng::Rng;

/// step budget shared with the model driver (`maxSteps` in Main.lean)
const MAX_STEPS: usize = 4000;

#[derive(Clone, Copy, PartialEq, Eq, Debug)]
enum Act {
    Y,
    W(usize),
    S(usize),
    P,
    J,
    C,
}

fn parse_script(t: &str) -> Option<Vec<Act>> {
    let ws: Vec<&str> = t.split_whitespace().collect();
    if ws == ["-"] {
        return Some(vec![]);
    }
    ws.iter()
        .map(|w| {
            let (h, r) = w.split_at(1);
            Some(match (h, r) {
                ("Y", "") => Act::Y,
                ("P", "") => Act::P,
                ("J", "") => Act::J,
                ("C", "") => Act::C,
                ("W", k) => Act::W(k.parse().ok()?),
                ("S", k) => Act::S(k.parse().ok()?),
                _ => return None,
            })
        })
        .collect()
}

fn show_act(a: Act) -> String {
    match a {
        Act::Y => "Y".into(),
        Act::W(k) => format!("W{k}"),
        Act::S(k) => format!("S{k}"),
        Act::P => "P".into(),
        Act::J => "J".into(),
        Act::C => "C".into(),
    }
}

fn show_script(s: &[Act]) -> String {
    if s.is_empty() {
        "-".into()
    } else {
        s.iter().map(|a| show_act(*a)).collect::<Vec<_>>().join(" ")
    }
}

struct Case {
    sticky: bool,
    roots: usize,
    scripts: Vec<Vec<Act>>,
}

fn parse_case(line: &str) -> Option<Case> {
    let (hd, body) = line.split_once(':')?;
    let h: Vec<&str> = hd.split_whitespace().collect();
    let [m, r] = h.as_slice() else { return None };
    let sticky = match *m {
        "d" => false,
        "s" => true,
        _ => return None,
    };
    let roots: usize = r.parse().ok()?;
    let scripts: Option<Vec<Vec<Act>>> = body.split('/').map(parse_script).collect();
    Some(Case { sticky, roots, scripts: scripts? })
}

fn show_case(c: &Case) -> String {
    format!(
        "{} {} : {}",
        if c.sticky { "s" } else { "d" },
        c.roots,
        c.scripts.iter().map(|s| show_script(s)).collect::<Vec<_>>().join(" / ")
    )
}

/// Everything the scripted futures share: the harness side of the task system plus instrumentation.
struct World {
    scripts: Vec<Vec<Act>>,
    sticky: bool,
    exec: Option<Executor<'static>>,
    spawner: Spawner<'static>,
    /// number of tasks created (task id = index of its script)
    spawned: usize,
    pc: Vec<usize>,
    finished: Vec<Option<u64>>,
    kids: Vec<VecDeque<usize>>,
    acc: Vec<u64>,
    receivers: Vec<Option<Receiver<u64>>>,
    /// who polled the receiver of task c last and found it pending
    awaiting: Vec<Option<usize>>,
    /// values handed out by the receiver of task c
    deliveries: Vec<Vec<u64>>,
    tokens: Vec<usize>,
    waiters: Vec<Vec<(usize, Waker)>>,
    // instrumentation
    depth: usize,
    /// number of `step` calls started
    step_no: usize,
    /// what the future polled in the current step reported
    polled: Option<(usize, bool)>,
    /// woken (or spawned) and not yet polled: task id -> number of the step that must poll it
    due: HashMap<usize, usize>,
    done_order: Vec<usize>,
    poll_log: Vec<(usize, bool)>,
    fails: Vec<String>,
    /// ids of the tasks whose future has been dropped (kept outside the `World` cell: a future can be
    /// dropped while the world is borrowed)
    drops: Rc<RefCell<Vec<usize>>>,
    /// inside `run_until_stalled`: the harness cannot count steps, so the FIFO position is not checked
    batch: bool,
    /// the vtable calls the test futures and the outside operations make, in order: 4*task + kind
    /// (0 clone, 1 wake, 2 wake_by_ref, 3 drop); the model logs the same (`RcModel.lean` `vlog`)
    vt: Vec<u64>,
}

impl World {
    fn fail(&mut self, what: String) {
        if self.fails.len() < 4 {
            self.fails.push(what);
        }
    }
    fn wake_count(&self) -> usize {
        self.exec.as_ref().map(|e| e.wake_count()).unwrap_or(0)
    }
    fn chan(&mut self, k: usize) {
        while self.tokens.len() <= k {
            self.tokens.push(0);
            self.waiters.push(vec![]);
        }
    }
    /// Bookkeeping for one wake-up (or spawn) of `target`, given `wake_count` before and after.
    fn note_enqueue(&mut self, target: usize, before: usize, after: usize, what: &str) {
        if self.batch {
            // inside `run_until_stalled` the harness sees neither the pops nor the wake-ups sent by relays
            if after != before && after != before + 1 {
                self.fail(format!("queue-jump:{what}{target}"));
            }
            return;
        }
        if self.due.contains_key(&target) {
            if after != before {
                self.fail(format!("queued-twice:{what}{target}@{}", self.step_no));
            }
        } else {
            if after != before + 1 {
                self.fail(format!("wake-not-enqueued:{what}{target}@{}", self.step_no));
            }
            self.due.insert(target, self.step_no + after);
        }
    }
    /// Calls one entry of the waker vtable for task `target`.
    fn wake_with(&mut self, target: usize, f: impl FnOnce()) {
        let before = self.wake_count();
        f();
        let after = self.wake_count();
        self.note_enqueue(target, before, after, "wake");
    }
    fn vt(&mut self, kind: u64, t: usize) {
        self.vt.push(4 * t as u64 + kind);
    }
    fn vt_digest(&self) -> String {
        let h = self.vt.iter().fold(7u64, |h, c| (h * 131 + c + 1) % 1_000_000_007);
        format!("{}#{}", self.vt.len(), h)
    }
    fn new_task(&mut self) -> usize {
        let tid = self.spawned;
        self.spawned += 1;
        self.pc.push(0);
        self.finished.push(None);
        self.kids.push(VecDeque::new());
        self.acc.push(0);
        self.receivers.push(None);
        self.awaiting.push(None);
        self.deliveries.push(vec![]);
        tid
    }
}

struct ScriptTask {
    tid: usize,
    w: Rc<RefCell<World>>,
    drops: Rc<RefCell<Vec<usize>>>,
}

impl ScriptTask {
    fn new(tid: usize, w: &Rc<RefCell<World>>, drops: &Rc<RefCell<Vec<usize>>>) -> Self {
        ScriptTask { tid, w: Rc::clone(w), drops: Rc::clone(drops) }
    }
}

impl Drop for ScriptTask {
    fn drop(&mut self) {
        if self.tid != usize::MAX {
            self.drops.borrow_mut().push(self.tid);
        }
    }
}

impl Future for ScriptTask {
    type Output = u64;
    fn poll(self: Pin<&mut Self>, cx: &mut Context<'_>) -> Poll<u64> {
        let tid = self.tid;
        let wrc = Rc::clone(&self.w);
        let mut guard = wrc.borrow_mut();
        let w = &mut *guard;
        // ---- instrumentation on entry
        w.depth += 1;
        if w.depth > 1 {
            w.fail(format!("reentrant-poll:{tid}@{}", w.step_no));
        }
        if w.finished[tid].is_some() {
            w.fail(format!("poll-after-complete:{tid}@{}", w.step_no));
        }
        match w.due.remove(&tid) {
            _ if w.batch => {}
            Some(n) if n == w.step_no => {}
            Some(n) => {
                let s = w.step_no;
                w.fail(format!("fifo:{tid}-due@{n}-polled@{s}"));
            }
            None => {
                let s = w.step_no;
                w.fail(format!("polled-without-wake:{tid}@{s}"));
            }
        }
        let script = w.scripts[tid].clone();
        let result = loop {
            let Some(&act) = script.get(w.pc[tid]) else { break Poll::Ready(()) };
            match act {
                Act::C => break Poll::Ready(()),
                Act::Y => {
                    w.pc[tid] += 1;
                    w.vt(2, tid);
                    w.wake_with(tid, || cx.waker().wake_by_ref());
                    w.vt(0, tid);
                    let clone = cx.waker().clone();
                    w.vt(1, tid);
                    w.wake_with(tid, || clone.wake());
                    break Poll::Pending;
                }
                Act::W(k) => {
                    w.chan(k);
                    if w.tokens[k] > 0 {
                        w.tokens[k] -= 1;
                        w.pc[tid] += 1;
                    } else {
                        w.vt(0, tid);
                        w.waiters[k].push((tid, cx.waker().clone()));
                        break Poll::Pending;
                    }
                }
                Act::S(k) => {
                    w.chan(k);
                    w.tokens[k] += 1;
                    if w.sticky {
                        // every registered waker: clone it, wake the clone by reference, drop the clone
                        for i in 0..w.waiters[k].len() {
                            let (t, wk) = w.waiters[k][i].clone();
                            w.vt(0, t);
                            w.vt(2, t);
                            w.wake_with(t, || wk.wake_by_ref());
                            w.vt(3, t);
                            drop(wk);
                        }
                    } else {
                        let ws: Vec<(usize, Waker)> = std::mem::take(&mut w.waiters[k]);
                        for (t, wk) in ws {
                            w.vt(1, t);
                            w.wake_with(t, || wk.wake());
                        }
                    }
                    w.pc[tid] += 1;
                }
                Act::P => {
                    if w.spawned < w.scripts.len() {
                        let before = w.wake_count();
                        let child = w.new_task();
                        let fut = ScriptTask::new(child, &self.w, &self.drops);
                        match unsafe { w.spawner.spawn(fut) } {
                            Ok(rx) => w.receivers[child] = Some(rx),
                            Err(_) => w.fail(format!("spawn-refused:{child}")),
                        }
                        let after = w.wake_count();
                        w.note_enqueue(child, before, after, "spawn");
                        w.kids[tid].push_back(child);
                    }
                    w.pc[tid] += 1;
                }
                Act::J => {
                    let Some(&c) = w.kids[tid].front() else {
                        w.pc[tid] += 1;
                        continue;
                    };
                    let mut rx = w.receivers[c].take().expect("receiver present");
                    let r = Pin::new(&mut rx).poll(cx);
                    w.receivers[c] = Some(rx);
                    match r {
                        Poll::Ready(v) => {
                            w.deliveries[c].push(v);
                            w.kids[tid].pop_front();
                            w.acc[tid] += v;
                            w.pc[tid] += 1;
                        }
                        Poll::Pending => {
                            w.awaiting[c] = Some(tid);
                            break Poll::Pending;
                        }
                    }
                }
            }
        };
        // ---- instrumentation on exit
        w.depth -= 1;
        let ready = result.is_ready();
        w.polled = Some((tid, ready));
        w.poll_log.push((tid, ready));
        if ready {
            let v = (tid as u64 + 1 + 7 * w.acc[tid]) % 1000;
            w.finished[tid] = Some(v);
            w.done_order.push(tid);
            Poll::Ready(v)
        } else {
            Poll::Pending
        }
    }
}

fn build(case: &Case) -> (Executor<'static>, Rc<RefCell<World>>) {
    let exec = Executor::new();
    let world = Rc::new(RefCell::new(World {
        scripts: case.scripts.clone(),
        sticky: case.sticky,
        exec: Some(exec.clone()),
        spawner: exec.spawner(),
        spawned: 0,
        pc: vec![],
        finished: vec![],
        kids: vec![],
        acc: vec![],
        receivers: vec![],
        awaiting: vec![],
        deliveries: vec![],
        tokens: vec![],
        waiters: vec![],
        depth: 0,
        step_no: 0,
        polled: None,
        due: HashMap::new(),
        done_order: vec![],
        poll_log: vec![],
        fails: vec![],
        drops: Rc::new(RefCell::new(vec![])),
        batch: false,
        vt: vec![],
    }));
    let drops = Rc::clone(&world.borrow().drops);
    for _ in 0..case.roots.min(case.scripts.len()) {
        let mut w = world.borrow_mut();
        let before = w.wake_count();
        let tid = w.new_task();
        let rx = unsafe { exec.spawn(ScriptTask::new(tid, &world, &drops)) };
        w.receivers[tid] = Some(rx);
        let after = w.wake_count();
        w.note_enqueue(tid, before, after, "root");
    }
    (exec, world)
}

/// Breaks the reference cycle world -> executor -> tasks -> world.
fn teardown(world: &Rc<RefCell<World>>) {
    let (exec, waiters, receivers) = {
        let mut w = world.borrow_mut();
        (w.exec.take(), std::mem::take(&mut w.waiters), std::mem::take(&mut w.receivers))
    };
    drop(waiters);
    drop(receivers);
    drop(exec);
}

fn show_try(r: &Result<u64, TryReceiveError>) -> String {
    match r {
        Ok(v) => format!("v{v}"),
        Err(TryReceiveError::NotSent) => "NS".into(),
        Err(TryReceiveError::SenderDropped) => "SD".into(),
        Err(TryReceiveError::AlreadyReceived) => "AR".into(),
    }
}

/// Is unfinished task `t` waiting for a wake-up that has not happened?
fn genuinely_waiting(w: &World, t: usize) -> bool {
    match w.scripts[t].get(w.pc[t]) {
        Some(Act::W(k)) => {
            w.tokens.get(*k).copied().unwrap_or(0) == 0
                && w.waiters.get(*k).map(|l| l.iter().any(|(x, _)| *x == t)).unwrap_or(false)
        }
        Some(Act::J) => match w.kids[t].front() {
            Some(&c) => w.finished[c].is_none() && w.awaiting[c] == Some(t),
            None => false,
        },
        _ => false,
    }
}

/// One `Executor::step` with the bookkeeping of the oracle; `None` = the queue was empty.
fn do_step(exec: &Executor<'static>, world: &Rc<RefCell<World>>) -> Option<(String, bool)> {
    {
        let mut w = world.borrow_mut();
        w.step_no += 1;
        w.polled = None;
    }
    let r = exec.step();
    let mut w = world.borrow_mut();
    let wc = exec.wake_count();
    let n = w.step_no;
    let Some(b) = r else {
        w.step_no -= 1;
        return None;
    };
    let tok = match w.polled {
        Some((tid, ready)) => {
            if ready != b {
                w.fail(format!("step-result:{tid}@{n}"));
            }
            if ready {
                // the wrapper future has sent the value: a task awaiting it has been woken
                if let Some(p) = w.awaiting[tid] {
                    if w.finished[p].is_none() && !w.due.contains_key(&p) {
                        w.due.insert(p, n + wc);
                    }
                }
            }
            format!("{tid}{}{wc}", if ready { "r" } else { "p" })
        }
        None => {
            // no future was polled: the popped task must be a finished one that was woken
            let who: Vec<usize> = w.due.iter().filter(|(_, d)| **d == n).map(|(t, _)| *t).collect();
            match who.as_slice() {
                [t] if w.finished[*t].is_some() => {
                    let t = *t;
                    w.due.remove(&t);
                    if !b {
                        w.fail(format!("noop-poll-not-complete:{t}@{n}"));
                    }
                }
                _ => w.fail(format!("step-polled-nothing@{n}")),
            }
            format!("~{wc}")
        }
    };
    if wc != w.due.len() {
        let d = w.due.len();
        w.fail(format!("queue-size:{wc}-expected:{d}@{n}"));
    }
    Some((tok, b))
}

fn run_case(case: &Case) -> (String, String) {
    let (exec, world) = build(case);
    let mut toks: Vec<String> = vec![];
    let mut compl = 0usize;
    let mut stalled = false;
    for _ in 0..MAX_STEPS {
        match do_step(&exec, &world) {
            None => {
                stalled = true;
                break;
            }
            Some((tok, b)) => {
                toks.push(tok);
                if b {
                    compl += 1;
                }
            }
        }
    }
    // ---- at the end of the run
    let mut w = world.borrow_mut();
    if stalled {
        if !w.due.is_empty() {
            w.fail("stalled-with-woken-tasks".into());
        }
        for t in 0..w.spawned {
            if w.finished[t].is_none() && !genuinely_waiting(&w, t) {
                w.fail(format!("stalled-not-waiting:{t}"));
            }
        }
    }
    let mut recv = vec![];
    for c in 0..w.spawned {
        let rx = w.receivers[c].take().expect("receiver present");
        let r1 = rx.try_receive();
        let r2 = rx.try_receive();
        if let Ok(v) = r1 {
            w.deliveries[c].push(v);
        }
        if let Ok(v) = r2 {
            w.deliveries[c].push(v);
        }
        match w.finished[c] {
            Some(v) => {
                if w.deliveries[c] != [v] {
                    let d = format!("{:?}", w.deliveries[c]);
                    w.fail(format!("delivery:{c}-returned:{v}-delivered:{d}"));
                }
                if r2 != Err(TryReceiveError::AlreadyReceived) {
                    w.fail(format!("not-already-received:{c}"));
                }
            }
            None => {
                if !w.deliveries[c].is_empty()
                    || r1 != Err(TryReceiveError::NotSent)
                    || r2 != Err(TryReceiveError::NotSent)
                {
                    w.fail(format!("unfinished-receiver:{c}:{}", show_try(&r1)));
                }
            }
        }
        recv.push(format!("{c}:{}/{}", show_try(&r1), show_try(&r2)));
        w.receivers[c] = Some(rx);
    }
    let blocked: Vec<String> = (0..w.spawned)
        .filter(|t| w.finished[*t].is_none())
        .map(|t| match w.scripts[t].get(w.pc[t]) {
            None => format!("{t}?"),
            Some(Act::J) => match w.kids[t].front() {
                Some(c) => format!("{t}J{c}"),
                None => format!("{t}J?"),
            },
            Some(a) => format!("{t}{}", show_act(*a)),
        })
        .collect();
    let done: Vec<String> = w.done_order.iter().map(|t| t.to_string()).collect();
    let first_log = w.poll_log.clone();
    let (spawned, drops) = (w.spawned, Rc::clone(&w.drops));
    drop(w);
    teardown(&world);
    drop(exec);
    // every reference to every task is gone now: each future must have been dropped exactly once
    for t in 0..spawned {
        let n = drops.borrow().iter().filter(|x| **x == t).count();
        if n != 1 {
            world.borrow_mut().fail(format!("task-{}:{t}", if n == 0 { "leaked" } else { "dropped-twice" }));
        }
    }

    // ---- the same system once more through `run_until_stalled`
    let rus = if stalled {
        let (exec2, world2) = build(case);
        let n = exec2.run_until_stalled();
        let same = world2.borrow().poll_log == first_log;
        teardown(&world2);
        if !same {
            world.borrow_mut().fail("run_until_stalled-polls-differ".into());
        }
        if n != compl {
            world.borrow_mut().fail(format!("run_until_stalled-count:{n}-steps:{compl}"));
        }
        n.to_string()
    } else {
        "-".into()
    };

    let vt = world.borrow().vt_digest();
    let obs = format!(
        "{} | done={} compl={} end={} rus={} recv={} blocked={} vt={}",
        toks.join(" "),
        if done.is_empty() { "-".into() } else { done.join(".") },
        compl,
        if stalled { "stall" } else { "cut" },
        rus,
        recv.join(","),
        if blocked.is_empty() { "-".into() } else { blocked.join(",") },
        vt
    );
    let w = world.borrow();
    let oracle = if w.fails.is_empty() { "ok".to_string() } else { format!("FAIL:{}", w.fails.join(";")) };
    (obs, oracle)
}

// ------------------------------------------------------------------------------------------------
// `v` cases: a task system driven from outside by a list of operations on the executor and on the
// wakers the tasks have registered with the channels

#[derive(Clone, Copy, PartialEq, Eq, Debug)]
enum Op {
    /// `s`: `Executor::step`
    Step,
    /// `u`: `Executor::run_until_stalled`
    Rus,
    /// `w<k>.<i>`: take the i-th waker registered with channel k and `wake()` it
    Wake(usize, usize),
    /// `r<k>.<i>`: `wake_by_ref()` on it
    ByRef(usize, usize),
    /// `c<k>.<i>`: `clone()` it and register the clone with channel k as well
    Clone(usize, usize),
    /// `d<k>.<i>`: take it and drop it
    Drop(usize, usize),
    /// `S<k>`: signal channel k from outside
    Signal(usize),
    /// `X`: drop the executor
    DropExec,
    /// `t<c>`: `try_receive` on the receiver of task c
    Try(usize),
    /// `p`: `Spawner::spawn` the next unspawned script from outside
    Spawn,
}

fn parse_op(t: &str) -> Option<Op> {
    let pair = |r: &str| -> Option<(usize, usize)> {
        let (a, b) = r.split_once('.')?;
        Some((a.parse().ok()?, b.parse().ok()?))
    };
    let (h, r) = t.split_at(1);
    Some(match (h, r) {
        ("s", "") => Op::Step,
        ("u", "") => Op::Rus,
        ("X", "") => Op::DropExec,
        ("p", "") => Op::Spawn,
        ("w", r) => pair(r).map(|(k, i)| Op::Wake(k, i))?,
        ("r", r) => pair(r).map(|(k, i)| Op::ByRef(k, i))?,
        ("c", r) => pair(r).map(|(k, i)| Op::Clone(k, i))?,
        ("d", r) => pair(r).map(|(k, i)| Op::Drop(k, i))?,
        ("S", r) => Op::Signal(r.parse().ok()?),
        ("t", r) => Op::Try(r.parse().ok()?),
        _ => return None,
    })
}

fn show_op(o: Op) -> String {
    match o {
        Op::Step => "s".into(),
        Op::Rus => "u".into(),
        Op::Wake(k, i) => format!("w{k}.{i}"),
        Op::ByRef(k, i) => format!("r{k}.{i}"),
        Op::Clone(k, i) => format!("c{k}.{i}"),
        Op::Drop(k, i) => format!("d{k}.{i}"),
        Op::Signal(k) => format!("S{k}"),
        Op::DropExec => "X".into(),
        Op::Try(c) => format!("t{c}"),
        Op::Spawn => "p".into(),
    }
}

fn run_ops(case: &Case, ops: &[Op]) -> (String, String) {
    let (exec, world) = build(case);
    let mut exec = Some(exec);
    let drops = Rc::clone(&world.borrow().drops);
    let mut toks: Vec<String> = vec![];
    // a waker was dropped or the executor is gone: tasks may have been abandoned on purpose
    let mut abandoned = false;
    let mut lost_all: Vec<usize> = vec![];
    let mut dropped_seen: Vec<usize> = vec![];
    let wc_str = |e: &Option<Executor<'static>>| e.as_ref().map(|e| e.wake_count().to_string()).unwrap_or_else(|| "x".into());
    for op in ops {
        let mut tok = match *op {
            Op::Step => match &exec {
                None => "s:x".to_string(),
                Some(e) => match do_step(e, &world) {
                    None => "s:-".to_string(),
                    Some((t, _)) => t,
                },
            },
            Op::Rus => match &exec {
                None => "u:x".to_string(),
                Some(e) => {
                    let from = world.borrow().poll_log.len();
                    world.borrow_mut().batch = true;
                    let n = e.run_until_stalled();
                    let mut w = world.borrow_mut();
                    w.batch = false;
                    let polls: Vec<String> =
                        w.poll_log[from..].iter().map(|(t, r)| format!("{t}{}", if *r { "r" } else { "p" })).collect();
                    let ready = w.poll_log[from..].iter().filter(|(_, r)| *r).count();
                    // everything that had been woken has been popped
                    w.due.clear();
                    if n < ready {
                        w.fail(format!("run_until_stalled-count:{n}-ready:{ready}"));
                    }
                    if e.wake_count() != 0 {
                        w.fail("run_until_stalled-left-queue".into());
                    }
                    format!("u{n}[{}]", polls.join(","))
                }
            },
            Op::Wake(k, i) | Op::ByRef(k, i) | Op::Clone(k, i) | Op::Drop(k, i) => {
                let mut w = world.borrow_mut();
                w.chan(k);
                if i >= w.waiters[k].len() {
                    ".".to_string()
                } else {
                    let alive = exec.is_some();
                    match *op {
                        Op::Wake(..) => {
                            let (t, wk) = w.waiters[k].remove(i);
                            w.vt(1, t);
                            if alive {
                                w.wake_with(t, || wk.wake());
                            } else {
                                wk.wake();
                            }
                        }
                        Op::ByRef(..) => {
                            // `wake_by_ref` on the registered waker itself (no clone)
                            let t = w.waiters[k][i].0;
                            w.vt(2, t);
                            let before = w.wake_count();
                            w.waiters[k][i].1.wake_by_ref();
                            if alive {
                                let after = w.wake_count();
                                w.note_enqueue(t, before, after, "wake");
                            }
                        }
                        Op::Clone(..) => {
                            let (t, wk) = &w.waiters[k][i];
                            let c = (*t, wk.clone());
                            w.vt.push(4 * c.0 as u64);
                            w.waiters[k].push(c);
                        }
                        _ => {
                            abandoned = true;
                            let e = w.waiters[k].remove(i);
                            w.vt(3, e.0);
                            drop(w);
                            drop(e);
                        }
                    }
                    wc_str(&exec)
                }
            }
            Op::Signal(k) => {
                let mut w = world.borrow_mut();
                w.chan(k);
                w.tokens[k] += 1;
                let sticky = w.sticky;
                let alive = exec.is_some();
                if sticky {
                    for i in 0..w.waiters[k].len() {
                        let (t, wk) = w.waiters[k][i].clone();
                        w.vt(0, t);
                        w.vt(2, t);
                        if alive {
                            w.wake_with(t, || wk.wake_by_ref());
                        } else {
                            wk.wake_by_ref();
                        }
                        w.vt(3, t);
                        drop(wk);
                    }
                } else {
                    let ws: Vec<(usize, Waker)> = std::mem::take(&mut w.waiters[k]);
                    for (t, wk) in ws {
                        w.vt(1, t);
                        if alive {
                            w.wake_with(t, || wk.wake());
                        } else {
                            wk.wake();
                        }
                    }
                }
                wc_str(&exec)
            }
            Op::DropExec => {
                abandoned = true;
                let e1 = exec.take();
                let e2 = {
                    let mut w = world.borrow_mut();
                    w.due.clear();
                    w.exec.take()
                };
                drop(e1);
                drop(e2);
                "X".to_string()
            }
            Op::Try(c) => {
                let mut w = world.borrow_mut();
                // (a receiver its parent will still await is left alone: polling a receiver after
                // `try_receive` took the value is a contract violation that panics by design)
                if c >= w.spawned || w.kids.iter().any(|k| k.contains(&c)) {
                    ".".to_string()
                } else {
                    let r = w.receivers[c].as_ref().expect("receiver present").try_receive();
                    if let Ok(v) = r {
                        w.deliveries[c].push(v);
                    }
                    format!("t:{}", show_try(&r))
                }
            }
            Op::Spawn => {
                let mut w = world.borrow_mut();
                if w.spawned >= w.scripts.len() {
                    ".".to_string()
                } else {
                    let before = w.wake_count();
                    let tid = w.spawned;
                    let fut = ScriptTask::new(tid, &world, &drops);
                    match unsafe { w.spawner.spawn(fut) } {
                        Ok(rx) => {
                            if exec.is_none() {
                                w.fail("spawned-on-dropped-executor".into());
                            }
                            let t = w.new_task();
                            w.receivers[t] = Some(rx);
                            let after = w.wake_count();
                            w.note_enqueue(t, before, after, "spawn");
                            format!("p:{after}")
                        }
                        Err(SpawnError(mut fut)) => {
                            if exec.is_some() {
                                w.fail("spawn-refused-by-live-executor".into());
                            }
                            fut.tid = usize::MAX;
                            "p:refused".to_string()
                        }
                    }
                }
            }
        };
        // futures dropped before they finished: tasks nothing refers to any more
        let w = world.borrow();
        let drained: Vec<usize> = drops.borrow_mut().drain(..).collect();
        dropped_seen.extend(drained.iter().copied());
        let mut lost: Vec<usize> = drained.into_iter().filter(|t| w.finished[*t].is_none()).collect();
        lost.sort();
        if !lost.is_empty() {
            tok.push('!');
            tok.push_str(&lost.iter().map(|t| t.to_string()).collect::<Vec<_>>().join("."));
            if !abandoned {
                drop(w);
                world.borrow_mut().fail(format!("task-lost:{lost:?}"));
            }
            lost_all.extend(lost);
        }
        toks.push(tok);
    }
    // ---- at the end
    let mut w = world.borrow_mut();
    if let Some(e) = &exec {
        if e.wake_count() == 0 && !abandoned {
            for t in 0..w.spawned {
                if w.finished[t].is_none() && !genuinely_waiting(&w, t) {
                    w.fail(format!("stalled-not-waiting:{t}"));
                }
            }
        }
    }
    let mut recv = vec![];
    for c in 0..w.spawned {
        let rx = w.receivers[c].take().expect("receiver present");
        let r1 = rx.try_receive();
        let r2 = rx.try_receive();
        for r in [&r1, &r2] {
            if let Ok(v) = r {
                w.deliveries[c].push(*v);
            }
        }
        match w.finished[c] {
            Some(v) => {
                if w.deliveries[c] != [v] {
                    let d = format!("{:?}", w.deliveries[c]);
                    w.fail(format!("delivery:{c}-returned:{v}-delivered:{d}"));
                }
                if r2 != Err(TryReceiveError::AlreadyReceived) {
                    w.fail(format!("not-already-received:{c}"));
                }
            }
            None => {
                let expect = if lost_all.contains(&c) { TryReceiveError::SenderDropped } else { TryReceiveError::NotSent };
                if !w.deliveries[c].is_empty() || r1 != Err(expect) || r2 != Err(expect) {
                    w.fail(format!("unfinished-receiver:{c}:{}", show_try(&r1)));
                }
            }
        }
        recv.push(format!("{c}:{}/{}", show_try(&r1), show_try(&r2)));
        w.receivers[c] = Some(rx);
    }
    let done: Vec<String> = w.done_order.iter().map(|t| t.to_string()).collect();
    let obs = format!(
        "{} | done={} wc={} recv={} vt={}",
        toks.join(" "),
        if done.is_empty() { "-".into() } else { done.join(".") },
        wc_str(&exec),
        recv.join(","),
        w.vt_digest()
    );
    let spawned = w.spawned;
    drop(w);
    teardown(&world);
    drop(exec);
    dropped_seen.extend(drops.borrow_mut().drain(..));
    for t in 0..spawned {
        let n = dropped_seen.iter().filter(|x| **x == t).count();
        if n != 1 {
            world.borrow_mut().fail(format!("task-{}:{t}", if n == 0 { "leaked" } else { "dropped-twice" }));
        }
    }
    let w = world.borrow();
    let oracle = if w.fails.is_empty() { "ok".to_string() } else { format!("FAIL:{}", w.fails.join(";")) };
    (obs, oracle)
}

fn parse_ops_case(line: &str) -> Option<(Case, Vec<Op>)> {
    let (sys, ops) = line.split_once(';')?;
    let case = parse_case(sys)?;
    let ops: Option<Vec<Op>> = ops.split_whitespace().map(parse_op).collect();
    Some((case, ops?))
}

// ------------------------------------------------------------------------------------------------
// `f` cases: the forwarder alone, every order of send / receive / drop, two different wakers

struct CountWake(std::sync::atomic::AtomicUsize);

impl std::task::Wake for CountWake {
    fn wake(self: std::sync::Arc<Self>) {
        self.0.fetch_add(1, std::sync::atomic::Ordering::SeqCst);
    }
}

/// Ops: `send` (value 7), `ds`/`dr` (drop sender / receiver), `try`, `pa`/`pb` (poll the receiver with
/// waker a / b).  Observation: one token per op, then how often each waker was woken and how many
/// clones of each are still held by the relay.
fn run_forwarder(ops: &[&str]) -> (String, String) {
    use std::sync::Arc;
    use std::sync::atomic::Ordering;
    let (tx, rx) = yash_executor::forwarder::forwarder::<u64>();
    let (mut tx, mut rx) = (Some(tx), Some(rx));
    let counters = [Arc::new(CountWake(0.into())), Arc::new(CountWake(0.into()))];
    let wakers = [Waker::from(Arc::clone(&counters[0])), Waker::from(Arc::clone(&counters[1]))];
    let mut toks = vec![];
    let mut fails: Vec<String> = vec![];
    let mut got: Vec<u64> = vec![];
    let mut sent = false;
    for op in ops {
        let tok = match *op {
            "send" => match tx.take() {
                None => ".".to_string(),
                Some(t) => match t.send(7) {
                    Ok(()) => {
                        if rx.is_none() {
                            fails.push("send-ok-without-receiver".into());
                        }
                        sent = true;
                        "ok".into()
                    }
                    Err(v) => {
                        if rx.is_some() || v != 7 {
                            fails.push("send-refused".into());
                        }
                        "back".into()
                    }
                },
            },
            "ds" => tx.take().map(|_| "-".to_string()).unwrap_or_else(|| ".".into()),
            "dr" => rx.take().map(|_| "-".to_string()).unwrap_or_else(|| ".".into()),
            "try" => match &rx {
                None => ".".to_string(),
                Some(r) => {
                    let v = r.try_receive();
                    if let Ok(x) = v {
                        got.push(x);
                    }
                    show_try(&v)
                }
            },
            "pa" | "pb" => match rx.as_mut() {
                None => ".".to_string(),
                Some(r) => {
                    let wk = &wakers[if *op == "pa" { 0 } else { 1 }];
                    let mut cx = Context::from_waker(wk);
                    match std::panic::catch_unwind(std::panic::AssertUnwindSafe(|| Pin::new(r).poll(&mut cx))) {
                        Ok(Poll::Pending) => "pend".into(),
                        Ok(Poll::Ready(v)) => {
                            got.push(v);
                            format!("rdy{v}")
                        }
                        Err(_) => "panic".into(),
                    }
                }
            },
            _ => return ("bad-case".into(), "-".into()),
        };
        toks.push(tok);
    }
    let woken: Vec<usize> = counters.iter().map(|c| c.0.load(Ordering::SeqCst)).collect();
    let held: Vec<usize> = counters.iter().map(|c| Arc::strong_count(c) - 2).collect();
    // the property on this run: at most one delivery, of the value sent; at most one wake-up, only after a send
    if got.len() > 1 || got.iter().any(|v| *v != 7) || (!got.is_empty() && !sent) {
        fails.push(format!("delivered:{got:?}"));
    }
    if woken[0] + woken[1] > 1 || (woken[0] + woken[1] == 1 && !sent) {
        fails.push(format!("woken:{woken:?}"));
    }
    drop(rx);
    drop(tx);
    if counters.iter().any(|c| Arc::strong_count(c) != 2) {
        fails.push("waker-leaked".into());
    }
    (
        format!("{} | woken={},{} held={},{}", toks.join(" "), woken[0], woken[1], held[0], held[1]),
        if fails.is_empty() { "ok".into() } else { format!("FAIL:{}", fails.join(";")) },
    )
}

/// The `x …` cases: what the `Weak` references do once the executor is gone, and `spawn_pinned`.
fn run_extra(name: &str) -> (String, String) {
    let sh = |ok: bool, wc: usize| if ok { format!("queued{wc}") } else { "refused".to_string() };
    match name {
        "wake-after-drop" => {
            let case = Case { sticky: false, roots: 1, scripts: vec![vec![Act::W(0)]] };
            let (exec, world) = build(&case);
            world.borrow_mut().step_no += 1;
            let r = exec.step();
            let wc = exec.wake_count();
            let wakers: Vec<(usize, Waker)> = world.borrow_mut().waiters.pop().unwrap_or_default();
            teardown(&world);
            drop(exec);
            let n = wakers.len();
            for (_, w) in wakers {
                w.wake_by_ref();
                w.clone().wake();
                drop(w);
            }
            let ok = r == Some(false) && n == 1 && world.borrow().fails.is_empty();
            (format!("wc={wc} after-drop=discarded"), if ok { "ok".into() } else { "FAIL:wake-after-drop".into() })
        }
        "dead-spawner" => {
            let sp: Spawner<'static> = Spawner::dead();
            let a = unsafe { sp.spawn(async { 1u64 }) }.is_ok();
            let b = unsafe { sp.spawn_pinned(Box::pin(async {})) }.is_ok();
            (format!("spawn={} pinned={}", sh(a, 0), sh(b, 0)), if !a && !b { "ok".into() } else { "FAIL:dead-spawner-spawned".into() })
        }
        "spawner-after-drop" => {
            let exec: Executor<'static> = Executor::new();
            let sp = exec.spawner();
            let l = unsafe { sp.spawn(async { 1u64 }) }.is_ok();
            let wc = exec.wake_count();
            drop(exec);
            let a = unsafe { sp.spawn(async { 1u64 }) }.is_ok();
            let b = unsafe { sp.spawn_pinned(Box::pin(async {})) }.is_ok();
            (
                format!("before={} spawn={} pinned={}", sh(l, wc), sh(a, 0), sh(b, 0)),
                if l && !a && !b { "ok".into() } else { "FAIL:spawn-after-drop".into() },
            )
        }
        "spawn-pinned" => {
            let case = Case { sticky: false, roots: 0, scripts: vec![vec![Act::Y], vec![], vec![]] };
            let (exec, world) = build(&case);
            for i in 0..3 {
                let mut w = world.borrow_mut();
                let before = w.wake_count();
                let tid = w.new_task();
                let drops = Rc::clone(&w.drops);
                let task = ScriptTask::new(tid, &world, &drops);
                match i {
                    0 => unsafe { exec.spawn_pinned(Box::pin(async move { task.await; })) },
                    1 => {
                        let r = unsafe { w.spawner.spawn_pinned(Box::pin(async move { task.await; })) };
                        if r.is_err() {
                            w.fail("spawn_pinned-refused".into());
                        }
                    }
                    _ => {
                        let rx = unsafe { exec.spawn(task) };
                        w.receivers[tid] = Some(rx);
                    }
                }
                let after = w.wake_count();
                w.note_enqueue(tid, before, after, "root");
            }
            let wc = exec.wake_count();
            let mut compl = 0;
            for _ in 0..100 {
                world.borrow_mut().step_no += 1;
                match exec.step() {
                    Some(true) => compl += 1,
                    Some(false) => {}
                    None => break,
                }
            }
            let polls: Vec<String> = world.borrow().poll_log.iter().map(|(t, _)| t.to_string()).collect();
            teardown(&world);
            let w = world.borrow();
            (
                format!("wc={wc} polls={} compl={compl}", polls.join(".")),
                if w.fails.is_empty() { "ok".into() } else { format!("FAIL:{}", w.fails.join(";")) },
            )
        }
        _ => ("bad-case".into(), "-".into()),
    }
}

fn run_line(line: &str) {
    if let Some(name) = line.strip_prefix("x ") {
        let mut out = (String::new(), String::new());
        let o = guarded(|| {
            out = run_extra(name.trim());
            out.0.clone()
        });
        if o.starts_with("PANIC") {
            emit(line, &o, &format!("FAIL:{o}"));
        } else {
            emit(line, &out.0, &out.1);
        }
        return;
    }
    if let Some(rest) = line.strip_prefix("f ").or(if line == "f" { Some("") } else { None }) {
        let ops: Vec<&str> = rest.split_whitespace().collect();
        let mut out = (String::new(), String::new());
        let o = guarded(|| {
            out = run_forwarder(&ops);
            out.0.clone()
        });
        if o.starts_with("PANIC") {
            emit(line, &o, &format!("FAIL:{o}"));
        } else {
            emit(line, &out.0, &out.1);
        }
        return;
    }
    if let Some(rest) = line.strip_prefix("n ") {
        let Some(scripts) = rest.split('/').map(parse_nscript).collect::<Option<Vec<_>>>() else {
            emit(line, "bad-case", "-");
            return;
        };
        let mut out = (String::new(), String::new());
        let o = guarded(|| {
            out = run_nested(&scripts);
            out.0.clone()
        });
        if o.starts_with("PANIC") {
            emit(line, &o, &format!("FAIL:{o}"));
        } else {
            emit(line, &out.0, &out.1);
        }
        return;
    }
    if let Some(rest) = line.strip_prefix("v ") {
        let Some((case, ops)) = parse_ops_case(rest) else {
            emit(line, "bad-case", "-");
            return;
        };
        let mut out = (String::new(), String::new());
        let o = guarded(|| {
            out = run_ops(&case, &ops);
            out.0.clone()
        });
        if o.starts_with("PANIC") {
            emit(line, &o, &format!("FAIL:{o}"));
        } else {
            emit(line, &out.0, &out.1);
        }
        return;
    }
    let Some(case) = parse_case(line) else {
        emit(line, "bad-case", "-");
        return;
    };
    let mut out = (String::new(), String::new());
    let o = guarded(|| {
        out = run_case(&case);
        out.0.clone()
    });
    if o.starts_with("PANIC") {
        emit(line, &o, &format!("FAIL:{o}"));
    } else {
        emit(line, &out.0, &out.1);
    }
}

// ------------------------------------------------------------------------------------------------
// `n` cases: `Executor::step` called from inside a poll (model: lean/YashModel/Executor/NestedModel.lean)

#[derive(Clone, Copy, PartialEq, Eq, Debug)]
enum NAct {
    /// wake the own waker, return `Pending`
    Y,
    /// wake task u through the waker it stored when first polled (no-op if it never was), go on
    Wk(usize),
    /// call `Executor::step` from inside this poll, go on
    N,
    /// return `Ready`
    C,
}

fn parse_nscript(t: &str) -> Option<Vec<NAct>> {
    let ws: Vec<&str> = t.split_whitespace().collect();
    if ws == ["-"] {
        return Some(vec![]);
    }
    ws.iter()
        .map(|w| match *w {
            "Y" => Some(NAct::Y),
            "N" => Some(NAct::N),
            "C" => Some(NAct::C),
            _ => w.strip_prefix('w').and_then(|r| r.parse().ok()).map(NAct::Wk),
        })
        .collect()
}

fn show_nscript(s: &[NAct]) -> String {
    if s.is_empty() {
        return "-".into();
    }
    s.iter()
        .map(|a| match a {
            NAct::Y => "Y".to_string(),
            NAct::N => "N".to_string(),
            NAct::C => "C".to_string(),
            NAct::Wk(u) => format!("w{u}"),
        })
        .collect::<Vec<_>>()
        .join(" ")
}

#[derive(Default)]
struct NWorld {
    toks: Vec<String>,
    /// the future of task t is being polled right now
    active: Vec<bool>,
    done: Vec<bool>,
    /// somebody woke task t while its poll was in progress (the only way the guard can fire)
    woken_active: Vec<bool>,
    wakers: Vec<Option<Waker>>,
    /// readiness reported by the most recent future poll that returned
    last_exit: Option<bool>,
    entered: usize,
    /// reference queue kept by the harness (public API only): a task is appended when it is spawned or woken
    /// while not in it; every pop made by `Executor::step` (top-level or nested) must take its front
    expq: std::collections::VecDeque<usize>,
    fails: Vec<String>,
    exec: Option<Executor<'static>>,
}

impl NWorld {
    /// a wake-up of task t is about to be issued
    fn expect_wake(&mut self, t: usize) {
        if !self.expq.contains(&t) {
            self.expq.push_back(t);
        }
    }
    /// `Executor::step` popped a task and entered the future of t
    fn expect_enter(&mut self, t: usize) {
        match self.expq.pop_front() {
            Some(f) if f == t => {}
            other => self.fails.push(format!("overtaken:entered{t}-front{other:?}").replace(['(', ')'], "")),
        }
    }
    /// `Executor::step` popped a task whose slot is empty (`Some(true)` without entering a future)
    fn expect_noop(&mut self) {
        match self.expq.pop_front() {
            Some(f) if self.done[f] => {}
            other => self.fails.push(format!("overtaken:noop-front{other:?}").replace(['(', ')'], "")),
        }
    }
}

struct NTask {
    id: usize,
    script: Vec<NAct>,
    pc: usize,
    world: Rc<RefCell<NWorld>>,
}

impl NTask {
    fn leave(&self, ready: bool) {
        let mut w = self.world.borrow_mut();
        w.active[self.id] = false;
        if ready {
            w.done[self.id] = true;
        }
        w.last_exit = Some(ready);
        w.toks.push(format!("x{}{}", self.id, if ready { "r" } else { "p" }));
    }
}

impl Future for NTask {
    type Output = ();
    fn poll(mut self: Pin<&mut Self>, cx: &mut Context<'_>) -> Poll<()> {
        let id = self.id;
        {
            let mut w = self.world.borrow_mut();
            if w.active[id] {
                w.fails.push(format!("reentrant-poll:{id}"));
            }
            if w.done[id] {
                w.fails.push(format!("poll-after-complete:{id}"));
            }
            w.expect_enter(id);
            w.active[id] = true;
            w.woken_active[id] = false;
            w.entered += 1;
            w.toks.push(format!("e{id}"));
            if w.wakers[id].is_none() {
                w.wakers[id] = Some(cx.waker().clone());
            }
        }
        loop {
            let a = self.script.get(self.pc).copied();
            match a {
                None | Some(NAct::C) => {
                    self.leave(true);
                    return Poll::Ready(());
                }
                Some(NAct::Y) => {
                    self.pc += 1;
                    {
                        let mut w = self.world.borrow_mut();
                        w.woken_active[id] = true;
                        w.expect_wake(id);
                    }
                    cx.waker().wake_by_ref();
                    self.leave(false);
                    return Poll::Pending;
                }
                Some(NAct::Wk(u)) => {
                    self.pc += 1;
                    let wk = {
                        let mut w = self.world.borrow_mut();
                        let wk = w.wakers.get(u).cloned().flatten();
                        if wk.is_some() && w.active[u] {
                            w.woken_active[u] = true;
                        }
                        if wk.is_some() {
                            w.expect_wake(u);
                        }
                        wk
                    };
                    if let Some(wk) = wk {
                        wk.wake_by_ref();
                    }
                }
                Some(NAct::N) => {
                    self.pc += 1;
                    let (exec, before) = {
                        let w = self.world.borrow();
                        (w.exec.clone().expect("executor"), w.entered)
                    };
                    // the borrow of the world is released: the nested poll runs other futures of this file
                    let r = exec.step();
                    let mut w = self.world.borrow_mut();
                    match r {
                        None => {
                            if !w.expq.is_empty() {
                                w.fails.push("step-none-with-woken-tasks".into());
                            }
                            w.toks.push("i".into())
                        }
                        Some(b) => {
                            if w.entered == before {
                                // `Task::poll` on an emptied slot
                                if !b {
                                    w.fails.push("noop-poll-returned-false".into());
                                }
                                w.expect_noop();
                                w.toks.push("~".into());
                            } else if w.last_exit != Some(b) {
                                w.fails.push(format!("nested-step-bool:{b}"));
                            }
                        }
                    }
                }
            }
        }
    }
}

/// Observation: the events of every top-level `Executor::step` — `e<t>` future of t entered, `x<t>p|r` it
/// returned `Pending`/`Ready`, `~` poll of an emptied slot, `i` nested `step` returned `None`, `G` the
/// recursion guard panicked — closed by `|<wake_count>`; then the final `wake_count`, how the run ended, the
/// finished tasks.  Oracle: no future entered while it is active or after it finished; the guard fires only
/// when a task was woken during its own poll; the `bool` of `step` is the readiness of the poll it made;
/// `try_receive` says `Ok` exactly for the finished tasks.
fn run_nested(scripts: &[Vec<NAct>]) -> (String, String) {
    let n = scripts.len();
    let exec: Executor<'static> = Executor::new();
    let world = Rc::new(RefCell::new(NWorld {
        active: vec![false; n],
        done: vec![false; n],
        woken_active: vec![false; n],
        wakers: vec![None; n],
        exec: Some(exec.clone()),
        ..Default::default()
    }));
    let mut receivers = vec![];
    for (id, sc) in scripts.iter().enumerate() {
        let t = NTask { id, script: sc.clone(), pc: 0, world: Rc::clone(&world) };
        receivers.push(unsafe { exec.spawn(t) });
        world.borrow_mut().expq.push_back(id);
    }
    let mut end = "cut";
    for _ in 0..MAX_STEPS {
        let before = world.borrow().entered;
        let r = std::panic::catch_unwind(std::panic::AssertUnwindSafe(|| exec.step()));
        match r {
            Ok(None) => {
                if !world.borrow().expq.is_empty() {
                    world.borrow_mut().fails.push("stalled-with-woken-tasks".into());
                }
                end = "stall";
                break;
            }
            Ok(Some(b)) => {
                let mut w = world.borrow_mut();
                if w.entered == before {
                    if !b {
                        w.fails.push("noop-poll-returned-false".into());
                    }
                    w.expect_noop();
                    w.toks.push("~".into());
                } else if w.last_exit != Some(b) {
                    w.fails.push(format!("step-bool:{b}"));
                }
                if w.active.iter().any(|a| *a) {
                    w.fails.push("active-after-step".into());
                }
                let wc = exec.wake_count();
                let want = w.expq.len();
                if wc != want {
                    w.fails.push(format!("queue-size:{wc}-expected:{want}"));
                }
                w.toks.push(format!("|{wc}"));
            }
            Err(p) => {
                let msg = p
                    .downcast_ref::<String>()
                    .cloned()
                    .or_else(|| p.downcast_ref::<&str>().map(|s| s.to_string()))
                    .unwrap_or_default();
                if !msg.contains("should not be polled recursively") {
                    std::panic::resume_unwind(p);
                }
                let mut w = world.borrow_mut();
                w.toks.push("G".into());
                // the guard may only fire for a task that is being polled AND was woken meanwhile
                if !(0..n).any(|t| w.active[t] && w.woken_active[t]) {
                    w.fails.push("guard-without-cause".into());
                }
                // … and that task was the front of the queue
                match w.expq.pop_front() {
                    Some(f) if w.active[f] && w.woken_active[f] => {}
                    other => {
                        let m = format!("overtaken:guard-front{other:?}").replace(['(', ')'], "");
                        w.fails.push(m)
                    }
                }
                end = "panic";
                break;
            }
        }
    }
    let wc = exec.wake_count();
    let mut w = world.borrow_mut();
    for (t, rx) in receivers.iter().enumerate() {
        let r = rx.try_receive();
        let want_ok = w.done[t];
        if r.is_ok() != want_ok {
            w.fails.push(format!("receiver:{t}"));
        }
    }
    // "when the run loop stalls every unfinished task is genuinely waiting": these futures return `Pending` only
    // after waking themselves, so at a stall every task must have completed
    if end == "stall" && w.done.iter().any(|d| !*d) {
        w.fails.push("stalled-with-unfinished-task".into());
    }
    // the state the guard panic leaves behind (`catch_unwind` above): the polls that were in progress have been
    // taken out of the queue unfinished; nothing else may be missing, nothing may be held twice
    if end == "panic" {
        if wc != w.expq.len() {
            let want = w.expq.len();
            w.fails.push(format!("queue-size-after-panic:{wc}-expected:{want}"));
        }
        for t in 0..n {
            if !w.done[t] && !w.active[t] && !w.expq.contains(&t) {
                w.fails.push(format!("lost-after-panic:{t}"));
            }
            if w.expq.iter().filter(|x| **x == t).count() > 1 {
                w.fails.push(format!("queued-twice-after-panic:{t}"));
            }
        }
    }
    let done: Vec<String> = (0..n).filter(|t| w.done[*t]).map(|t| t.to_string()).collect();
    let act: Vec<String> = (0..n).filter(|t| w.active[*t]).map(|t| t.to_string()).collect();
    let obs = format!(
        "{} | wc={wc} end={end} done={} act={}",
        w.toks.join(" "),
        if done.is_empty() { "-".to_string() } else { done.join(".") },
        if act.is_empty() { "-".to_string() } else { act.join(".") }
    );
    let oracle = if w.fails.is_empty() { "ok".to_string() } else { format!("FAIL:{}", w.fails.join(";")) };
    // break the cycles world -> executor -> tasks -> futures -> world
    w.exec = None;
    w.wakers.clear();
    drop(w);
    drop(receivers);
    drop(exec);
    (obs, oracle)
}

// ------------------------------------------------------------------------------------------------
// generators

/// all scripts of length <= `len` over `alpha` in which `J` occurs only after a `P` of the same script
/// (a `J` without a child is a no-op)
fn all_scripts(alpha: &[Act], len: usize) -> Vec<Vec<Act>> {
    let mut out: Vec<Vec<Act>> = vec![vec![]];
    let mut layer: Vec<Vec<Act>> = vec![vec![]];
    for _ in 0..len {
        let mut next = vec![];
        for s in &layer {
            for a in alpha {
                if *a == Act::J {
                    let p = s.iter().filter(|x| **x == Act::P).count();
                    let j = s.iter().filter(|x| **x == Act::J).count();
                    if j >= p {
                        continue;
                    }
                }
                let mut t = s.clone();
                t.push(*a);
                next.push(t);
            }
        }
        out.extend(next.iter().cloned());
        layer = next;
    }
    out
}

/// Systems that are not a smaller system in disguise: every non-root script can be spawned, and the
/// sticky mode is only distinguished when it can matter (a wait and two signals).
fn worth_running(c: &Case) -> bool {
    let count = |f: &dyn Fn(&Act) -> bool| c.scripts.iter().flatten().filter(|a| f(a)).count();
    let p = count(&|a| *a == Act::P);
    if p != c.scripts.len() - c.roots {
        return false;
    }
    if c.sticky && (count(&|a| matches!(a, Act::S(_))) < 2 || count(&|a| matches!(a, Act::W(_))) < 1) {
        return false;
    }
    true
}

/// Enumeration of the systems with exactly `n` scripts of length <= `len` (every `stride`-th tuple of
/// scripts; `stride` = 1 is exhaustive), with every number of roots and both modes.
fn enumerate(n: usize, len: usize, alpha: &[Act], stride: usize, f: &mut dyn FnMut(&Case)) {
    let scripts = all_scripts(alpha, len);
    let m = scripts.len();
    let total = m.pow(n as u32);
    for idx in (0..total).step_by(stride) {
        let mut k = idx;
        let mut chosen = vec![];
        for _ in 0..n {
            chosen.push(scripts[k % m].clone());
            k /= m;
        }
        for roots in 1..=n {
            for sticky in [false, true] {
                let c = Case { sticky, roots, scripts: chosen.clone() };
                if worth_running(&c) {
                    f(&c);
                }
            }
        }
    }
}

fn random_case(r: &mut Rng, big: bool) -> Case {
    let n = 1 + r.below(if big { 10 } else { 5 });
    let nch = 1 + r.below(3);
    let maxlen = if big { 12 } else { 6 };
    let mut scripts = vec![];
    for _ in 0..n {
        let len = r.below(maxlen + 1);
        let mut s = vec![];
        for _ in 0..len {
            s.push(match r.below(18) {
                0 | 1 | 2 => Act::Y,
                3 | 4 | 5 => Act::W(r.below(nch)),
                6 | 7 | 8 | 9 | 10 => Act::S(r.below(nch)),
                11 | 12 | 13 => Act::P,
                14 | 15 | 16 => Act::J,
                _ => {
                    if r.chance(1, 3) {
                        Act::C
                    } else {
                        Act::Y
                    }
                }
            });
        }
        scripts.push(s);
    }
    let roots = 1 + r.below(n);
    Case { sticky: r.chance(1, 2), roots, scripts }
}

fn main() {
    quiet_panics();
    let o = Opts::from_args();
    let (fixed, only) = o.fixed_cases();
    for c in &fixed {
        run_line(c);
    }
    if only {
        return;
    }
    let (si, sn) = o.shard;
    if si == 0 {
        for name in ["wake-after-drop", "dead-spawner", "spawner-after-drop", "spawn-pinned"] {
            run_line(&format!("x {name}"));
        }
    }
    // `--count`: print the size of every generator part to stderr instead of running the cases
    let counting = o.extra.iter().any(|a| a == "--count");
    let index = std::cell::Cell::new(0usize);
    let part = std::cell::Cell::new(0usize);
    let mut emit_case = |c: &Case| {
        index.set(index.get() + 1);
        part.set(part.get() + 1);
        if !counting && index.get() % sn == si {
            run_line(&show_case(c));
        }
    };
    let a1 = [Act::Y, Act::W(0), Act::S(0), Act::P, Act::J];
    let a2 = [Act::Y, Act::W(0), Act::S(0), Act::W(1), Act::S(1), Act::P, Act::J];
    // (scripts, max length, alphabet, stride over script tuples; 1 = exhaustive)
    let plan: Vec<(usize, usize, &[Act], usize)> = if o.thorough() {
        vec![
            (1, 4, &a2, 1),
            (2, 3, &a2, 1),
            (2, 4, &a1, 1),
            (3, 3, &a1, 1),
            (3, 3, &a2, 37),
            (3, 4, &a1, 409),
            (4, 3, &a1, 1009),
            (4, 4, &a1, 400_009),
        ]
    } else {
        vec![(1, 4, &a2, 1), (2, 3, &a1, 1), (3, 3, &a1, 13), (4, 4, &a1, 10_000_019)]
    };
    for (n, len, alpha, stride) in plan {
        enumerate(n, len, alpha, stride, &mut emit_case);
        if counting {
            eprintln!("enumerate {n} scripts x <={len} actions, alphabet {}, stride {stride}: {} cases", alpha.len(), part.get());
        }
        part.set(0);
    }
    let mut rng = Rng::new(o.seed ^ 0xC15);
    let n = if o.thorough() { 400_000 } else { 10_000 };
    for k in 0..n {
        let mut r = rng.fork();
        if counting || k % sn != si {
            continue;
        }
        let c = random_case(&mut r, k % 2 == 0);
        run_line(&show_case(&c));
    }
    if counting {
        eprintln!("random: {n} cases");
    }

    // ---- `f`: the forwarder alone, every sequence of its six operations up to a length
    let lines = std::cell::Cell::new(0usize);
    let emit_line = |l: &str| {
        lines.set(lines.get() + 1);
        if !counting && lines.get() % sn == si {
            run_line(l);
        }
    };
    let fops = ["send", "ds", "dr", "try", "pa", "pb"];
    let flen = if o.thorough() { 7 } else { 5 };
    let mut layer: Vec<String> = vec!["f".to_string()];
    emit_line("f");
    for _ in 0..flen {
        let mut next = vec![];
        for l in &layer {
            for op in fops {
                let c = format!("{l} {op}");
                emit_line(&c);
                next.push(c);
            }
        }
        layer = next;
    }
    if counting {
        eprintln!("forwarder sequences (6 ops, length <= {flen}): {} cases", lines.get());
    }
    lines.set(0);

    // ---- `v`: every sequence of outside operations up to a length on a few systems, then random ones
    let systems = ["d 1 : W0 W0", "s 2 : W0 Y W0 / W0", "d 1 : P J / W0 Y", "d 2 : W0 S0 / Y W0 / W0"];
    let vops = ["s", "u", "w0.0", "r0.0", "c0.0", "d0.0", "w0.1", "r0.1", "S0", "X", "p"];
    let vlen = if o.thorough() { 5 } else { 3 };
    for sys in systems {
        let mut layer: Vec<String> = vec![format!("v {sys} ;")];
        for _ in 0..vlen {
            let mut next = vec![];
            for l in &layer {
                for op in vops {
                    let c = format!("{l} {op}");
                    emit_line(&c);
                    next.push(c);
                }
            }
            layer = next;
        }
    }
    if counting {
        eprintln!("outside-operation sequences ({} systems, 11 ops, length <= {vlen}): {} cases", systems.len(), lines.get());
    }
    let mut rng = Rng::new(o.seed ^ 0xC15_0B5);
    let n = if o.thorough() { 300_000 } else { 10_000 };
    for k in 0..n {
        let mut r = rng.fork();
        if counting || k % sn != si {
            continue;
        }
        let c = random_case(&mut r, false);
        let nops = 3 + r.below(22);
        let ops: Vec<String> = (0..nops)
            .map(|_| {
                let k = r.below(3);
                let i = r.below(3);
                show_op(match r.below(30) {
                    0..=8 => Op::Step,
                    9..=10 => Op::Rus,
                    11..=13 => Op::Wake(k, i),
                    14..=17 => Op::ByRef(k, i),
                    18..=20 => Op::Clone(k, i),
                    21..=22 => Op::Drop(k, i),
                    23..=25 => Op::Signal(k),
                    26 => Op::DropExec,
                    27 => Op::Try(r.below(4)),
                    _ => Op::Spawn,
                })
            })
            .collect();
        run_line(&format!("v {} ; {}", show_case(&c), ops.join(" ")));
    }
    if counting {
        eprintln!("random outside-operation cases: {n}");
    }

    // ---- `n`: `Executor::step` from inside a poll: every tuple of scripts over {Y, N, w<u>} up to a size, then random
    lines.set(0);
    let nplan: &[(usize, usize, usize)] =
        if o.thorough() { &[(1, 5, 1), (2, 4, 1), (3, 2, 1), (3, 3, 7), (4, 2, 3)] } else { &[(1, 4, 1), (2, 3, 1), (3, 2, 3)] };
    for &(nt, len, stride) in nplan {
        let mut alpha = vec![NAct::Y, NAct::N];
        alpha.extend((0..nt).map(NAct::Wk));
        let mut scripts: Vec<Vec<NAct>> = vec![vec![]];
        let mut layer: Vec<Vec<NAct>> = vec![vec![]];
        for _ in 0..len {
            let mut next = vec![];
            for l in &layer {
                for a in &alpha {
                    let mut c = l.clone();
                    c.push(*a);
                    next.push(c);
                }
            }
            scripts.extend(next.iter().cloned());
            layer = next;
        }
        let total = scripts.len().pow(nt as u32);
        let mut k = 0usize;
        while k < total {
            let mut idx = k;
            let mut tuple = vec![];
            for _ in 0..nt {
                tuple.push(show_nscript(&scripts[idx % scripts.len()]));
                idx /= scripts.len();
            }
            emit_line(&format!("n {}", tuple.join(" / ")));
            k += stride;
        }
    }
    if counting {
        eprintln!("nested-step systems: {} cases", lines.get());
    }
    let mut rng = Rng::new(o.seed ^ 0xC15_2E57);
    let n = if o.thorough() { 200_000 } else { 10_000 };
    for k in 0..n {
        let mut r = rng.fork();
        if counting || k % sn != si {
            continue;
        }
        let nt = 1 + r.below(6);
        let scripts: Vec<String> = (0..nt)
            .map(|_| {
                let len = r.below(9);
                let sc: Vec<NAct> = (0..len)
                    .map(|_| match r.below(10) {
                        0..=2 => NAct::Y,
                        3..=5 => NAct::N,
                        6 => NAct::C,
                        _ => NAct::Wk(r.below(nt)),
                    })
                    .collect();
                show_nscript(&sc)
            })
            .collect();
        run_line(&format!("n {}", scripts.join(" / ")));
    }
    if counting {
        eprintln!("random nested-step cases: {n}");
    }
}
