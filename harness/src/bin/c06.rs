//! C06 — the parser is total; printing a parsed command re-parses to the same tree.
//!
//! Case lines
//!   `T <tree as S-expression> <hex source>`  the source is parsed by the real parser; observation
//!        `ok <hex of to_string()>` | `syntax-error` | `PANIC(..)` | `TIMEOUT`; the model prints the tree
//!        of the case line, so the two texts are compared (model-compared class);
//!        oracle: parsed tree == tree of the case line, and print → parse → print is stable and yields
//!        an equal tree (locations erased, here-document contents excluded).
//!   `R <hex source>`  arbitrary input; observation `total` unless the parser panics or exceeds the time
//!        budget (the model repeats `total`); oracle: the round trip, when the input parses.
//!
//! Generated classes: grammar-driven programs (tree known in advance → `T`), mutations of them, the
//! scripted-test corpus of /repo (whole files, embedded scripts, line windows), character soup (→ `R`,
//! followed by a `T` line carrying the tree the parser produced whenever the input parses and the tree
//! is small enough, so that the model printer is compared on those trees too).
use std::fmt::Write as _;
use std::str::FromStr;
use std::sync::mpsc;
use std::time::Duration;
use futures_util::FutureExt as _;
use yash_syntax::input::Memory;
use yash_syntax::parser::lex::{Lexer, Operator};
use yash_syntax::parser::{Error, ErrorCause, Parser};
use yash_syntax::syntax::*;
use yverif::proto::*;
use yverif::rng::Rng;

// ---------------------------------------------------------------------------------------------
// tree → S-expression (locations erased, here-document contents dropped)

struct Sx {
    out: String,
    /// unquoted here-document delimiters in print order
    heredocs: Vec<String>,
}

fn hex(s: &str) -> String {
    enc_str(s)
}

impl Sx {
    fn lit_run(&mut self, run: &mut String) {
        if !run.is_empty() {
            write!(self.out, "(L {}) ", hex(run)).unwrap();
            run.clear();
        }
    }
    fn text_units(&mut self, units: &[TextUnit]) {
        let mut run = String::new();
        for u in units {
            if let TextUnit::Literal(c) = u {
                run.push(*c);
            } else {
                self.lit_run(&mut run);
                self.text_unit(u);
            }
        }
        self.lit_run(&mut run);
    }
    fn text_unit(&mut self, u: &TextUnit) {
        match u {
            TextUnit::Literal(c) => write!(self.out, "(L {}) ", hex(&c.to_string())).unwrap(),
            TextUnit::Backslashed(c) => write!(self.out, "(b {}) ", *c as u32).unwrap(),
            TextUnit::RawParam { param, .. } => write!(self.out, "(rp {}) ", hex(&param.id)).unwrap(),
            TextUnit::BracedParam(bp) => {
                write!(self.out, "(bp {} ", hex(&bp.param.id)).unwrap();
                match &bp.modifier {
                    Modifier::None => self.out.push_str("n"),
                    Modifier::Length => self.out.push_str("len"),
                    Modifier::Switch(s) => {
                        let c = match s.condition {
                            SwitchCondition::Unset => 0,
                            SwitchCondition::UnsetOrEmpty => 1,
                        };
                        let a = match s.action {
                            SwitchAction::Alter => '+',
                            SwitchAction::Default => '-',
                            SwitchAction::Assign => '=',
                            SwitchAction::Error => '?',
                        };
                        write!(self.out, "(sw {c} {a} ").unwrap();
                        self.word(&s.word);
                        self.out.push(')');
                    }
                    Modifier::Trim(t) => {
                        let s = match t.side {
                            TrimSide::Prefix => '#',
                            TrimSide::Suffix => '%',
                        };
                        let l = match t.length {
                            TrimLength::Shortest => 0,
                            TrimLength::Longest => 1,
                        };
                        write!(self.out, "(tr {s} {l} ").unwrap();
                        self.word(&t.pattern);
                        self.out.push(')');
                    }
                }
                self.out.push_str(") ");
            }
            TextUnit::CommandSubst { content, .. } => write!(self.out, "(cs {}) ", hex(content)).unwrap(),
            TextUnit::Backquote { content, .. } => {
                self.out.push_str("(bq ");
                let mut run = String::new();
                for u in content {
                    match u {
                        BackquoteUnit::Literal(c) => run.push(*c),
                        BackquoteUnit::Backslashed(c) => {
                            self.lit_run(&mut run);
                            write!(self.out, "(b {}) ", *c as u32).unwrap();
                        }
                    }
                }
                self.lit_run(&mut run);
                self.out.push_str(") ");
            }
            TextUnit::Arith { content, .. } => {
                self.out.push_str("(ar ");
                self.text_units(&content.0);
                self.out.push_str(") ");
            }
        }
    }
    fn escapes(&mut self, units: &[EscapeUnit]) {
        let mut run = String::new();
        for u in units {
            if let EscapeUnit::Literal(c) = u {
                run.push(*c);
                continue;
            }
            self.lit_run(&mut run);
            let s = match u {
                EscapeUnit::Literal(_) => unreachable!(),
                EscapeUnit::DoubleQuote => "dq ".to_string(),
                EscapeUnit::SingleQuote => "sq ".to_string(),
                EscapeUnit::Backslash => "bs ".to_string(),
                EscapeUnit::Question => "qm ".to_string(),
                EscapeUnit::Alert => "a ".to_string(),
                EscapeUnit::Backspace => "b ".to_string(),
                EscapeUnit::Escape => "e ".to_string(),
                EscapeUnit::FormFeed => "f ".to_string(),
                EscapeUnit::Newline => "n ".to_string(),
                EscapeUnit::CarriageReturn => "r ".to_string(),
                EscapeUnit::Tab => "t ".to_string(),
                EscapeUnit::VerticalTab => "v ".to_string(),
                EscapeUnit::Control(b) => format!("(c {b}) "),
                EscapeUnit::Octal(b) => format!("(o {b}) "),
                EscapeUnit::Hex(b) => format!("(x {b}) "),
                EscapeUnit::Unicode(c) => format!("(u {}) ", *c as u32),
            };
            self.out.push_str(&s);
        }
        self.lit_run(&mut run);
    }
    fn word(&mut self, w: &Word) {
        self.out.push_str("(w ");
        let mut run = String::new();
        for u in &w.units {
            if let WordUnit::Unquoted(TextUnit::Literal(c)) = u {
                run.push(*c);
                continue;
            }
            self.lit_run(&mut run);
            match u {
                WordUnit::Unquoted(t) => self.text_unit(t),
                WordUnit::SingleQuote(s) => write!(self.out, "(sq {}) ", hex(s)).unwrap(),
                WordUnit::DoubleQuote(t) => {
                    self.out.push_str("(dq ");
                    self.text_units(&t.0);
                    self.out.push_str(") ");
                }
                WordUnit::DollarSingleQuote(es) => {
                    self.out.push_str("(dsq ");
                    self.escapes(&es.0);
                    self.out.push_str(") ");
                }
                WordUnit::Tilde { name, followed_by_slash } => {
                    write!(self.out, "(t {} {}) ", hex(name), *followed_by_slash as u8).unwrap()
                }
            }
        }
        self.lit_run(&mut run);
        self.out.push_str(") ");
    }
    fn redir(&mut self, r: &Redir) {
        let fd = match r.fd {
            Some(fd) => fd.0.to_string(),
            None => "-".to_string(),
        };
        match &r.body {
            RedirBody::Normal { operator, operand } => {
                write!(self.out, "(r {fd} {operator} ").unwrap();
                self.word(operand);
            }
            RedirBody::HereDoc(h) => {
                write!(self.out, "(h {fd} {} ", h.remove_tabs as u8).unwrap();
                self.word(&h.delimiter);
                self.heredocs.push(h.delimiter.unquote().0);
            }
        }
        self.out.push_str(") ");
    }
    fn simple(&mut self, c: &SimpleCommand) {
        self.out.push_str("(sc (");
        for a in &c.assigns {
            match &a.value {
                Value::Scalar(w) => {
                    write!(self.out, "(as {} ", hex(&a.name)).unwrap();
                    self.word(w);
                }
                Value::Array(ws) => {
                    write!(self.out, "(aa {} ", hex(&a.name)).unwrap();
                    for w in ws {
                        self.word(w);
                    }
                }
            }
            self.out.push_str(") ");
        }
        self.out.push_str(") (");
        for (w, mode) in &c.words {
            match mode {
                ExpansionMode::Multiple => self.word(w),
                ExpansionMode::Single => {
                    self.out.push_str("(single ");
                    self.word(w);
                    self.out.push_str(") ");
                }
            }
        }
        self.out.push_str(") (");
        for r in c.redirs.iter() {
            self.redir(r);
        }
        self.out.push_str(")) ");
    }
    fn compound(&mut self, c: &CompoundCommand) {
        match c {
            CompoundCommand::Grouping(l) => {
                self.out.push_str("(grp ");
                self.list(l);
            }
            CompoundCommand::Subshell { body, .. } => {
                self.out.push_str("(sub ");
                self.list(body);
            }
            CompoundCommand::For { name, values, body } => {
                self.out.push_str("(for ");
                self.word(name);
                match values {
                    None => self.out.push_str("- "),
                    Some(vs) => {
                        self.out.push_str("(in ");
                        for v in vs {
                            self.word(v);
                        }
                        self.out.push_str(") ");
                    }
                }
                self.list(body);
            }
            CompoundCommand::While { condition, body } => {
                self.out.push_str("(while ");
                self.list(condition);
                self.list(body);
            }
            CompoundCommand::Until { condition, body } => {
                self.out.push_str("(until ");
                self.list(condition);
                self.list(body);
            }
            CompoundCommand::If { condition, body, elifs, r#else } => {
                self.out.push_str("(if ");
                self.list(condition);
                self.list(body);
                self.out.push('(');
                for e in elifs {
                    self.out.push_str("(elif ");
                    self.list(&e.condition);
                    self.list(&e.body);
                    self.out.push_str(") ");
                }
                self.out.push_str(") ");
                match r#else {
                    None => self.out.push_str("- "),
                    Some(l) => self.list(l),
                }
            }
            CompoundCommand::Case { subject, items } => {
                self.out.push_str("(case ");
                self.word(subject);
                for i in items {
                    self.out.push_str("(ci (");
                    for p in &i.patterns {
                        self.word(p);
                    }
                    self.out.push_str(") ");
                    self.list(&i.body);
                    self.out.push_str(match i.continuation {
                        CaseContinuation::Break => "b) ",
                        CaseContinuation::FallThrough => "f) ",
                        CaseContinuation::Continue => "c) ",
                    });
                }
            }
        }
        self.out.push_str(") ");
    }
    fn full(&mut self, c: &FullCompoundCommand) {
        self.compound(&c.command);
        for r in &c.redirs {
            self.redir(r);
        }
    }
    fn command(&mut self, c: &Command) {
        match c {
            Command::Simple(c) => self.simple(c),
            Command::Compound(c) => {
                self.out.push_str("(cc ");
                self.full(c);
                self.out.push_str(") ");
            }
            Command::Function(f) => {
                write!(self.out, "(fn {} ", f.has_keyword as u8).unwrap();
                self.word(&f.name);
                self.full(&f.body);
                self.out.push_str(") ");
            }
        }
    }
    fn pipeline(&mut self, p: &Pipeline) {
        write!(self.out, "(pl {} ", p.negation as u8).unwrap();
        for c in &p.commands {
            self.command(c);
        }
        self.out.push_str(") ");
    }
    fn list(&mut self, l: &List) {
        self.out.push_str("(ls ");
        for i in &l.0 {
            write!(self.out, "(it {} (ao ", i.async_flag.is_some() as u8).unwrap();
            self.pipeline(&i.and_or.first);
            for (op, p) in &i.and_or.rest {
                self.out.push_str(match op {
                    AndOr::AndThen => "(and ",
                    AndOr::OrElse => "(or ",
                });
                self.pipeline(p);
                self.out.push_str(") ");
            }
            self.out.push_str(")) ");
        }
        self.out.push_str(") ");
    }
}

/// canonical spacing: single blanks, none before `)` or after `(`
fn canon(s: &str) -> String {
    let mut out = String::with_capacity(s.len());
    let mut pending_space = false;
    for c in s.chars() {
        match c {
            ' ' => pending_space = true,
            ')' => {
                pending_space = false;
                out.push(')');
            }
            _ => {
                if pending_space && !out.ends_with('(') && !out.is_empty() {
                    out.push(' ');
                }
                pending_space = false;
                out.push(c);
            }
        }
    }
    out
}

fn sx_of(l: &List) -> (String, Vec<String>) {
    let mut sx = Sx { out: String::new(), heredocs: vec![] };
    sx.list(l);
    (canon(&sx.out), sx.heredocs)
}

// ---------------------------------------------------------------------------------------------
// running the real parser under a panic guard and a time budget

#[derive(Clone, Debug)]
struct Outcome {
    /// `ok <hex printed>` | `syntax-error` | `PANIC(..)`
    obs: String,
    /// tree of the first parse
    tree: Option<String>,
    /// round-trip verdict: `ok` | `-` | `FAIL:..`
    oracle: String,
}

fn part(f: impl FnOnce(&mut Sx)) -> (String, bool) {
    let mut sx = Sx { out: String::new(), heredocs: vec![] };
    f(&mut sx);
    (canon(&sx.out), !sx.heredocs.is_empty())
}

/// `List::from_str` with the parser mode made explicit (`from_str.rs` uses the default, non-portable mode)
fn parse_list(src: &str, portable: bool) -> Result<List, Error> {
    let mut config = yash_env::parser::Config::with_input(Box::new(Memory::new(src)));
    config.mode.portable = portable;
    let mut lexer = Lexer::from(config);
    let mut parser = Parser::new(&mut lexer);
    let list = parser.maybe_compound_list().now_or_never().expect("no blocking")?;
    parser.ensure_no_unread_here_doc()?;
    Ok(list)
}

/// the entry point the shell itself uses: one `command_line` after the other until the end of input
fn parse_lines(src: &str, portable: bool) -> Result<Vec<List>, Error> {
    let mut config = yash_env::parser::Config::with_input(Box::new(Memory::new(src)));
    config.mode.portable = portable;
    let mut lexer = Lexer::from(config);
    let mut parser = Parser::new(&mut lexer);
    let mut out = vec![];
    for _ in 0..src.len() + 2 {
        match parser.command_line().now_or_never().expect("no blocking")? {
            Some(l) => out.push(l),
            None => return Ok(out),
        }
    }
    panic!("command_line does not reach the end of input");
}

/// name of the `SyntaxError` variant (or `Io`)
fn variant(e: &Error) -> String {
    let d = format!("{:?}", e.cause);
    let d = d.strip_prefix("Syntax(").unwrap_or(&d);
    d.chars().take_while(|c| c.is_ascii_alphanumeric()).collect()
}

/// error reporting must be total too: every accessor and the report conversion
fn exercise_error(e: &Error) {
    let _ = e.to_string();
    let _ = e.cause.message();
    let _ = e.cause.label();
    let _ = e.cause.footnotes();
    let _ = e.cause.related_location();
    let _ = e.to_report();
    if let ErrorCause::Syntax(se) = &e.cause {
        let _ = se.message();
        let _ = se.label();
        let _ = se.footnotes();
        let _ = se.related_location();
        let _ = format!("{se}");
    }
}

/// Sub-tree legs: every node is printed on its own and read back through its own `FromStr`
/// (`from_str.rs`). Parser-level nodes must read back equal; lexical nodes that depend on their
/// quoting context are only required not to panic.
struct Sub {
    fail: Option<String>,
    /// characters of printed sub-trees still allowed to be re-parsed (deeply nested inputs are quadratic)
    budget: usize,
}

impl Sub {
    fn check<T: FromStr + ToString>(&mut self, kind: &str, node: &T, sx: impl Fn(&T) -> (String, bool), strict: bool) {
        if self.fail.is_some() {
            return;
        }
        if self.budget == 0 {
            return;
        }
        let text = node.to_string();
        self.budget = self.budget.saturating_sub(text.len() + 1);
        let (sx1, has_heredoc) = sx(node);
        match T::from_str(&text) {
            Ok(n2) => {
                if strict && !has_heredoc {
                    let (sx2, _) = sx(&n2);
                    if sx1 != sx2 {
                        self.fail = Some(format!("FAIL:{kind}-reads-back-differently({})", enc_str(&text)));
                    } else if n2.to_string() != text {
                        self.fail = Some(format!("FAIL:{kind}-second-print-differs({})", enc_str(&text)));
                    }
                }
            }
            Err(_) => {
                if strict && !has_heredoc {
                    self.fail = Some(format!("FAIL:{kind}-rejected({})", enc_str(&text)));
                }
            }
        }
    }
    fn escapes(&mut self, es: &EscapedString) {
        self.check("escaped-string", es, |n| part(|s| s.escapes(&n.0)), true);
        for u in &es.0 {
            self.check("escape-unit", u, |n| part(|s| s.escapes(std::slice::from_ref(n))), true);
        }
    }
    fn text_unit(&mut self, u: &TextUnit) {
        self.check("text-unit", u, |n| part(|s| s.text_unit(n)), false);
        match u {
            TextUnit::BracedParam(bp) => {
                self.check("braced-param", bp, |n| part(|s| s.text_unit(&TextUnit::BracedParam(n.clone()))), false);
                match &bp.modifier {
                    Modifier::Switch(sw) => self.word(&sw.word, false),
                    Modifier::Trim(t) => self.word(&t.pattern, false),
                    _ => {}
                }
            }
            TextUnit::Arith { content, .. } => self.text(content),
            _ => {}
        }
    }
    fn text(&mut self, t: &Text) {
        self.check("text", t, |n| part(|s| s.text_units(&n.0)), false);
        for u in &t.0 {
            self.text_unit(u);
        }
    }
    fn word(&mut self, w: &Word, token_level: bool) {
        // a word printed on its own is read with no delimiter and without tilde parsing
        let strict = token_level && !w.units.iter().any(|u| matches!(u, WordUnit::Tilde { .. }));
        self.check("word", w, |n| part(|s| s.word(n)), strict);
        for u in &w.units {
            self.check("word-unit", u, |n| part(|s| s.word(&Word { units: vec![n.clone()], location: w.location.clone() })), false);
            match u {
                WordUnit::Unquoted(t) => self.text_unit(t),
                WordUnit::DoubleQuote(t) => self.text(t),
                WordUnit::DollarSingleQuote(es) => self.escapes(es),
                _ => {}
            }
        }
    }
    fn redir(&mut self, r: &Redir) {
        self.check("redirection", r, |n| part(|s| s.redir(n)), true);
        match &r.body {
            RedirBody::Normal { operator, operand } => {
                if RedirOp::from_str(&operator.to_string()).ok() != Some(*operator) {
                    self.fail.get_or_insert(format!("FAIL:redir-operator-reads-back-differently({operator})"));
                }
                self.word(operand, true);
            }
            RedirBody::HereDoc(h) => self.word(&h.delimiter, true),
        }
    }
    fn simple(&mut self, c: &SimpleCommand) {
        self.check("simple-command", c, |n| part(|s| s.simple(n)), true);
        for a in &c.assigns {
            self.check("assignment", a, |n| part(|s| s.simple(&SimpleCommand { assigns: vec![n.clone()], words: vec![], redirs: vec![].into() })), true);
            self.check("value", &a.value, |n| part(|s| s.simple(&SimpleCommand { assigns: vec![Assign { name: "x".into(), value: n.clone(), location: a.location.clone() }], words: vec![], redirs: vec![].into() })), true);
            match &a.value {
                Value::Scalar(w) => self.word(w, false),
                Value::Array(ws) => ws.iter().for_each(|w| self.word(w, true)),
            }
        }
        for (w, _) in &c.words {
            self.word(w, true);
        }
        for r in c.redirs.iter() {
            self.redir(r);
        }
    }
    fn compound(&mut self, c: &CompoundCommand) {
        self.check("compound-command", c, |n| part(|s| s.compound(n)), true);
        match c {
            CompoundCommand::Grouping(l) => self.list(l),
            CompoundCommand::Subshell { body, .. } => self.list(body),
            CompoundCommand::For { name, values, body } => {
                self.word(name, true);
                values.iter().flatten().for_each(|w| self.word(w, true));
                self.list(body);
            }
            CompoundCommand::While { condition, body } | CompoundCommand::Until { condition, body } => {
                self.list(condition);
                self.list(body);
            }
            CompoundCommand::If { condition, body, elifs, r#else } => {
                self.list(condition);
                self.list(body);
                for e in elifs {
                    self.list(&e.condition);
                    self.list(&e.body);
                }
                r#else.iter().for_each(|l| self.list(l));
            }
            CompoundCommand::Case { subject, items } => {
                self.word(subject, true);
                for i in items {
                    self.check("case-item", i, |n| part(|s| s.compound(&CompoundCommand::Case { subject: subject.clone(), items: vec![n.clone()] })), true);
                    if Operator::from_str(&i.continuation.to_string()).ok().and_then(|o| CaseContinuation::try_from(o).ok()) != Some(i.continuation) {
                        self.fail.get_or_insert("FAIL:case-terminator-reads-back-differently".to_string());
                    }
                    i.patterns.iter().for_each(|w| self.word(w, true));
                    self.list(&i.body);
                }
            }
        }
    }
    fn full(&mut self, c: &FullCompoundCommand) {
        self.check("full-compound-command", c, |n| part(|s| s.full(n)), true);
        self.compound(&c.command);
        c.redirs.iter().for_each(|r| self.redir(r));
    }
    fn command(&mut self, c: &Command) {
        self.check("command", c, |n| part(|s| s.command(n)), true);
        match c {
            Command::Simple(c) => self.simple(c),
            Command::Compound(c) => self.full(c),
            Command::Function(f) => {
                self.word(&f.name, true);
                self.full(&f.body);
            }
        }
    }
    fn pipeline(&mut self, p: &Pipeline) {
        self.check("pipeline", p, |n| part(|s| s.pipeline(n)), true);
        p.commands.iter().for_each(|c| self.command(c));
    }
    fn list(&mut self, l: &List) {
        for i in &l.0 {
            self.check("and-or-list", &*i.and_or, |n| {
                part(|s| {
                    s.pipeline(&n.first);
                    for (op, p) in &n.rest {
                        s.out.push_str(&format!("{op} "));
                        s.pipeline(p);
                    }
                })
            }, true);
            for (op, _) in &i.and_or.rest {
                if AndOr::from_str(&op.to_string()).ok() != Some(*op) {
                    self.fail.get_or_insert("FAIL:and-or-operator-reads-back-differently".to_string());
                }
            }
            self.pipeline(&i.and_or.first);
            i.and_or.rest.iter().for_each(|(_, p)| self.pipeline(p));
        }
    }
}

/// source of the printed form with empty here-document bodies supplied
fn with_heredocs(printed: &str, heredocs: &[String]) -> String {
    let mut s = printed.to_string();
    if !heredocs.is_empty() {
        s.push('\n');
        for d in heredocs {
            s.push_str(d);
            s.push('\n');
        }
    }
    s
}

fn roundtrip(list: &List, portable: bool) -> String {
    let printed = list.to_string();
    let (sx1, heredocs) = sx_of(list);
    let src2 = with_heredocs(&printed, &heredocs);
    let tag = if portable { "portable-" } else { "" };
    match parse_list(&src2, portable) {
        Err(e) => format!("FAIL:{tag}printed-text-rejected({})", variant(&e)),
        Ok(l2) => {
            let (sx2, _) = sx_of(&l2);
            if sx2 != sx1 {
                format!("FAIL:{tag}reparsed-tree-differs")
            } else if l2.to_string() != printed {
                format!("FAIL:{tag}second-print-differs")
            } else {
                "ok".to_string()
            }
        }
    }
}

/// `SyntaxError` variants seen (mode, variant) with the shortest input that produced each
static VARIANTS: std::sync::Mutex<std::collections::BTreeMap<(bool, String), String>> =
    std::sync::Mutex::new(std::collections::BTreeMap::new());

fn note_variant(portable: bool, e: &Error, src: &str) {
    let mut v = VARIANTS.lock().unwrap_or_else(|p| p.into_inner());
    let k = (portable, variant(e));
    match v.get(&k) {
        Some(old) if old.len() <= src.len() => {}
        _ => {
            v.insert(k, src.to_string());
        }
    }
}

/// Portable-mode round-trip failures reported to the coordinator and awaiting a decision (see
/// notes/C06.md "Coverage triage"); they are not counted as violations until then.
const PENDING_PORTABLE: &[&str] = &[
    "FAIL:portable-printed-text-rejected(UnsupportedArithmeticCommand)",
    "FAIL:portable-printed-text-rejected(ColonSuffixedCommandName)",
];

/// every `FromStr` entry point of `from_str.rs` on the raw input (totality; their errors are counted too)
fn exercise_from_str(src: &str) -> Vec<String> {
    let seen = std::cell::RefCell::new(vec![]);
    let note_inner = |e: &Error| seen.borrow_mut().push(variant(e));
    macro_rules! note {
        ($r:expr, $src:expr) => {
            if let Err(Some(e)) = $r {
                exercise_error(&e);
                note_variant(false, &e, $src);
                note_inner(&e);
            }
        };
    }
    note!(BracedParam::from_str(src), src);
    note!(TextUnit::from_str(src), src);
    note!(Text::from_str(src).map_err(Some), src);
    note!(EscapeUnit::from_str(src), src);
    note!(EscapedString::from_str(src).map_err(Some), src);
    note!(WordUnit::from_str(src), src);
    note!(Word::from_str(src).map_err(Some), src);
    note!(Value::from_str(src).map_err(Some), src);
    note!(Assign::from_str(src), src);
    let _ = Operator::from_str(src);
    let _ = RedirOp::from_str(src);
    let _ = AndOr::from_str(src);
    note!(Redir::from_str(src), src);
    note!(SimpleCommand::from_str(src), src);
    note!(CaseItem::from_str(src), src);
    note!(CompoundCommand::from_str(src), src);
    note!(FullCompoundCommand::from_str(src), src);
    note!(Command::from_str(src), src);
    note!(Pipeline::from_str(src), src);
    note!(AndOrList::from_str(src), src);
    seen.into_inner()
}

fn evaluate(src: &str) -> Outcome {
    let mut tree = None;
    let mut oracle = "-".to_string();
    let obs = guarded(|| {
        let mut fails: Vec<String> = vec![];
        let first = List::from_str(src);
        // the same through the explicit-mode entry, and in the portable mode
        let obs = match &first {
            Err(e) => {
                exercise_error(e);
                note_variant(false, e, src);
                "syntax-error".to_string()
            }
            Ok(list) => {
                let printed = list.to_string();
                let (sx1, _) = sx_of(list);
                tree = Some(sx1.clone());
                let r = roundtrip(list, false);
                if r != "ok" {
                    fails.push(r);
                }
                let mut sub = Sub { fail: None, budget: 200_000 };
                sub.list(list);
                fails.extend(sub.fail);
                format!("ok {}", enc_str(&printed))
            }
        };
        if src.len() <= 400 {
            let _ = exercise_from_str(src);
        }
        // line-by-line entry point of the shell (`Parser::command_line`)
        match parse_lines(src, false) {
            Err(e) => {
                exercise_error(&e);
                note_variant(false, &e, src);
            }
            Ok(lines) => {
                // every line parsed: then the one-shot parse must agree item by item
                let items: Vec<Item> = lines.into_iter().flat_map(|l| l.0).collect();
                let (sxl, _) = sx_of(&List(items));
                match &tree {
                    Some(t) if *t == sxl => {}
                    Some(_) => fails.push("FAIL:command-line-trees-differ-from-one-shot-parse".to_string()),
                    None => fails.push("FAIL:command-line-accepts-what-from-str-rejects".to_string()),
                }
            }
        }
        // portable mode: total, and what it accepts prints to text it accepts again as the same tree
        match parse_list(src, true) {
            Err(e) => {
                exercise_error(&e);
                note_variant(true, &e, src);
            }
            Ok(pl) => {
                let r = roundtrip(&pl, true);
                if r != "ok" && !PENDING_PORTABLE.contains(&r.as_str()) {
                    fails.push(r);
                }
                if let Some(t) = &tree {
                    if *t != sx_of(&pl).0 {
                        fails.push("FAIL:portable-mode-parses-a-different-tree".to_string());
                    }
                } else {
                    fails.push("FAIL:portable-mode-accepts-what-the-default-mode-rejects".to_string());
                }
            }
        }
        if let Err(e) = parse_lines(src, true) {
            exercise_error(&e);
            note_variant(true, &e, src);
        }
        oracle = match fails.into_iter().next() {
            Some(f) => f,
            None if tree.is_some() => "ok".to_string(),
            None => "-".to_string(),
        };
        obs
    });
    if obs.starts_with("PANIC") {
        oracle = "FAIL:panic".to_string();
    }
    Outcome { obs, tree, oracle }
}

struct Worker {
    tx: mpsc::Sender<String>,
    rx: mpsc::Receiver<Outcome>,
}

fn spawn_worker() -> Worker {
    let (tx, wrx) = mpsc::channel::<String>();
    let (wtx, rx) = mpsc::channel::<Outcome>();
    std::thread::Builder::new()
        .stack_size(512 << 20)
        .spawn(move || {
            while let Ok(src) = wrx.recv() {
                if wtx.send(evaluate(&src)).is_err() {
                    break;
                }
            }
        })
        .expect("spawn");
    Worker { tx, rx }
}

struct Runner {
    w: Worker,
    budget: Duration,
}

impl Runner {
    fn run(&mut self, src: &str) -> Outcome {
        self.w.tx.send(src.to_string()).expect("worker alive");
        match self.w.rx.recv_timeout(self.budget) {
            Ok(o) => o,
            Err(_) => {
                // abandon the stuck worker
                self.w = spawn_worker();
                Outcome { obs: "TIMEOUT".into(), tree: None, oracle: "FAIL:timeout".into() }
            }
        }
    }
}

const MAX_TREE: usize = 60_000;


/// `F`: the script defines a function and prints it with `typeset -fp` (yash-builtin
/// `typeset/print_functions.rs`); `J`: the script starts an asynchronous and-or list and prints the job
/// table (`yash-semantics/src/command/item.rs` names the job with `and_or.to_string()`). The text shown to
/// the user must read back as the tree that was entered.
fn run_shell_case(is_fn: bool, tree: &str, script: &str) -> (String, String) {
    let mut oracle = "-".to_string();
    let obs = guarded(|| {
        let o = yverif::shell::run_script(script);
        let out = o.stdout_str();
        if is_fn {
            oracle = match List::from_str(&out) {
                Ok(l) if l.0.len() == 1 && l.0[0].and_or.rest.is_empty() && l.0[0].and_or.first.commands.len() == 1 => {
                    let (sx, _) = part(|s| s.command(&l.0[0].and_or.first.commands[0]));
                    if sx == tree { "ok".to_string() } else { "FAIL:typeset-output-reads-back-as-a-different-function".to_string() }
                }
                Ok(_) => "FAIL:typeset-output-is-not-one-function-definition".to_string(),
                Err(e) => format!("FAIL:typeset-output-rejected({})", variant(&e)),
            };
            format!("fn {}", enc_str(&out))
        } else {
            // `[1] + Running              name`
            // the job's own output may come first: find the job table line
            let table = out.find("[1] + ").map(|i| &out[i..]).unwrap_or("");
            let name = table
                .strip_prefix("[1] + ")
                .and_then(|r| r.split_once(' '))
                .map(|(_, r)| r.trim_start_matches(' ').split('\n').next().unwrap_or("").to_string());
            match name {
                None => format!("job-table {}", enc_str(&out)),
                Some(name) => {
                    oracle = match AndOrList::from_str(&name) {
                        Ok(a) => {
                            let (sx, _) = part(|s| {
                                s.out.push_str("(ao ");
                                s.pipeline(&a.first);
                                for (op, p) in &a.rest {
                                    s.out.push_str(match op {
                                        AndOr::AndThen => "(and ",
                                        AndOr::OrElse => "(or ",
                                    });
                                    s.pipeline(p);
                                    s.out.push_str(") ");
                                }
                                s.out.push_str(") ");
                            });
                            if sx == tree { "ok".to_string() } else { "FAIL:job-name-reads-back-as-a-different-command".to_string() }
                        }
                        Err(Some(e)) => format!("FAIL:job-name-rejected({})", variant(&e)),
                        Err(None) => "FAIL:job-name-rejected".to_string(),
                    };
                    format!("job {}", enc_str(&name))
                }
            }
        }
    });
    if obs.starts_with("PANIC") {
        oracle = "FAIL:panic".to_string();
    }
    (obs, oracle)
}

/// generated `F` and `J` cases
fn shell_cases(seed: u64, is_fn: bool) -> Option<(String, String)> {
    let mut g = G::new(seed, if is_fn { 6 } else { 0 }, false);
    if is_fn {
        g.depth = 1;
        let (sx, src) = g.function_def();
        if sx.contains("(h ") {
            return None;
        }
        let name = src.split(['(', ' ']).next().unwrap_or("f").to_string();
        let script = g.resolve(&format!("{src}{NL}typeset -fp {name}{NL}"));
        Some((canon(&sx), script))
    } else {
        g.depth = 3;
        let (sx, src) = g.and_or();
        if sx.contains("(h ") || src.contains('\n') || src.contains(NL) {
            return None;
        }
        let script = g.resolve(&format!("{src} &{NL}jobs{NL}"));
        Some((canon(&sx), script))
    }
}

/// `R` case; returns the `T` case derived from it when the input parses
fn run_raw(r: &mut Runner, src: &str, derive: bool) {
    let case = format!("R {}", enc_str(src));
    let o = r.run(src);
    let obs = if o.obs.starts_with("ok ") || o.obs == "syntax-error" { "total" } else { o.obs.as_str() };
    emit(&case, obs, &o.oracle);
    if derive {
        if let Some(t) = &o.tree {
            if t.len() <= MAX_TREE {
                let case = format!("T {} {}", t, enc_str(src));
                emit(&case, &o.obs, &o.oracle);
            }
        }
    }
}

fn run_tree(r: &mut Runner, tree: &str, src: &str) {
    let case = format!("T {} {}", tree, enc_str(src));
    let o = r.run(src);
    let oracle = match &o.tree {
        None if o.obs == "syntax-error" => "FAIL:source-of-the-tree-rejected".to_string(),
        None => o.oracle.clone(),
        Some(t) if t != tree => "FAIL:parsed-tree-differs-from-case-tree".to_string(),
        Some(_) => o.oracle.clone(),
    };
    emit(&case, &o.obs, &oracle);
}

/// `X <hex text>`: one escape unit read by `EscapeUnit::from_str` (= `Lexer::escape_unit`); the observation
/// is the unit (same notation as in trees), `esc-error` or `esc-none`, and is predicted by the model lexer
fn run_escape_case(case: &str, text: &str) {
    let obs = guarded(|| match EscapeUnit::from_str(text) {
        Ok(u) => {
            let (sx, _) = part(|s| s.escapes(std::slice::from_ref(&u)));
            format!("esc {sx}")
        }
        Err(Some(e)) => {
            exercise_error(&e);
            "esc-error".to_string()
        }
        Err(None) => "esc-none".to_string(),
    });
    let oracle = if obs.starts_with("PANIC") { "FAIL:panic" } else { "-" };
    emit(case, &obs, oracle);
}


// ---------------------------------------------------------------------------------------------
// `L` cases: scripts inside the fragment of the structural model (no command substitutions, arithmetic,
// here-documents, arrays, tildes, aliases) in NON-canonical surface form - newlines instead of `;`, blank and
// comment lines, line continuations, optional `(` in patterns - and token-level mutations of them.  The real
// `Parser::command_line` loop and the model's `parseScript` must agree on every one of them: same number of
// command lines, same printed form of every line, or a syntax error on both sides.

const L_WORDS: &[&str] = &["a", "b1", "echo", "'q x'", "\"d $x\"", "$x", "${y:-z}", "${#v}", "\\;", "-n", "foo", "2", "x", "a\\\nb", "\"\"", "$1", "${z%.*}", "c\\ d", "in", "do"];
const L_REDIRS: &[&str] = &[">f", "2>&1", "<in", ">>o", ">|c", "<>rw", "<&3", "> g", "2> e", "<<<s", ">f", "2>&1", "<in", ">>o", "2147483647>f", "10<&-", ">&2", ">>|p"];
const L_TOKENS: &[&str] = &["if", "then", "elif", "else", "fi", "while", "until", "do", "done", "for", "in", "case", "esac", "{", "}", "!", ";", "&", "|", "&&", "||", "(", ")", ";;", ";&", ";|", ";;&", "\n", ">", "<", "x=1", "a", "function", "[[", "select", "#c", "2>", "1"];

struct LG {
    rng: Rng,
}

impl LG {
    fn word(&mut self) -> String {
        self.rng.pick(L_WORDS).to_string()
    }
    fn simple(&mut self) -> String {
        let mut parts: Vec<String> = vec![];
        if self.rng.chance(1, 5) {
            let bad = if self.rng.chance(1, 4) { *self.rng.pick(&["x= (", "y=(a", "z=(a;b)", "w=(1 <f)", "u=(2>f)", "t=(a)b"]) } else { "x=1" };
            let pool = ["x=1", "a=b c=", "v='1 2'", "n=$x", "r=(1 2)", "e=()", "m=(a\n'b c' $x\n)", "k=( in do )", "p=(a) q=(b c)", "x=1", "a=b c=", "r=(1 2)", "e=()", "v=(\"$@\")", "p=(a) q=(b c)", "x=1", bad];
            parts.push(self.rng.pick(&pool).to_string());
        }
        if self.rng.chance(1, 8) {
            parts.push(self.rng.pick(L_REDIRS).to_string());
        }
        let first = *self.rng.pick(&["a", "echo", "foo", "b1", ":", "x", "./r", "'q'", "$c"]);
        parts.push(first.to_string());
        for _ in 0..self.rng.below(3) {
            let w = self.word();
            parts.push(w);
        }
        if self.rng.chance(1, 4) {
            parts.push(self.rng.pick(L_REDIRS).to_string());
        }
        if self.rng.chance(1, 400) {
            // `FdOutOfRange`: one above `i32::MAX`
            parts.push(self.rng.pick(&["2147483648>f", "2147483648<f", "99999999999>>o"]).to_string());
        }
        parts.join(if self.rng.chance(1, 10) { "  " } else { " " })
    }
    /// a separator inside a compound list (never at the top level: a newline there ends the command line)
    fn sep(&mut self) -> &'static str {
        *self.rng.pick(&["; ", "; ", ";", "\n", " ;\n", "\n\n", "\n# c\n", " \\\n; ", "& ", "&\n"])
    }
    fn end(&mut self) -> &'static str {
        *self.rng.pick(&["; ", "; ", "\n", " ;\n", "\n \n", "& ", " # c\n"])
    }
    fn list(&mut self, depth: u32) -> String {
        let n = 1 + self.rng.below(3);
        let mut out = String::new();
        for i in 0..n {
            if i > 0 {
                out.push_str(self.sep());
            }
            out.push_str(&self.and_or(depth));
        }
        out
    }
    fn and_or(&mut self, depth: u32) -> String {
        let mut out = self.pipeline(depth);
        for _ in 0..self.rng.below(3).saturating_sub(1) {
            out.push_str(*self.rng.pick(&[" && ", " || ", "&&", " ||\n", " &&\n\n "]));
            out.push_str(&self.pipeline(depth));
        }
        out
    }
    fn pipeline(&mut self, depth: u32) -> String {
        let mut out = String::new();
        if self.rng.chance(1, 6) {
            out.push_str("! ");
        }
        out.push_str(&self.command(depth));
        for _ in 0..self.rng.below(3).saturating_sub(1) {
            out.push_str(*self.rng.pick(&[" | ", "|", " |\n", " | \\\n"]));
            out.push_str(&self.command(depth));
        }
        out
    }
    fn command(&mut self, depth: u32) -> String {
        if depth == 0 || self.rng.chance(1, 2) {
            return self.simple();
        }
        let d = depth - 1;
        let body = match self.rng.below(8) {
            0 => format!("{{ {}{}}}", self.list(d), self.end()),
            1 => format!("({})", self.list(d)),
            2 => {
                let mut s = format!("if {}{}then {}{}", self.list(d), self.end(), self.list(d), self.end());
                for _ in 0..self.rng.below(3).saturating_sub(1) {
                    s.push_str(&format!("elif {}{}then {}{}", self.list(d), self.end(), self.list(d), self.end()));
                }
                if self.rng.chance(1, 2) {
                    s.push_str(&format!("else {}{}", self.list(d), self.end()));
                }
                s + "fi"
            }
            3 => format!("{} {}{}do {}{}done", if self.rng.chance(1, 2) { "while" } else { "until" }, self.list(d), self.end(), self.list(d), self.end()),
            4 => {
                let vals = match self.rng.below(4) {
                    0 => "; ".to_string(),
                    1 => " ".to_string(),
                    2 => "\n".to_string(),
                    _ => {
                        let n = self.rng.below(3);
                        let ws: Vec<String> = (0..n).map(|_| self.word()).collect();
                        format!("{}in {}{}", *self.rng.pick(&[" ", "\n", " \n "]), ws.join(" "), *self.rng.pick(&["; ", "\n", " ;\n"]))
                    }
                };
                format!("for {}{}do {}{}done", *self.rng.pick(&["i", "x", "v_1"]), vals, self.list(d), self.end())
            }
            5 => {
                let mut s = format!("case {}{}in{}", self.word(), *self.rng.pick(&[" ", "\n", " \n"]), *self.rng.pick(&[" ", "\n"]));
                let n = self.rng.below(3);
                for i in 0..n {
                    let pats = if self.rng.chance(1, 3) { format!("{}|{}", self.word(), self.word()) } else { self.word() };
                    let open = if self.rng.chance(1, 2) { "(" } else { "" };
                    let body = if self.rng.chance(1, 4) { String::new() } else { format!(" {}", self.list(d)) };
                    let last = i + 1 == n;
                    let term = if last && self.rng.chance(1, 3) { "\n" } else { *self.rng.pick(&[";; ", " ;;\n", ";& ", ";| ", ";;& ", "\n;;\n"]) };
                    s.push_str(&format!("{open}{pats}){body}{term}"));
                }
                s + "esac"
            }
            6 => format!("{}(){}{}", *self.rng.pick(&["f", "g1", "foo"]), *self.rng.pick(&[" ", "", "\n", " \n"]), {
                let inner = self.list(d);
                if self.rng.chance(1, 2) { format!("{{ {}{}}}", inner, self.end()) } else { format!("({inner})") }
            }),
            _ => format!("{{ {}{}}}", self.list(d), self.end()),
        };
        if self.rng.chance(1, 5) {
            format!("{} {}", body, self.rng.pick(L_REDIRS))
        } else {
            body
        }
    }
    fn script(&mut self) -> String {
        let n = 1 + self.rng.below(3);
        let mut out = String::new();
        for _ in 0..n {
            let depth = self.rng.below(4) as u32;
            out.push_str(&self.list(depth));
            out.push_str(*self.rng.pick(&["\n", "\n", ";\n", "&\n", " # x\n", "\n\n", ""]));
        }
        out
    }
    /// token-level mutation that stays inside the alphabet of the fragment
    fn mutate(&mut self, src: &str) -> String {
        let mut toks: Vec<String> = src.split(' ').map(|s| s.to_string()).collect();
        for _ in 0..1 + self.rng.below(2) {
            if toks.is_empty() {
                break;
            }
            let i = self.rng.below(toks.len());
            match self.rng.below(5) {
                0 => {
                    toks.remove(i);
                }
                1 => {
                    let t = toks[i].clone();
                    toks.insert(i, t);
                }
                2 => {
                    let j = self.rng.below(toks.len());
                    toks.swap(i, j);
                }
                3 => {
                    toks.truncate(i);
                }
                _ => {
                    toks.insert(i, self.rng.pick(L_TOKENS).to_string());
                }
            }
        }
        toks.join(" ")
    }
}

/// `L <hex source>`: the `command_line` loop on the source; observation `lines <n> <hex of the printed lists,
/// one per line>` or `syntax-error`
fn run_line_case(case: &str, src: &str) {
    let obs = guarded(|| match parse_lines(src, false) {
        Ok(ls) => {
            let text: Vec<String> = ls.iter().map(|l| l.to_string()).collect();
            format!("lines {} {}", ls.len(), enc_str(&text.join("\n")))
        }
        Err(e) => {
            exercise_error(&e);
            "syntax-error".to_string()
        }
    });
    let oracle = if obs.starts_with("PANIC") { "FAIL:panic" } else { "-" };
    emit(case, &obs, oracle);
}

fn run_case(r: &mut Runner, case: &str) {
    let case = case.trim();
    if let Some(rest) = case.strip_prefix("L ") {
        match dec_str(rest.trim()) {
            Some(src) => run_line_case(case, &src),
            None => emit(case, "bad-case", "-"),
        }
        return;
    }
    if let Some(rest) = case.strip_prefix("X ") {
        match dec_str(rest.trim()) {
            Some(text) => run_escape_case(case, &text),
            None => emit(case, "bad-case", "-"),
        }
    } else if let Some(rest) = case.strip_prefix("R ") {
        match dec_str(rest.trim()) {
            Some(src) => run_raw(r, &src, true),
            None => emit(case, "bad-case", "-"),
        }
    } else if let Some(rest) = case.strip_prefix("T ") {
        match rest.rsplit_once(' ') {
            Some((tree, h)) => match dec_str(h) {
                Some(src) => run_tree(r, tree, &src),
                None => emit(case, "bad-case", "-"),
            },
            None => emit(case, "bad-case", "-"),
        }
    } else if let Some(rest) = case.strip_prefix("G ") {
        // `G <function definition> <script>`: listing variants of `typeset -f` (all functions, a read-only
        // function followed by its attribute command, an unknown name); the first command of the output
        // must read back as the function
        match rest.rsplit_once(' ').and_then(|(t, h)| dec_str(h).map(|s| (t.to_string(), s))) {
            Some((tree, script)) => {
                let mut oracle = "-".to_string();
                let obs = guarded(|| {
                    let o = yverif::shell::run_script(&script);
                    oracle = match List::from_str(&o.stdout_str()) {
                        Ok(l) if !l.0.is_empty() && l.0[0].and_or.first.commands.len() == 1 => {
                            let (sx, _) = part(|s| s.command(&l.0[0].and_or.first.commands[0]));
                            if sx == tree { "ok".to_string() } else { "FAIL:typeset-listing-reads-back-as-a-different-function".to_string() }
                        }
                        // an unknown name makes `typeset` report an error and print nothing
                        Ok(_) if script.contains("no_such_function") => "-".to_string(),
                        Ok(_) => "FAIL:typeset-listing-is-empty".to_string(),
                        Err(e) => format!("FAIL:typeset-listing-rejected({})", variant(&e)),
                    };
                    "total".to_string()
                });
                if obs.starts_with("PANIC") {
                    oracle = "FAIL:panic".to_string();
                }
                emit(case, &obs, &oracle);
            }
            None => emit(case, "bad-case", "-"),
        }
    } else if let Some(rest) = case.strip_prefix("F ").or_else(|| case.strip_prefix("J ")) {
        match rest.rsplit_once(' ').and_then(|(t, h)| dec_str(h).map(|s| (t.to_string(), s))) {
            Some((tree, script)) => {
                let (obs, oracle) = run_shell_case(case.starts_with("F "), &tree, &script);
                emit(case, &obs, &oracle);
            }
            None => emit(case, "bad-case", "-"),
        }
    } else if let Some(rest) = case.strip_prefix("E ").or_else(|| case.strip_prefix("EP ")) {
        // `E <Variant> <hex source>`: the input is rejected with exactly this `SyntaxError` variant
        // (`EP`: in the portable mode)
        let portable = case.starts_with("EP ");
        match rest.split_once(' ').and_then(|(v, h)| dec_str(h.trim()).map(|s| (v.to_string(), s))) {
            Some((v, src)) => {
                let obs = guarded(|| {
                    let one = parse_list(&src, portable);
                    let lines = parse_lines(&src, portable);
                    let name = |r: Option<&Error>| r.map(variant).unwrap_or_else(|| "accepted".to_string());
                    for e in [one.as_ref().err(), lines.as_ref().err()].into_iter().flatten() {
                        exercise_error(e);
                    }
                    let a = name(one.as_ref().err());
                    let b = name(lines.as_ref().err());
                    let subs = if portable { vec![] } else { exercise_from_str(&src) };
                    // one of the entry points (one-shot, line by line, a `FromStr` of a sub-syntax) reports the variant
                    if a == v || b == v || subs.contains(&v) { format!("syntax-error:{v}") } else { format!("syntax-error:{a}/{b}") }
                });
                let oracle = if obs.starts_with("PANIC") { "FAIL:panic" } else { "-" };
                emit(case, &obs, oracle);
            }
            None => emit(case, "bad-case", "-"),
        }
    } else {
        emit(case, "bad-case", "-");
    }
}

// ---------------------------------------------------------------------------------------------
// grammar-driven generator: every function returns (tree S-expression, source text)

type Pair = (String, String);

#[derive(Clone, Copy, PartialEq)]
enum Ctx {
    /// token level: blanks and operator characters delimit
    Token,
    /// inside `${…}` in a word context: only `}` delimits
    Brace,
    /// inside `${…}` inside double quotes (text context): no quotes, `}` delimits
    BraceText,
}

/// unit of a word or text under construction
enum U {
    Lit(char),
    Other(String, String),
}

struct G {
    rng: Rng,
    depth: u32,
    budget: i32,
    bodies: Vec<String>,
    /// surface variation on/off
    vary: bool,
}

const NL: char = '\u{E000}';
const HD_OPEN: char = '\u{E001}';
const HD_CLOSE: char = '\u{E002}';
/// newline ending the word list of `for … in …`: the parser reads no here-document bodies there
const FOR_NL: char = '\u{E003}';
const NAMES: &[&str] = &["a", "x", "foo", "BAR", "_v1", "PATH", "i", "n0"];
const CMDS: &[&str] = &["echo", "cat", ":", "printf", "true", "ls", "f", "test", "[", "cmd-1", "./run", "a.out", "do_it", "if1", "x2"];
const KEYWORDS: &[&str] = &["!", "[[", "]]", "case", "do", "done", "elif", "else", "esac", "fi", "for", "function", "if", "in", "namespace", "select", "then", "until", "while", "{", "}"];
const LIT_TOKEN: &[char] = &['a', 'b', 'z', 'A', 'Q', '0', '1', '7', '9', '_', '-', '.', ',', '/', ':', '+', '@', '%', '^', '=', '[', ']', '*', '?', '!', '~', '#', '{', 'é', 'λ', '日', '😀', '\u{301}'];
const LIT_BRACE_EXTRA: &[char] = &[' ', ';', '&', '|', '<', '>', '(', ')', '\t'];
const LIT_DQ: &[char] = &['a', 'b', 'Z', '0', '5', ' ', '\t', ';', '&', '|', '<', '>', '(', ')', '\'', '{', '}', '#', '~', '*', '=', '-', '\n', 'é', '日'];
const SPECIALS: &[&str] = &["@", "*", "#", "?", "-", "$", "!", "0"];

fn is_name_char(c: char) -> bool {
    c.is_ascii_alphanumeric() || c == '_'
}

impl G {
    fn new(seed: u64, budget: i32, vary: bool) -> G {
        G { rng: Rng::new(seed), depth: 0, budget, bodies: vec![], vary }
    }
    fn ch(&mut self, n: u32, d: u32) -> bool {
        self.rng.chance(n, d)
    }
    fn pick<'a>(&mut self, xs: &[&'a str]) -> &'a str {
        xs[self.rng.below(xs.len())]
    }
    /// mandatory blanks between tokens
    fn sp(&mut self) -> String {
        if !self.vary {
            return " ".into();
        }
        match self.rng.below(12) {
            0 => "  ".into(),
            1 => "\t".into(),
            2 => " \\\n".into(),
            3 => "\\\n ".into(),
            _ => " ".into(),
        }
    }
    /// optional blanks
    fn osp(&mut self) -> String {
        if self.vary && self.ch(1, 3) { self.sp() } else { String::new() }
    }
    /// newline token (placeholder; `resolve` puts the pending here-document bodies after it)
    fn nl(&mut self) -> String {
        let mut s = String::new();
        if self.vary && self.ch(1, 8) {
            s.push_str(" # a comment; with ' and \" and $( and \\");
        }
        s.push(NL);
        if self.vary && self.ch(1, 8) {
            s.push(NL);
        }
        if self.vary && self.ch(1, 12) {
            s.push_str("  # full-line comment");
            s.push(NL);
        }
        s
    }
    /// replaces newline placeholders by newlines followed by the bodies of the here-documents whose
    /// operators precede them
    fn resolve(&self, src: &str) -> String {
        let mut out = String::new();
        let mut queue: Vec<usize> = vec![];
        let mut it = src.chars();
        while let Some(c) = it.next() {
            if c == NL {
                out.push('\n');
                for i in queue.drain(..) {
                    out.push_str(&self.bodies[i]);
                }
            } else if c == FOR_NL {
                if queue.is_empty() {
                    out.push('\n');
                } else {
                    out.push_str(";\n");
                    for i in queue.drain(..) {
                        out.push_str(&self.bodies[i]);
                    }
                }
            } else if c == HD_OPEN {
                let mut n = String::new();
                for d in it.by_ref() {
                    if d == HD_CLOSE {
                        break;
                    }
                    n.push(d);
                }
                queue.push(n.parse().unwrap());
            } else {
                out.push(c);
            }
        }
        if !queue.is_empty() {
            out.push('\n');
            for i in queue.drain(..) {
                out.push_str(&self.bodies[i]);
            }
        }
        out
    }
    /// separator standing for `;` between two items or before a closing keyword
    fn sep(&mut self) -> String {
        if !self.vary {
            return "; ".into();
        }
        match self.rng.below(6) {
            0 | 1 => {
                let a = self.osp();
                let b = self.osp();
                format!("{a};{b}")
            }
            2 => {
                let a = self.osp();
                let n = self.nl();
                let b = self.osp();
                format!("{a};{n}{b}")
            }
            _ => {
                let a = self.osp();
                let n = self.nl();
                let b = self.osp();
                format!("{a}{n}{b}")
            }
        }
    }
    /// optional newlines where the grammar allows a `linebreak`
    fn linebreak(&mut self) -> String {
        if self.vary && self.ch(1, 4) {
            let n = self.nl();
            let b = self.osp();
            format!("{n}{b}")
        } else {
            self.sp()
        }
    }

    // ---- words

    fn finish_units(units: Vec<U>) -> Pair {
        let mut sx = String::new();
        let mut src = String::new();
        let mut run = String::new();
        for u in units {
            match u {
                U::Lit(c) => {
                    run.push(c);
                    src.push(c);
                }
                U::Other(a, b) => {
                    if !run.is_empty() {
                        write!(sx, "(L {}) ", hex(&run)).unwrap();
                        run.clear();
                    }
                    sx.push_str(&a);
                    sx.push(' ');
                    src.push_str(&b);
                }
            }
        }
        if !run.is_empty() {
            write!(sx, "(L {}) ", hex(&run)).unwrap();
        }
        (sx, src)
    }

    fn param_id(&mut self) -> String {
        match self.rng.below(6) {
            0 => self.pick(SPECIALS).to_string(),
            1 => self.pick(&["1", "9", "10", "00", "123"]).to_string(),
            _ => self.pick(NAMES).to_string(),
        }
    }

    /// `$name`, `$1`, `$?` …
    fn raw_param(&mut self) -> (String, String, bool) {
        match self.rng.below(5) {
            0 => {
                let s = self.pick(SPECIALS);
                (format!("(rp {})", hex(s)), format!("${s}"), false)
            }
            1 => {
                let d = self.pick(&["1", "2", "9"]);
                (format!("(rp {})", hex(d)), format!("${d}"), false)
            }
            _ => {
                let n = self.pick(NAMES);
                (format!("(rp {})", hex(n)), format!("${n}"), true)
            }
        }
    }

    fn braced_param(&mut self, text: bool) -> Pair {
        let id = self.param_id();
        let inner = if text { Ctx::BraceText } else { Ctx::Brace };
        match self.rng.below(8) {
            0 | 1 => (format!("(bp {} n)", hex(&id)), format!("${{{id}}}")),
            2 => (format!("(bp {} len)", hex(&id)), format!("${{#{id}}}")),
            3 | 4 | 5 => {
                let colon = self.ch(1, 2);
                let a = *self.rng.pick(&['+', '-', '=', '?']);
                let (wsx, wsrc) = self.word(inner, true);
                // `${#-}` / `${#?}` are the length of `-` / `?`
                if id == "#" && !colon && wsrc.is_empty() && (a == '-' || a == '?') {
                    return (format!("(bp {} n)", hex(&id)), format!("${{{id}}}"));
                }
                (
                    format!("(bp {} (sw {} {} {}))", hex(&id), colon as u8, a, wsx),
                    format!("${{{id}{}{a}{wsrc}}}", if colon { ":" } else { "" }),
                )
            }
            _ => {
                let side = *self.rng.pick(&['#', '%']);
                let long = self.ch(1, 2);
                // the pattern is always lexed in a word context (modifier.rs `trim`)
                let (mut wsx, mut wsrc) = self.word(Ctx::Brace, true);
                if !long && wsrc.starts_with(side) {
                    // `${x%%…}` is the longest-match form: a shortest-match pattern cannot start with the bare symbol
                    (wsx, wsrc) = ("(w)".to_string(), String::new());
                }
                if id == "#" && side == '#' && !long && wsrc.is_empty() {
                    return (format!("(bp {} len)", hex(&id)), format!("${{#{id}}}"));
                }
                (
                    format!("(bp {} (tr {} {} {}))", hex(&id), side, long as u8, wsx),
                    format!("${{{id}{side}{}{wsrc}}}", if long { side.to_string() } else { String::new() }),
                )
            }
        }
    }

    fn command_subst(&mut self) -> Pair {
        if self.depth >= 3 || self.budget <= 0 {
            let s = self.pick(&["echo a", " : ", "f x;", "", "a|b", "echo \\)", "echo ')'", "x=$(y)"]);
            return (format!("(cs {})", hex(s)), format!("$({s})"));
        }
        self.depth += 1;
        let n_items = 1 + self.rng.below(2);
        let (_, src) = self.list_body(n_items, false);
        let mut src = self.resolve(&src);
        if src.starts_with('(') {
            // `$((` would start an arithmetic expansion
            src.insert(0, ' ');
        }
        self.depth -= 1;
        (format!("(cs {})", hex(&src)), format!("$({src})"))
    }

    fn backquote(&mut self, text: bool) -> Pair {
        let mut sx = String::from("(bq ");
        let mut src = String::from("`");
        let mut run = String::new();
        for _ in 0..self.rng.below(6) {
            match self.rng.below(6) {
                0 => {
                    let mut cs = vec!['$', '`', '\\'];
                    if text {
                        cs.push('"');
                    }
                    let c = *self.rng.pick(&cs);
                    if !run.is_empty() {
                        write!(sx, "(L {}) ", hex(&run)).unwrap();
                        run.clear();
                    }
                    write!(sx, "(b {}) ", c as u32).unwrap();
                    src.push('\\');
                    src.push(c);
                }
                1 => {
                    // a backslash that escapes nothing stays literal
                    let c = *self.rng.pick(&['a', ' ', '\'']);
                    run.push('\\');
                    run.push(c);
                    src.push('\\');
                    src.push(c);
                }
                _ => {
                    let c = *self.rng.pick(&['e', 'c', 'h', 'o', ' ', 'x', '1', '$', ';', '|', '\'', '(', '"']);
                    if c == '"' && text {
                        continue;
                    }
                    run.push(c);
                    src.push(c);
                }
            }
        }
        if !run.is_empty() {
            write!(sx, "(L {}) ", hex(&run)).unwrap();
        }
        sx.push(')');
        src.push('`');
        (sx, src)
    }

    fn arith(&mut self) -> Pair {
        let mut units = vec![];
        let mut open = 0;
        for _ in 0..self.rng.below(7) {
            match self.rng.below(8) {
                0 => {
                    let (a, b, name) = self.raw_param();
                    units.push(U::Other(a, b));
                    if name {
                        units.push(U::Lit('+'));
                    }
                }
                1 => {
                    let (a, b) = self.braced_param(true);
                    units.push(U::Other(a, b));
                }
                2 => {
                    units.push(U::Lit('('));
                    open += 1;
                }
                3 if open > 0 => {
                    units.push(U::Lit(')'));
                    open -= 1;
                }
                _ => units.push(U::Lit(*self.rng.pick(&['1', '2', 'x', '+', '*', ' ', '<', '?', ':', '-']))),
            }
        }
        for _ in 0..open {
            units.push(U::Lit(')'));
        }
        let (sx, src) = Self::finish_units(units);
        (format!("(ar {sx})"), format!("$(({src}))"))
    }

    fn escaped_string(&mut self) -> Pair {
        let mut sx = String::from("(dsq ");
        let mut src = String::from("$'");
        let mut run = String::new();
        let n = self.rng.below(5);
        let mut i = 0;
        while i < n {
            i += 1;
            let k = self.rng.below(12);
            if k < 3 {
                let c = *self.rng.pick(&['a', 'Z', '0', '7', 'f', ' ', '"', '$', '`', '\n', 'é', '😀', '}', ')']);
                run.push(c);
                src.push(c);
                continue;
            }
            let (a, b): (String, String) = match k {
                3 => {
                    let t = [("dq", "\\\""), ("sq", "\\'"), ("bs", "\\\\"), ("qm", "\\?"), ("a", "\\a"), ("b", "\\b"), ("e", "\\e"), ("e", "\\E"), ("f", "\\f"), ("n", "\\n"), ("r", "\\r"), ("t", "\\t"), ("v", "\\v")];
                    let (a, b) = t[self.rng.below(t.len())];
                    (a.to_string(), b.to_string())
                }
                4 | 5 => {
                    // \cX for X in 0x3F..0x60, lower-case letters accepted, `\c\\` doubled
                    let x = 0x3F + self.rng.below(0x21) as u8;
                    let v = x ^ 0x40;
                    if x == b'\\' {
                        (format!("(c {v})"), "\\c\\\\".to_string())
                    } else {
                        let mut c = x as char;
                        if self.vary && c.is_ascii_uppercase() && self.ch(1, 3) {
                            c = c.to_ascii_lowercase();
                        }
                        (format!("(c {v})"), format!("\\c{c}"))
                    }
                }
                6 | 7 => {
                    let v = self.rng.below(256);
                    let digits = if self.vary { 1 + self.rng.below(3) } else { 3 };
                    let s = match digits {
                        1 if v < 8 => format!("\\{v:o}"),
                        2 if v < 64 => format!("\\{v:02o}"),
                        _ => format!("\\{v:03o}"),
                    };
                    // fewer than three digits must not be followed by an octal digit
                    if !run.is_empty() {
                        write!(sx, "(L {}) ", hex(&run)).unwrap();
                        run.clear();
                    }
                    write!(sx, "(o {v}) ").unwrap();
                    src.push_str(&s);
                    if s.len() < 4 {
                        run.push('-');
                        src.push('-');
                    }
                    continue;
                }
                8 | 9 => {
                    let v = self.rng.below(256);
                    let upper = self.ch(1, 2);
                    let s = if self.vary && v < 16 && self.ch(1, 2) {
                        // one digit, then something that is not a hex digit
                        if !run.is_empty() {
                            write!(sx, "(L {}) ", hex(&run)).unwrap();
                            run.clear();
                        }
                        write!(sx, "(x {v}) ").unwrap();
                        src.push_str(&if upper { format!("\\x{v:X}") } else { format!("\\x{v:x}") });
                        run.push('g');
                        src.push('g');
                        continue;
                    } else if upper {
                        format!("\\x{v:02X}")
                    } else {
                        format!("\\x{v:02x}")
                    };
                    (format!("(x {v})"), s)
                }
                _ => {
                    let v = *self.rng.pick(&[0u32, 0x41, 0xe9, 0x3bb, 0xffff, 0xd7ff, 0xe000, 0x10000, 0x1f600, 0x10ffff, 0x7f, 0x27]);
                    let long = v > 0xffff || self.ch(1, 3);
                    let s = if long {
                        if self.ch(1, 2) { format!("\\U{v:08X}") } else { format!("\\U{v:08x}") }
                    } else if self.ch(1, 2) {
                        format!("\\u{v:04x}")
                    } else {
                        format!("\\u{v:04X}")
                    };
                    (format!("(u {v})"), s)
                }
            };
            if !run.is_empty() {
                write!(sx, "(L {}) ", hex(&run)).unwrap();
                run.clear();
            }
            sx.push_str(&a);
            sx.push(' ');
            src.push_str(&b);
        }
        if !run.is_empty() {
            write!(sx, "(L {}) ", hex(&run)).unwrap();
        }
        sx.push(')');
        src.push('\'');
        (sx, src)
    }

    /// units valid both unquoted and inside double quotes
    fn dollar_or_backquote(&mut self, text: bool, units: &mut Vec<U>) -> bool {
        match self.rng.below(10) {
            0 | 1 | 2 => {
                let (a, b, name) = self.raw_param();
                units.push(U::Other(a, b));
                return name;
            }
            3 | 4 | 5 => {
                let (a, b) = self.braced_param(text);
                units.push(U::Other(a, b));
            }
            6 | 7 => {
                let (a, b) = self.command_subst();
                units.push(U::Other(a, b));
            }
            8 => {
                let (a, b) = self.backquote(text);
                units.push(U::Other(a, b));
            }
            _ => {
                let (a, b) = self.arith();
                units.push(U::Other(a, b));
            }
        }
        false
    }

    fn double_quote(&mut self) -> Pair {
        let mut units = vec![];
        let mut after_name = false;
        for _ in 0..self.rng.below(5) {
            match self.rng.below(8) {
                0 | 1 => {
                    after_name = self.dollar_or_backquote(true, &mut units);
                    continue;
                }
                2 => {
                    let c = *self.rng.pick(&['$', '`', '"', '\\']);
                    units.push(U::Other(format!("(b {})", c as u32), format!("\\{c}")));
                }
                3 => {
                    // a backslash before anything else is literal
                    units.push(U::Lit('\\'));
                    units.push(U::Lit(*self.rng.pick(&['a', ' ', '\'', '}'])));
                }
                _ => {
                    let c = *self.rng.pick(LIT_DQ);
                    if after_name && is_name_char(c) {
                        continue;
                    }
                    units.push(U::Lit(c));
                }
            }
            after_name = false;
        }
        let (sx, src) = Self::finish_units(units);
        (format!("(dq {sx})"), format!("\"{src}\""))
    }

    /// a word; `allow_empty` for `${x-}`
    fn word(&mut self, ctx: Ctx, allow_empty: bool) -> Pair {
        let mut units: Vec<U> = vec![];
        let n = if allow_empty { self.rng.below(4) } else { 1 + self.rng.below(4) };
        let mut after_name = false;
        let mut k = 0;
        while k < n || (units.is_empty() && !allow_empty) {
            k += 1;
            if k > 20 {
                units.push(U::Lit('w'));
                break;
            }
            let simple = self.depth >= 3 || self.budget <= 0;
            match self.rng.below(if simple { 6 } else { 12 }) {
                0..=4 => {
                    let c = if ctx != Ctx::Token && self.ch(1, 4) { *self.rng.pick(LIT_BRACE_EXTRA) } else { *self.rng.pick(LIT_TOKEN) };
                    if after_name && is_name_char(c) {
                        continue;
                    }
                    // characters that would change the token class at the start of a token
                    if units.is_empty() && (c == '#' || c == '~') && ctx != Ctx::BraceText {
                        continue;
                    }
                    if ctx == Ctx::Token && c == '=' {
                        continue; // assignments are generated on purpose elsewhere
                    }
                    if ctx == Ctx::Token && (c == '{' || c == '!' || c == '[' || c == ']') && units.is_empty() && n == 1 {
                        continue; // lone keyword
                    }
                    units.push(U::Lit(c));
                }
                5 => {
                    let c = *self.rng.pick(&[' ', '$', '"', '\'', '\\', ';', 'a', '}', '#', '~', '|', '<', '*', '=', '\t', 'é', '{']);
                    if ctx == Ctx::BraceText && !matches!(c, '$' | '"' | '`' | '\\' | '}') {
                        // inside double quotes only `$`, `"`, `` ` ``, `\` and the delimiter are escapable
                        units.push(U::Lit('\\'));
                        units.push(U::Lit(c));
                        if c == '"' || c == '\'' {
                            units.pop();
                            units.pop();
                        }
                    } else {
                        units.push(U::Other(format!("(b {})", c as u32), format!("\\{c}")));
                    }
                }
                6 if ctx != Ctx::BraceText => {
                    let s = self.pick(&["", "a b", "$x", "\\", "\"", "}", "a\nb", "# ;", "é", "*?["]);
                    units.push(U::Other(format!("(sq {})", hex(s)), format!("'{s}'")));
                }
                7 if ctx != Ctx::BraceText => {
                    let (a, b) = self.double_quote();
                    units.push(U::Other(a, b));
                }
                8 if ctx != Ctx::BraceText => {
                    let (a, b) = self.escaped_string();
                    units.push(U::Other(a, b));
                }
                _ => {
                    after_name = self.dollar_or_backquote(ctx == Ctx::BraceText, &mut units);
                    continue;
                }
            }
            after_name = false;
        }
        // a word made of digits only would be an IO number before `<`/`>`; a lone keyword is avoided
        let (sx, src) = Self::finish_units(units);
        if ctx == Ctx::Token && KEYWORDS.contains(&src.as_str()) {
            return (format!("(w (L {}) (sq -))", hex(&src)), format!("{src}''"));
        }
        (format!("(w {sx})"), src)
    }

    /// `~`, `~name`, `~/x`, `~name/x`
    fn tilde_word(&mut self) -> Pair {
        let name = self.pick(&["", "root", "u1"]);
        if self.ch(1, 2) {
            let rest = self.pick(&["", "bin", ".rc/x"]);
            (format!("(w (t {} 1) (L {}))", hex(name), hex(&format!("/{rest}"))), format!("~{name}/{rest}"))
        } else {
            (format!("(w (t {} 0))", hex(name)), format!("~{name}"))
        }
    }

    fn literal_word(s: &str) -> Pair {
        (format!("(w (L {}))", hex(s)), s.to_string())
    }

    /// an argument word
    fn arg(&mut self) -> Pair {
        match self.rng.below(10) {
            0 => self.tilde_word(),
            1 => {
                let s = self.pick(&["-n", "--", "a", "1", "22", "file.txt", "*.c", "[a-z]", "}", "{}", "a=b", "]", "-"]);
                if s == "}" {
                    return Self::literal_word("}x");
                }
                Self::literal_word(s)
            }
            _ => self.word(Ctx::Token, false),
        }
    }

    // ---- redirections

    fn redir(&mut self) -> Pair {
        let fd = if self.ch(1, 3) { Some(self.pick(&["0", "1", "2", "9", "10", "007"]).to_string()) } else { None };
        let fdsx = match &fd {
            Some(f) => f.parse::<u32>().unwrap().to_string(),
            None => "-".to_string(),
        };
        let fdsrc = fd.unwrap_or_default();
        if self.ch(1, 4) {
            // here-document
            let rt = self.ch(1, 2);
            let (dsx, dsrc, dplain) = match self.rng.below(9) {
                0 => ("(w (L 454f46))".to_string(), "EOF".to_string(), "EOF".to_string()),
                1 => ("(w (sq 454f46))".to_string(), "'EOF'".to_string(), "EOF".to_string()),
                2 => ("(w (L 45) (dq (L 4f)) (L 46))".to_string(), "E\"O\"F".to_string(), "EOF".to_string()),
                3 => ("(w (b 105) (L 31))".to_string(), "\\i1".to_string(), "i1".to_string()),
                4 => ("(w (L 2d454e44))".to_string(), "-END".to_string(), "-END".to_string()),
                5 => ("(w (L 2d))".to_string(), "-".to_string(), "-".to_string()),
                6 => ("(w (dsq (L 45) b (L 46)))".to_string(), "$'E\\bF'".to_string(), "E\u{8}F".to_string()),
                7 => ("(w (dsq (L 45) v (L 46) (x 33) (o 52) (u 233) (c 1)))".to_string(), "$'E\\vF\\x21\\064\\u00e9\\cA'".to_string(), "E\u{b}F!4é\u{1}".to_string()),
                _ => ("(w (dsq a e f r t qm dq sq bs))".to_string(), "$'\\a\\e\\f\\r\\t\\?\\\"\\'\\\\'".to_string(), "\u{7}\u{1b}\u{c}\r\t?\"'\\".to_string()),
            };
            let op = if rt { "<<-" } else { "<<" };
            let gap = if dsrc.starts_with('-') { self.sp() } else { self.osp() };
            let mut body = String::new();
            for _ in 0..self.rng.below(3) {
                body.push_str(self.pick(&["text\n", "\tindented $x\n", "a 'b' \"c\" \\x\n", "EOF2\n", " \n"]));
            }
            if rt && self.ch(1, 2) {
                body.push('\t');
            }
            body.push_str(&dplain);
            body.push('\n');
            self.bodies.push(body);
            let id = self.bodies.len() - 1;
            return (format!("(h {fdsx} {} {dsx})", rt as u8), format!("{fdsrc}{op}{gap}{dsrc}{HD_OPEN}{id}{HD_CLOSE}"));
        }
        let op = self.pick(&["<", "<>", ">", ">>", ">|", "<&", ">&", ">>|", "<<<"]);
        let (wsx, wsrc) = match self.rng.below(5) {
            0 if op == "<&" || op == ">&" => Self::literal_word(self.pick(&["-", "1", "2"])),
            1 => Self::literal_word(self.pick(&["f", "/dev/null", "out.log", "3"])),
            _ => self.word(Ctx::Token, false),
        };
        let gap = self.osp();
        (format!("(r {fdsx} {op} {wsx})"), format!("{fdsrc}{op}{gap}{wsrc}"))
    }

    fn redirs(&mut self, max: usize) -> Vec<Pair> {
        let n = if self.ch(1, 2) { 0 } else { 1 + self.rng.below(max) };
        (0..n).map(|_| self.redir()).collect()
    }

    // ---- simple commands

    fn assign(&mut self) -> Pair {
        let name = self.pick(NAMES);
        match self.rng.below(6) {
            0 => (format!("(as {} (w))", hex(name)), format!("{name}=")),
            1 => {
                // array
                let n = self.rng.below(3);
                let mut sx = format!("(aa {}", hex(name));
                let mut src = format!("{name}=(");
                for i in 0..n {
                    let (a, b) = self.arg();
                    // a newline inside an array literal is not a point where here-document bodies are read
                    let s = if i == 0 { self.osp() } else if self.vary && self.ch(1, 4) { "\n".to_string() } else { self.sp() };
                    write!(sx, " {a}").unwrap();
                    src.push_str(&s);
                    src.push_str(&b);
                }
                sx.push(')');
                src.push_str(&self.osp());
                src.push(')');
                (sx, src)
            }
            2 => {
                // tildes after the `=` and after each colon
                let (sx, src) = match self.rng.below(3) {
                    0 => ("(w (t - 0))".to_string(), "~".to_string()),
                    1 => ("(w (t 61 0) (L 3a) (t - 1) (L 2f62))".to_string(), "~a:~/b".to_string()),
                    _ => ("(w (L 783a) (t 7531 0) (L 3a))".to_string(), "x:~u1:".to_string()),
                };
                (format!("(as {} {sx})", hex(name)), format!("{name}={src}"))
            }
            _ => {
                let (mut a, mut b) = self.word(Ctx::Token, false);
                for _ in 0..5 {
                    if !b.contains('~') {
                        break;
                    }
                    (a, b) = self.word(Ctx::Token, false);
                }
                if b.contains('~') {
                    (a, b) = Self::literal_word("v");
                }
                // a value that starts with `(`-less text only; `~` first would be a tilde expansion
                (format!("(as {} {a})", hex(name)), format!("{name}={b}"))
            }
        }
    }

    fn simple_command(&mut self) -> Pair {
        self.budget -= 1;
        let mut assigns: Vec<Pair> = vec![];
        let mut words: Vec<Pair> = vec![];
        let mut redirs: Vec<Pair> = self.redirs(2);
        if self.ch(1, 4) {
            for _ in 0..1 + self.rng.below(2) {
                assigns.push(self.assign());
            }
        }
        let mut decl = false;
        if !(self.ch(1, 8) && (!assigns.is_empty() || !redirs.is_empty())) {
            // command name
            let kw_ok = !assigns.is_empty() || !redirs.is_empty();
            if kw_ok && self.ch(1, 4) {
                words.push(Self::literal_word(self.pick(KEYWORDS)));
            } else if self.ch(1, 10) {
                words.push(Self::literal_word(self.pick(&["export", "readonly"])));
                decl = true;
            } else if self.ch(1, 12) {
                words.push(Self::literal_word("command"));
                if self.ch(1, 2) {
                    words.push(Self::literal_word("export"));
                    decl = true;
                }
            } else if self.ch(1, 2) {
                words.push(Self::literal_word(self.pick(CMDS)));
            } else {
                let w = self.word(Ctx::Token, false);
                // a first word that ends up a plain name followed by nothing could be taken for `name ( )`
                words.push(w);
            }
            for _ in 0..self.rng.below(4) {
                if decl && self.ch(1, 2) {
                    let (a, b) = self.assign();
                    if let Some(rest) = a.strip_prefix("(as ") {
                        // as a word of a declaration utility: `name=value` with single expansion mode
                        let (nm, val) = rest.split_once(' ').unwrap();
                        let val = val.strip_suffix(')').unwrap();
                        let name = dec_str(nm).unwrap();
                        let inner = val.strip_prefix("(w").unwrap().strip_suffix(')').unwrap().trim();
                        let first_lit = inner.strip_prefix("(L ");
                        let sx = match first_lit {
                            Some(r) => {
                                let (h, tail) = r.split_once(')').unwrap();
                                let h = if h == "-" { "" } else { h };
                                format!("(single (w (L {}{}){}))", hex(&format!("{name}=")), h, tail)
                            }
                            None => format!("(single (w (L {}) {}))", hex(&format!("{name}=")), inner),
                        };
                        words.push((sx, b));
                        continue;
                    }
                }
                let w = self.arg();
                if decl && w.1 == "a=b" {
                    words.push((format!("(single {})", w.0), w.1));
                } else {
                    words.push(w);
                }
            }
        }
        if assigns.is_empty() && words.is_empty() && redirs.is_empty() {
            redirs.push(self.redir());
        }
        // tree
        let mut sx = String::from("(sc (");
        sx.push_str(&assigns.iter().map(|p| p.0.clone()).collect::<Vec<_>>().join(" "));
        sx.push_str(") (");
        sx.push_str(&words.iter().map(|p| p.0.clone()).collect::<Vec<_>>().join(" "));
        sx.push_str(") (");
        sx.push_str(&redirs.iter().map(|p| p.0.clone()).collect::<Vec<_>>().join(" "));
        sx.push_str("))");
        // source: redirections interleaved anywhere, assignments before words
        let first_is_kw = words.first().map(|w| KEYWORDS.contains(&w.1.as_str())).unwrap_or(false);
        let mut toks: Vec<String> = vec![];
        let mut others: Vec<String> = assigns.iter().chain(words.iter()).map(|p| p.1.clone()).collect();
        let mut rs: Vec<String> = redirs.iter().map(|p| p.1.clone()).collect();
        others.reverse();
        rs.reverse();
        let need_front = assigns.is_empty() && first_is_kw;
        if need_front || (self.vary && !rs.is_empty() && self.ch(1, 3)) {
            toks.push(rs.pop().unwrap());
        }
        while !others.is_empty() || !rs.is_empty() {
            let take_r = !rs.is_empty() && (others.is_empty() || (self.vary && self.ch(1, 3)));
            if take_r {
                toks.push(rs.pop().unwrap());
            } else {
                toks.push(others.pop().unwrap());
            }
        }
        let mut src = String::new();
        for (i, t) in toks.iter().enumerate() {
            if i > 0 {
                src.push_str(&self.sp());
            }
            src.push_str(t);
        }
        (sx, src)
    }

    // ---- compound commands

    /// items of a list; returns tree and source; `closed` = every item must be terminated (before a keyword)
    fn list_body(&mut self, n: usize, closed: bool) -> Pair {
        let mut sx = String::from("(ls");
        let mut src = String::new();
        for i in 0..n.max(1) {
            let (a, b) = self.and_or();
            let is_async = self.ch(1, 6);
            write!(sx, " (it {} {a})", is_async as u8).unwrap();
            src.push_str(&b);
            let last = i + 1 == n.max(1);
            if is_async {
                src.push_str(&self.osp());
                src.push('&');
                if !last || closed {
                    let s = if self.ch(1, 2) { self.linebreak() } else { self.sp() };
                    src.push_str(&s);
                }
            } else if !last || closed {
                src.push_str(&self.sep());
            } else if self.vary && self.ch(1, 4) {
                src.push_str(&self.sep());
            }
        }
        sx.push(')');
        (sx, src)
    }

    fn and_or(&mut self) -> Pair {
        let (a, b) = self.pipeline();
        let mut sx = format!("(ao {a}");
        let mut src = b;
        while self.ch(1, 5) && self.budget > 0 {
            let and = self.ch(1, 2);
            let (a, b) = self.pipeline();
            write!(sx, " ({} {a})", if and { "and" } else { "or" }).unwrap();
            src.push_str(&self.osp());
            src.push_str(if and { "&&" } else { "||" });
            src.push_str(&if self.ch(1, 4) { self.linebreak() } else { self.osp() });
            src.push_str(&b);
        }
        sx.push(')');
        (sx, src)
    }

    fn pipeline(&mut self) -> Pair {
        let neg = self.ch(1, 8);
        let mut sx = format!("(pl {}", neg as u8);
        let mut src = String::new();
        if neg {
            src.push('!');
            src.push_str(&self.sp());
        }
        let mut first = true;
        loop {
            let (a, b) = self.command();
            write!(sx, " {a}").unwrap();
            if !first {
                src.push_str(&self.osp());
                src.push('|');
                src.push_str(&if self.ch(1, 5) { self.linebreak() } else { self.osp() });
            }
            src.push_str(&b);
            first = false;
            if !(self.ch(1, 5) && self.budget > 0) {
                break;
            }
        }
        sx.push(')');
        (sx, src)
    }

    fn command(&mut self) -> Pair {
        if self.depth >= 4 || self.budget <= 0 || self.ch(3, 5) {
            return self.simple_command();
        }
        self.depth += 1;
        self.budget -= 1;
        let r = if self.ch(1, 8) { self.function_def() } else { self.full_compound() };
        self.depth -= 1;
        r
    }

    fn function_def(&mut self) -> Pair {
        let name = self.pick(&["f", "foo", "do_it", "a.b", "x-1"]);
        let a = self.osp();
        let b = self.osp();
        let c = self.linebreak();
        let c = if c.trim().is_empty() && !c.contains(NL) { self.osp() } else { c };
        let (bsx, bsrc) = self.full_compound_parts();
        (format!("(fn 0 (w (L {})) {bsx})", hex(name)), format!("{name}{a}({b}){c}{bsrc}"))
    }

    fn full_compound(&mut self) -> Pair {
        let (a, b) = self.full_compound_parts();
        (format!("(cc {a})"), b)
    }

    fn full_compound_parts(&mut self) -> Pair {
        let (csx, mut src) = self.compound();
        let rs = self.redirs(2);
        let mut sx = csx;
        for (a, b) in rs {
            write!(sx, " {a}").unwrap();
            let gap = if b.starts_with(|c: char| c.is_ascii_digit()) { self.sp() } else { self.osp() };
            src.push_str(&gap);
            src.push_str(&b);
        }
        (sx, src)
    }

    fn compound(&mut self) -> Pair {
        let n = 1 + self.rng.below(2);
        match self.rng.below(8) {
            0 => {
                let s1 = self.linebreak();
                let (a, b) = self.list_body(n, true);
                (format!("(grp {a})"), format!("{{{s1}{b}}}"))
            }
            1 => {
                let s1 = if self.ch(1, 4) { self.linebreak() } else { self.osp() };
                let (a, b) = self.list_body(n, false);
                let s2 = if self.ch(1, 4) { self.linebreak() } else { self.osp() };
                (format!("(sub {a})"), format!("({s1}{b}{s2})"))
            }
            2 => {
                let name = self.pick(NAMES);
                let nsx = format!("(w (L {}))", hex(name));
                let mut src = format!("for{}{name}", self.sp());
                let vsx;
                if self.ch(2, 3) {
                    src.push_str(&self.linebreak());
                    src.push_str("in");
                    let mut v = String::from("(in");
                    for _ in 0..self.rng.below(4) {
                        let (a, b) = self.arg();
                        write!(v, " {a}").unwrap();
                        src.push_str(&self.sp());
                        src.push_str(&b);
                    }
                    v.push(')');
                    vsx = v;
                    let t = match self.rng.below(3) {
                        0 if self.vary => format!("{}{FOR_NL}{}", self.osp(), self.osp()),
                        1 => format!("{};{}", self.osp(), self.linebreak()),
                        _ => format!("{};{}", self.osp(), self.osp()),
                    };
                    src.push_str(&t);
                } else {
                    vsx = "-".to_string();
                    // `for x do`, `for x; do`, `for x <newline> do`
                    let s = match self.rng.below(3) {
                        0 => self.sp(),
                        1 => format!("{};{}", self.osp(), self.linebreak()),
                        _ => format!("{}{}", self.nl(), self.osp()),
                    };
                    src.push_str(&s);
                }
                let (bsx, bsrc) = self.do_clause(n);
                src.push_str(&bsrc);
                (format!("(for {nsx} {vsx} {bsx})"), src)
            }
            3 | 4 => {
                let kw = if self.ch(1, 2) { "while" } else { "until" };
                let s1 = self.linebreak();
                let (csx, csrc) = self.list_body(1, true);
                let (bsx, bsrc) = self.do_clause(n);
                (format!("({kw} {csx} {bsx})"), format!("{kw}{s1}{csrc}{bsrc}"))
            }
            5 | 6 => {
                let s1 = self.linebreak();
                let (csx, csrc) = self.list_body(1, true);
                let s2 = self.linebreak();
                let (bsx, bsrc) = self.list_body(n, true);
                let mut src = format!("if{s1}{csrc}then{s2}{bsrc}");
                let mut elifs = String::from("(");
                for _ in 0..self.rng.below(3) {
                    let s1 = self.linebreak();
                    let (csx, csrc) = self.list_body(1, true);
                    let s2 = self.linebreak();
                    let (bsx, bsrc) = self.list_body(1, true);
                    write!(elifs, "(elif {csx} {bsx}) ").unwrap();
                    write!(src, "elif{s1}{csrc}then{s2}{bsrc}").unwrap();
                }
                elifs.push(')');
                let esx = if self.ch(1, 2) {
                    let s1 = self.linebreak();
                    let (esx, esrc) = self.list_body(1, true);
                    write!(src, "else{s1}{esrc}").unwrap();
                    esx
                } else {
                    "-".to_string()
                };
                src.push_str("fi");
                (format!("(if {csx} {bsx} {elifs} {esx})"), src)
            }
            _ => {
                let (ssx, ssrc) = self.arg();
                let mut src = format!("case{}{ssrc}{}in{}", self.sp(), self.linebreak(), self.linebreak());
                let mut sx = format!("(case {ssx}");
                let items = self.rng.below(4);
                for i in 0..items {
                    let open = self.ch(1, 2);
                    let mut pats = String::new();
                    if open {
                        src.push('(');
                        src.push_str(&self.osp());
                    }
                    for j in 0..1 + self.rng.below(3) {
                        let (a, b) = if self.ch(1, 3) {
                            Self::literal_word(self.pick(&["*", "a*", "[ab]", "x", "1", "in", "if", "done"]))
                        } else {
                            self.word(Ctx::Token, false)
                        };
                        if j > 0 {
                            src.push_str(&self.osp());
                            src.push('|');
                            src.push_str(&self.osp());
                        }
                        if !open && j == 0 && b == "esac" {
                            src.push('\\');
                        }
                        write!(pats, "{a} ").unwrap();
                        src.push_str(&b);
                    }
                    src.push_str(&self.osp());
                    src.push(')');
                    src.push_str(&self.linebreak());
                    let last = i + 1 == items;
                    let (k, op) = match self.rng.below(6) {
                        0 => ("f", ";&"),
                        1 => ("c", ";|"),
                        2 => ("c", ";;&"),
                        3 if last => ("b", ""),
                        _ => ("b", ";;"),
                    };
                    // without a terminator the body must be closed before `esac`
                    let (bsx, bsrc) = if self.ch(1, 5) { ("(ls)".to_string(), String::new()) } else { self.list_body(1, op.is_empty()) };
                    src.push_str(&bsrc);
                    // `;;;` would be read as `;;` `;`
                    let gap = if bsrc.trim_end().ends_with(';') && !bsrc.ends_with(' ') { " ".to_string() } else { self.osp() };
                    src.push_str(&gap);
                    src.push_str(op);
                    src.push_str(&self.linebreak());
                    write!(sx, " (ci ({}) {bsx} {k})", pats.trim_end()).unwrap();
                }
                src.push_str("esac");
                sx.push(')');
                (sx, src)
            }
        }
    }

    fn do_clause(&mut self, n: usize) -> Pair {
        let s1 = self.linebreak();
        let (bsx, bsrc) = self.list_body(n, true);
        (bsx, format!("do{s1}{bsrc}done"))
    }

    fn script(&mut self, items: usize) -> Pair {
        let (sx, mut src) = self.list_body(items, false);
        if self.vary && self.ch(1, 3) {
            let n = self.nl();
            src.push_str(&n);
        }
        let src = self.resolve(&src);
        (sx, src)
    }
}

// ---------------------------------------------------------------------------------------------
// mutations, corpus, soup

fn mutate(rng: &mut Rng, src: &str) -> String {
    let mut cs: Vec<char> = src.chars().collect();
    for _ in 0..1 + rng.below(3) {
        if cs.is_empty() {
            break;
        }
        let i = rng.below(cs.len());
        match rng.below(8) {
            0 => {
                cs.remove(i);
            }
            1 => {
                let j = (i + 1 + rng.below(8)).min(cs.len());
                cs.drain(i..j);
            }
            2 => {
                let j = rng.below(cs.len());
                cs.swap(i, j);
            }
            3 | 4 => {
                let c = *rng.pick(&['\'', '"', '`', '{', '}', '(', ')', '$', '\\', '\n', ';', '&', '|', '<', '>', '#', ' ']);
                cs.insert(i, c);
            }
            5 => {
                let s = *rng.pick(&["$(", "${", "$((", "<<", "<<-", "$'", "\\\n", ";;", "esac", "fi", "done", "}", "do", "then", "in", "!", "((", "))", "${#", "\\c", "\\x", "\\u", "$'\\", ">&", "<(", ">|"]);
                for (k, c) in s.chars().enumerate() {
                    cs.insert(i + k, c);
                }
            }
            6 => {
                cs.truncate(i);
            }
            _ => {
                let j = (i + 1 + rng.below(12)).min(cs.len());
                let seg: Vec<char> = cs[i..j].to_vec();
                for (k, c) in seg.into_iter().enumerate() {
                    cs.insert(j + k, c);
                }
            }
        }
    }
    cs.into_iter().collect()
}


// ---------------------------------------------------------------------------------------------
// character-class boundaries: non-ASCII look-alikes of every ASCII class the lexer tests
// (digit, name character, blank / newline, operator, quote) right after each trigger, in every
// quoting context

/// Unicode decimal digits and other numerics (`char::is_numeric`, not `is_ascii_digit`)
const U_DIGITS: &[char] = &['５', '０', '９', '٣', '٠', '९', '²', '³', '½', '¼', 'Ⅷ', '①', '〇', '\u{1D7D7}', '৪', '៣'];
/// letters outside ASCII (`is_alphabetic` / `is_alphanumeric`, not a portable name character)
const U_LETTERS: &[char] = &['é', 'λ', '日', 'ß', 'ǅ', 'ª', 'Ω', 'а', 'ｘ', 'Ａ', 'İ', '＿'];
/// white space outside ASCII and invisible characters
const U_BLANKS: &[char] = &['\u{a0}', '\u{3000}', '\u{2028}', '\u{2029}', '\u{85}', '\u{1680}', '\u{2003}', '\u{202f}', '\u{205f}', '\u{200b}', '\u{feff}', '\u{b}', '\u{c}', '\r'];
/// full-width and typographic look-alikes of operators, quotes and expansion characters
const U_OPS: &[char] = &['；', '＆', '｜', '（', '）', '＜', '＞', '＄', '｛', '｝', '＃', '～', '＝', '‘', '’', '“', '”', '＼', '｀', '－', '！', '＊', '？', '＠'];

const TRIGGERS: &[&str] = &[
    "99999999999>", "2147483648<", "case x in esac) ", "case x in (esac) ", "{x}>", "function ", "!(", "a: ", "((", "f: () ",
    "$", "${", "${#", "${x", "${x:-", "${x:", "${x#", "${x%%", "${1", "$((", "$(( 1+", "$(", "$1", "$x", "<<", "<<-", "<<<", "2", "10", "2>", ">", ">>", "<&", ">&", ">|", "#", "~", "~a", "=", "a=",
    "a", "\\", "$'", "$'\\u", "$'\\x", "$'\\c", "$'\\", "$'\\0", "`", "!", "! ", "{", "{ ", "}", "(", "for ", "case ", "function ", "f", "in ", ";;", "|", "&&", "&", ";", "-", ":", "'", "\"", "",
];

const TAILS: &[&str] = &["", "", "}", "))", ")", "'", "\"", "`", " x", "x", "1", "<f", ">f", "\n", " in x) ;; esac", "() { :; }", "; do :; done", "=1", " ", "}}", "-x}", "#"];

/// quoting / syntactic contexts; `@` is replaced by the probe text
const CONTEXTS: &[&str] = &[
    "@", "echo @", "echo a@", "\"@\"", "\"a@b\"", "cat <<EOF\n@\nEOF\n", "cat <<-EOF\n\t@\n\tEOF\n", "cat <<'EOF'\n@\nEOF\n", "$((@))", "echo $(( 1 + @ ))", "${x:-@}", "\"${x:-@}\"",
    "${x#@}", "$(@)", "\"$(echo @)\"", "`@`", "case @ in @) ;; esac", "case x in (@) echo @;; esac", "for @ in a; do :; done", "for i in @; do :; done", "@() { :; }", "@=1", "x=@", "x=(@)",
    "export a=@", ">@", "@>f", "@<f", "echo @>f", "echo a #@", "'@'", "$'@'", "[ @ ]", "! @", "{ @; }", "(@)", "if @; then @; fi", "a | @", "a && @", "@ &", "a;@",
];

fn probe(trigger: &str, chars: &[char], tail: &str, ctx: &str) -> String {
    let mut p = String::from(trigger);
    p.extend(chars.iter());
    p.push_str(tail);
    ctx.replace('@', &p)
}

fn all_unicode() -> Vec<char> {
    U_DIGITS.iter().chain(U_LETTERS).chain(U_BLANKS).chain(U_OPS).copied().collect()
}

/// random probe: one to three look-alike characters (sometimes mixed with ASCII) after a trigger
fn random_probe(rng: &mut Rng) -> String {
    let all = all_unicode();
    let mut chars = vec![];
    for _ in 0..1 + rng.below(3) {
        if rng.chance(1, 5) {
            chars.push(*rng.pick(&['a', '1', '0', '_', ' ', '-', '}', '{', '$', '\\', '\n']));
        } else {
            chars.push(all[rng.below(all.len())]);
        }
    }
    let t = TRIGGERS[rng.below(TRIGGERS.len())];
    let tail = TAILS[rng.below(TAILS.len())];
    let ctx = CONTEXTS[rng.below(CONTEXTS.len())];
    let s = probe(t, &chars, tail, ctx);
    if rng.chance(1, 4) {
        // nest once more
        let ctx2 = CONTEXTS[rng.below(CONTEXTS.len())];
        ctx2.replace('@', &s)
    } else {
        s
    }
}


// ---------------------------------------------------------------------------------------------
// the dollar-single-quote escape family: every escape kind with boundary values, 1-8 digits, both
// hex cases, alone (`X` cases, model-compared) and nested in words / commands / here-documents (`R`)

const U_VALUES: &[u32] = &[
    0, 1, 0x7F, 0x80, 0xFF, 0x100, 0xD7FF, 0xD800, 0xD801, 0xDBFF, 0xDC00, 0xDFFE, 0xDFFF, 0xE000, 0xFFFD, 0xFFFE, 0xFFFF,
    0x10000, 0x1F600, 0x10FFFF, 0x110000, 0x7FFFFFFF, 0x80000000, 0xFFFFFFFF, 0x27, 0x5C, 0x0A, 0x41,
];

fn escape_texts(thorough: bool) -> Vec<String> {
    let mut v: Vec<String> = vec![];
    for &val in U_VALUES {
        for upper in [false, true] {
            let hex = |w: usize| if upper { format!("{val:0w$X}") } else { format!("{val:0w$x}") };
            // `\U`: up to eight digits are consumed; `\u`: up to four; `\x`: up to two
            for w in 1..=8 {
                if w == 8 || u64::from(val) < (1u64 << (4 * w)) {
                    v.push(format!("\\U{}", hex(w)));
                    if w <= 4 {
                        v.push(format!("\\u{}", hex(w)));
                    }
                    if w <= 2 {
                        v.push(format!("\\x{}", hex(w)));
                    }
                }
            }
            // more digits than the escape takes: the rest is literal text
            v.push(format!("\\u{}", hex(6)));
            v.push(format!("\\x{}", hex(3)));
            v.push(format!("\\U{}0", hex(8)));
        }
    }
    for n in [0u32, 1, 7, 8, 0o77, 0o100, 0o177, 0o200, 0o377, 0o400, 0o777] {
        v.push(format!("\\{n:o}"));
        v.push(format!("\\{n:03o}"));
        v.push(format!("\\{n:o}8"));
        v.push(format!("\\{n:04o}"));
    }
    for c in 0x20u8..0x7F {
        v.push(format!("\\c{}", c as char));
        if thorough || c % 3 == 0 {
            v.push(format!("\\{}", c as char));
        }
    }
    for s in ["\\c\\\\", "\\c\\", "\\c", "\\", "\\x", "\\u", "\\U", "\\xg", "\\ug", "\\Ug", "\\cé", "\\é", "\\\n", "\\c\n", "a", "é", "'", "", "\\8", "\\9", "\\E", "\\e"] {
        v.push(s.to_string());
    }
    v
}

/// contexts in which a `$'…'` string can occur; `@` is the escape text
const ESC_CONTEXTS: &[&str] = &[
    "$'@'", "echo $'@'", "echo a$'x@y'b", "echo \"$'@'\"", "x=$'@'", "$'@'=1", "cat <<$'E@F'\nbody\nEOF\n", "cat <<EOF\n$'@'\nEOF\n",
    "echo $(echo $'@')", "echo `echo $'@'`", "echo ${x:-$'@'}", "echo \"${x:-$'@'}\"", "echo ${x#$'@'}", "echo $(( $'@' ))",
    "case $'@' in ($'@') ;; esac", "for i in $'@'; do :; done", "$'@'() { :; }", ">$'@'", "echo $'@' $'@'", "echo $'@",
];

const SOUP: &[&str] = &[
    "$'\\U0000D800'", "$'\\Udfff'", "$'\\ud800'", "$'\\U00110000'", "$'\\UFFFFFFFF'", "\\U", "\\u", "D800", "dfff",
    "99999999999>", "2147483648<", "2147483647>", "esac)", "(esac)", "case x in esac", "{a}>", "{}<", "function f", "[[ a ]]", "select x", "namespace n", "!(", "a:", "export", "a=(", "x=~", ":~",
    "５", "٣", "²", "½", "Ⅷ", "ｘ", "＜", "＞", "＄", "｛", "；", "\u{2029}", "\u{1680}", "$５", "${５", "$((５", "2５>", "$é", "${é}", "é=1",
    " ", " ", "\n", "\t", ";", "&", "|", "(", ")", "<", ">", "{", "}", "$", "`", "\\", "'", "\"", "#", "~", "=", "!", "-", "*", "?", "[", "]", ":", "+", "%", "@", "0", "1", "2", "7", "a", "b", "c", "x", "u", "U", "n", "e", "E", "if", "then", "fi", "for", "in", "do", "done", "case", "esac", "while", "until", "elif", "else", "function", "[[", "]]", "select", "namespace", "$(", "${", "$((", "))", "$'", "<<", "<<-", "<<<", ">>", ">|", ">>|", "<&", ">&", "<>", "<(", ">(", ";;", ";&", ";|", ";;&", "&&", "||", "()", "\\\n", "\\c", "\\x", "\\u", "\\U", "\\0", "\\777", "EOF", "\u{a0}", "\u{2028}", "\u{3000}", "\u{85}", "\0", "\u{7f}", "\u{1b}", "é", "日", "😀", "\u{301}", "\u{feff}", "\u{10ffff}", "\r",
];

fn soup(rng: &mut Rng) -> String {
    let long = rng.chance(1, 4);
    let n = 1 + rng.below(if long { 40 } else { 12 });
    let mut s = String::new();
    for _ in 0..n {
        if rng.chance(1, 12) {
            // arbitrary scalar value / byte
            let v = if rng.chance(1, 2) { rng.below(256) as u32 } else { rng.below(0x11_0000) as u32 };
            if let Some(c) = char::from_u32(v) {
                s.push(c);
            }
        } else {
            s.push_str(SOUP[rng.below(SOUP.len())]);
        }
    }
    s
}

fn byte_soup(rng: &mut Rng) -> String {
    let n = 1 + rng.below(24);
    let bytes: Vec<u8> = (0..n)
        .map(|_| if rng.chance(1, 2) { *rng.pick(b" \n;&|()<>{}$`\\'\"#~=!-*?[]") } else { rng.below(256) as u8 })
        .collect();
    String::from_utf8_lossy(&bytes).into_owned()
}

fn nesting(rng: &mut Rng, thorough: bool) -> String {
    let d = 1 + rng.below(if thorough { 400 } else { 120 });
    let (o, c) = *rng.pick(&[("(", ")"), ("{ ", "; }"), ("$(", ")"), ("${x-", "}"), ("\"$(", ")\""), ("if ", "; then :; fi"), ("`", "`"), ("$((", "))"), ("a() ", ""), ("! ", ""), ("x | ", ""), ("while ", "; do :; done"), ("case x in (x) ", " ;; esac")]);
    let mut s = String::new();
    for _ in 0..d {
        s.push_str(o);
    }
    s.push_str(if rng.chance(1, 5) { "" } else { ":" });
    let closers = if rng.chance(1, 4) { rng.below(d + 1) } else { d };
    for _ in 0..closers {
        s.push_str(c);
    }
    s
}

fn corpus_sources() -> Vec<String> {
    let mut files: Vec<_> = std::fs::read_dir("/repo/yash-cli/tests/scripted_test")
        .map(|rd| rd.filter_map(|e| e.ok()).map(|e| e.path()).collect())
        .unwrap_or_default();
    files.sort();
    let mut out = vec![];
    for f in files {
        if f.extension().map(|e| e == "sh").unwrap_or(false) {
            if let Ok(bytes) = std::fs::read(&f) {
                out.push(String::from_utf8_lossy(&bytes).into_owned());
            }
        }
    }
    out
}

// ---------------------------------------------------------------------------------------------

fn main() {
    quiet_panics();
    let o = Opts::from_args();
    let mut r = Runner { w: spawn_worker(), budget: Duration::from_secs(if o.thorough() { 10 } else { 5 }) };
    if o.extra.first().map(|s| s.as_str()) == Some("--show") {
        let (fixed, _) = o.fixed_cases();
        for c in fixed {
            if let Some((head, h)) = c.rsplit_once(' ') {
                let src = dec_str(h).unwrap_or_default();
                println!("--- source\n{src}");
                if let Some(t) = head.strip_prefix("T ") {
                    println!("--- case tree\n{t}");
                }
                let o = evaluate(&src);
                println!("--- parsed tree\n{}\n--- obs {} oracle {}", o.tree.unwrap_or_default(), o.obs, o.oracle);
                if let Some(p) = o.obs.strip_prefix("ok ") {
                    println!("--- printed\n{}", dec_str(p).unwrap_or_default());
                }
            }
        }
        return;
    }
    if o.extra.first().map(|s| s.as_str()) == Some("--parse") {
        let mut src = String::new();
        std::io::Read::read_to_string(&mut std::io::stdin(), &mut src).unwrap();
        match List::from_str(&src) {
            Ok(l) => println!("OK: {l}\n{}", sx_of(&l).0),
            Err(e) => println!("ERR: {:?} at {:?}", e.cause, e.location.range),
        }
        return;
    }
    // a variant the parser never produces still has message arms
    #[allow(deprecated)]
    let _ = guarded(|| {
        exercise_error(&Error { cause: yash_syntax::parser::SyntaxError::EsacAsPattern.into(), location: yash_syntax::source::Location::dummy("") });
        String::new()
    });
    let (fixed, only) = o.fixed_cases();
    for c in &fixed {
        run_case(&mut r, c);
    }
    if only {
        return;
    }
    let mut idx: usize = 0;
    let mine = |idx: &mut usize| {
        let k = *idx;
        *idx += 1;
        k % o.shard.1 == o.shard.0
    };

    // 1. grammar-driven programs (tree known in advance) and mutations of them
    let n_gen = if o.thorough() { 160_000 } else { 2_000 };
    let mut rng = Rng::new(o.seed ^ 0xC06);
    for k in 0..n_gen {
        let s = rng.next();
        let m = rng.next();
        if !mine(&mut idx) {
            continue;
        }
        let budget = 2 + (k % 9) as i32;
        let mut g = G::new(s, budget, k % 5 != 0);
        let n_items = 1 + g.rng.below(3);
        let (sx, src) = g.script(n_items);
        run_tree(&mut r, &canon(&sx), &src);
        if k % 2 == 0 {
            let mut mr = Rng::new(m);
            let mutated = mutate(&mut mr, &src);
            run_raw(&mut r, &mutated, true);
        }
    }

    // 2. the scripted-test corpus of /repo
    let corpus = corpus_sources();
    let mut crng = Rng::new(o.seed ^ 0xC06C);
    for text in &corpus {
        if mine(&mut idx) {
            run_raw(&mut r, text, false);
        }
        // embedded scripts: the lines between a `test_…` header and `__IN__`
        let lines: Vec<&str> = text.lines().collect();
        let mut cur: Vec<&str> = vec![];
        let mut in_script = false;
        let mut scripts: Vec<String> = vec![];
        for l in &lines {
            if l.starts_with("test_") {
                in_script = true;
                cur.clear();
            } else if l.starts_with("__IN__") {
                if in_script && !cur.is_empty() {
                    scripts.push(cur.join("\n") + "\n");
                }
                in_script = false;
            } else if in_script {
                cur.push(l);
            }
        }
        let stride = if o.thorough() { 1 } else { 4 };
        for (i, s) in scripts.iter().enumerate() {
            let pickme = i % stride == (crng.below(stride));
            if pickme && mine(&mut idx) {
                run_raw(&mut r, s, true);
            }
        }
        // line windows
        let lstride = if o.thorough() { 1 } else { 12 };
        for i in 0..lines.len() {
            let w = 1 + crng.below(3);
            let take = crng.below(lstride) == 0;
            if !take || !mine(&mut idx) {
                continue;
            }
            let chunk = lines[i..(i + w).min(lines.len())].join("\n");
            if chunk.trim().is_empty() {
                continue;
            }
            run_raw(&mut r, &chunk, true);
        }
    }

    // 3. soup
    let n_soup = if o.thorough() { 120_000 } else { 2_000 };
    let mut srng = Rng::new(o.seed ^ 0x50C06);
    for k in 0..n_soup {
        let s = match k % 10 {
            0 => byte_soup(&mut srng),
            1 if k % 50 == 1 => nesting(&mut srng, o.thorough()),
            _ => soup(&mut srng),
        };
        if mine(&mut idx) {
            run_raw(&mut r, &s, true);
        }
    }

    // 4. character-class boundaries: every trigger x representative look-alike x context (quick: one
    //    character per class and an empty tail; thorough: every character), then random probes
    let reps: Vec<char> = if o.thorough() { all_unicode() } else { vec!['５', '²', 'é', 'ｘ', '\u{a0}', '\u{2028}', '＜', '＄'] };
    for t in TRIGGERS {
        for c in &reps {
            for (ci, ctx) in CONTEXTS.iter().enumerate() {
                // quick: every (trigger, context) pair with half of the representative characters
                if !o.thorough() && (ci + (*c as usize)) % 2 != 0 {
                    continue;
                }
                if !mine(&mut idx) {
                    continue;
                }
                let tail = if o.thorough() { TAILS[(ci + (*c as usize)) % TAILS.len()] } else { "" };
                let s = probe(t, &[*c], tail, ctx);
                run_raw(&mut r, &s, true);
            }
        }
    }
    let n_probe = if o.thorough() { 120_000 } else { 1_500 };
    let mut prng = Rng::new(o.seed ^ 0xC06_0C1A55);
    for _ in 0..n_probe {
        let s = random_probe(&mut prng);
        if mine(&mut idx) {
            run_raw(&mut r, &s, true);
        }
    }
    // 6. the escape family: every escape text alone (model-compared) and in every `$'…'` context
    let texts = escape_texts(o.thorough());
    for t in &texts {
        // `EscapeUnit::from_str` runs with line continuations enabled, `$'…'` does not: a backslash-newline
        // is only meaningful inside the quotes (covered by the contexts below)
        if t.contains("\\\n") {
            continue;
        }
        if mine(&mut idx) {
            let case = format!("X {}", enc_str(t));
            run_escape_case(&case, t);
        }
    }
    for (ti, t) in texts.iter().enumerate() {
        for (ci, ctx) in ESC_CONTEXTS.iter().enumerate() {
            // quick: every text in a rotating third of the contexts; thorough: all
            if !o.thorough() && (ti + ci) % 3 != 0 {
                continue;
            }
            if mine(&mut idx) {
                run_raw(&mut r, &ctx.replace('@', t), true);
            }
        }
    }
    // 7. command lines: scripts of the structural model's fragment in free surface form, and mutations
    let n_lines = if o.thorough() { 60_000 } else { 300 };
    let mut lrng = Rng::new(o.seed ^ 0x11E5_C06);
    for k in 0..n_lines {
        let s = lrng.next();
        if !mine(&mut idx) {
            continue;
        }
        let mut g = LG { rng: Rng::new(s) };
        let mut src = g.script();
        if k % 5 >= 3 {
            src = g.mutate(&src);
        }
        let case = format!("L {}", enc_str(&src));
        run_line_case(&case, &src);
    }
    // 8. totality on long and deeply nested inputs (deterministic): nesting 200 (thorough: 600) of every opener that
    //    recurses in the parser - closed, unclosed and half closed - here-documents inside command substitutions inside
    //    here-documents, and long flat inputs (a 40 kB word, 3000 words, 2000 pipeline elements, 2000 list items,
    //    2000 redirections, 500 elif branches, 500 case items); the oracle is "no panic, within the time budget"
    {
        let d = if o.thorough() { 600 } else { 200 };
        let openers: &[(&str, &str)] = &[("(", ")"), ("{ ", "; }"), ("$(", ")"), ("${x-", "}"), ("\"$(", ")\""), ("if ", "; then :; fi"), ("`", "`"), ("$((", "))"), ("a() ", ""), ("! ", ""), ("x | ", ""), ("while ", "; do :; done"), ("until ", "; do :; done"), ("for i in $(", "); do :; done"), ("case x in (x) ", " ;; esac"), ("x && ", ""), ("\"${y:-", "}\""), ("${z#", "}"), ("a=(", ")"), ("if :; then :; elif ", "; then :; fi")];
        let mut inputs: Vec<String> = vec![];
        for (op, cl) in openers {
            for closers in [d, d / 2, 0] {
                let mut s = op.repeat(d);
                s.push(':');
                s.push_str(&cl.repeat(closers));
                inputs.push(s);
            }
        }
        // here-documents nested through command substitutions
        let hd = d.min(200);
        let mut s = String::new();
        for i in 0..hd {
            s.push_str(&format!("cat <<E{i}\n$(\n"));
        }
        s.push_str(":\n");
        for i in (0..hd).rev() {
            s.push_str(&format!(")\nE{i}\n"));
        }
        inputs.push(s.clone());
        inputs.push(s[..s.len() / 2].to_string());
        inputs.push(format!("{}\n", (0..hd).map(|i| format!("<<E{i}")).collect::<Vec<_>>().join(" ")) + &(0..hd).map(|i| format!("x\nE{i}\n")).collect::<String>());
        // long flat inputs
        inputs.push("a".repeat(40_000));
        inputs.push("w ".repeat(3_000));
        inputs.push("x | ".repeat(2_000) + "x");
        inputs.push("x; ".repeat(2_000));
        inputs.push("x& ".repeat(2_000));
        inputs.push("x ".to_string() + &">f ".repeat(2_000));
        inputs.push("if :; then :; ".to_string() + &"elif :; then :; ".repeat(500) + "fi");
        inputs.push("case x in ".to_string() + &"(a|b) :;; ".repeat(500) + "esac");
        inputs.push("\\\n".repeat(5_000) + "x");
        inputs.push("'".to_string() + &"q".repeat(40_000));
        for s in &inputs {
            if mine(&mut idx) {
                run_raw(&mut r, s, false);
            }
        }
    }
    // 9. function names whose LAST unit decides the separator before `()`: an unquoted `$` (or a tilde name ending in `$`)
    //    after every kind of unit - nothing, literals, single / double / dollar-single quotes, a backslash escape, raw and
    //    braced parameters, a backquote and a command substitution, an arithmetic expansion, a tilde prefix - and the same
    //    names NOT ending in `$`; each in several places of a program.  The printed definition must read back as the same
    //    function (a name directly followed by `(` after `$` would be a command substitution).
    {
        let prefixes: &[&str] = &["", "a", "f_1", "'f'", "'f'x", "\"a\"", "\"a b\"x", "$'x'", "$'\\n'y", "\\a", "\\$", "a\\ ", "$x", "$1", "$?", "${x}", "${y:-z}", "`c`", "$(c)", "$((1))", "~", "~a", "~a/b", "~/", "a\"$\"", "'$'", "\"$x\"", "a$b", "$$", "x'y'\"z\"\\w"];
        let ends: &[&str] = &["$", "$", "", "x"];
        let bodies: &[&str] = &["{ :; }", "(:)", "{ echo; } >f", "if a; then b; fi"];
        let places: &[&str] = &["@", "{ @; }", "a; @", "(@)", "if :; then @; fi", "x=1 || @", "@\n@"];
        let mut k = 0usize;
        for (pi, pre) in prefixes.iter().enumerate() {
            for (ei, end) in ends.iter().enumerate() {
                let name = format!("{pre}{end}");
                if name.is_empty() {
                    continue;
                }
                for (bi, body) in bodies.iter().enumerate() {
                    for (li, place) in places.iter().enumerate() {
                        // quick: a rotating third of (body, place); thorough: all
                        if !o.thorough() && (pi + ei + bi + li) % 3 != 0 {
                            continue;
                        }
                        k += 1;
                        if !mine(&mut idx) {
                            continue;
                        }
                        let sep = [" ", "\t", " \\\n"][k % 3];
                        let def = format!("{name}{sep}() {body}");
                        run_raw(&mut r, &place.replace('@', &def), true);
                    }
                }
            }
        }
    }
    // 5. what the shell shows to the user: `typeset -fp` and the job table
    let n_shell = if o.thorough() { 4_000 } else { 300 };
    let mut hrng = Rng::new(o.seed ^ 0xF0B5);
    for k in 0..n_shell {
        let seed = hrng.next();
        if !mine(&mut idx) {
            continue;
        }
        let is_fn = k % 2 == 0;
        if let Some((tree, script)) = shell_cases(seed, is_fn) {
            let case = format!("{} {} {}", if is_fn { "F" } else { "J" }, tree, enc_str(&script));
            let (obs, oracle) = run_shell_case(is_fn, &tree, &script);
            emit(&case, &obs, &oracle);
            if is_fn && k % 4 == 0 {
                // the same definition through the other listing paths of `typeset`
                if let Some((def, name)) = script.rsplit_once("\ntypeset -fp ").map(|(d, n)| (d.to_string(), n.trim().to_string())) {
                    for tail in [
                        "typeset -fp\n".to_string(),
                        format!("typeset -fr {name}\ntypeset -fp {name}\n"),
                        format!("typeset -fp {name} no_such_function\n"),
                        format!("typeset -fp +r {name}\ntypeset -fp -r {name}\n"),
                    ] {
                        let g = format!("G {} {}", tree, enc_str(&format!("{def}\n{tail}")));
                        run_case(&mut r, &g);
                    }
                }
            }
        }
    }
    if o.extra.iter().any(|a| a == "--errors") {
        for ((portable, v), src) in VARIANTS.lock().unwrap().iter() {
            eprintln!("{} {} {}", if *portable { "EP" } else { "E" }, v, enc_str(src));
        }
    }
}
