//! C08 — nothing done in a subshell leaks into the parent shell.
//!
//! Case line (`;`-separated, each item tagged with its phase; grammar mirrored by
//! /verif/lean/YashModel/Fork/Main.lean):
//!
//! ```text
//! [F:1;] [T:1;] [I:1;] [G:<SIG>;] [Q:1;] P:<op>; …; K:<kind>[; K:<kind>[; K:<kind>]]; [M:<op>; …] [N:<op>; …] C:<op>; …; [W:<op>; …]
//! ```
//!
//! * `P:` ops run in the parent before the subshell, `C:` ops inside the innermost subshell, `M:` / `N:` ops in
//!   the level-1 / level-2 subshell before it starts the next one, `W:` ops in the parent between `&` and
//!   `wait` (only when the outermost kind is `async`).
//! * `K:` = `paren | subst | pipeF | pipeM | pipeL | async`, one to three (nesting depth 1-3, outer first).
//! * `F:1` renders the whole program inside a function body (same prediction, other context stack).
//! * `T:1` `/dev/tty` exists (job control then opens it and calls `tcsetpgrp`); `I:1` the internal dispositions
//!   of an interactive job-control shell are installed before the script; `G:SIG` the shell inherits SIG
//!   ignored; `Q:1` snapshot `B0` omits the `trap` listing (the trap set keeps its vacant entries).
//! * ops: `set N V`, `unset N`, `export N V`, `readonly N V`, `fn F B`, `unfn F`, `alias A V`,
//!   `unalias A`, `opt+ O`, `opt- O`, `shift`, `args X…`, `cd D`, `umask M`, `trap S d|i|cN`,
//!   `fdw N F`, `fdr N`, `fdd N M`, `fdc N`, `local N V`, `raise S`, `bg` (a background job that never
//!   finishes), `exit N` (innermost subshell only).
//!
//! `O` ranges over every option the `set` built-in can toggle except `exec` (17 options, `monitor`, `errexit`,
//! `allexport`, `portable` … included; rendered in the POSIX spelling, e.g. `set +o noglob`). With `monitor` on
//! the outermost subshell is job-controlled, with `errexit` a failing command ends the shell, with `allexport`
//! assignments export — the Lean model follows all three.
//!
//! The script takes a full snapshot of the shell state with real built-ins (`typeset -gp`, `typeset -fp`,
//! `alias`, `set +o`, `umask`, `trap`, `probe "$@"`, `jobs -l`, `"${!-}"`) plus `sysprobe` (cwd, umask, fd table
//! and signal dispositions of the *current virtual process*) at EVERY level: `B<j>` in the shell of level j
//! (0 = the parent) before it starts the next subshell, `A<j>` after it, `C<j+1>` in the started subshell right
//! after entry, `D<d>` at the end of the innermost one.
//! Observation = these snapshots (tracked names, canonical, sorted) in output order together with the
//! events (`T<n>` = trap command ran, `L` = function-local value, `st`/`sub` = `$?`), then the state of the
//! parent process read from the virtual system after the run, the exit status of the shell, then whether the
//! *untracked* remainder of every snapshot equals that of `B0`.
//!
//! Oracle (independent of the Lean model), level by level: `A<j> == B<j>` on the complete snapshot text and the
//! same job numbers (level 0 with `W:` ops: `A0` equals the `A0` of a control run whose child body is empty);
//! `C<j+1> == B<j>` — `$!` and the listed jobs included — except for the documented differences (command
//! traps and internal dispositions reset, ignored stays ignored, `INT`/`QUIT` ignored and stdin = /dev/null in
//! a non-job-controlled asynchronous list, stop signals kept ignored in a non-job-controlled subshell of a
//! job-control shell, pipe ends of pipelines / command substitutions); no trap command set by the parent runs
//! in a subshell; the parent process state after the run equals `A0`. A missing snapshot is accepted only when
//! `errexit` can have ended that shell.
//!
//! Second case family, `X:<pid> <call>; …` (see "`X:` cases" below): a schedule of raw system calls of several
//! processes on ONE real `SystemState`, each process driven through its own `VirtualSystem` handle in the order
//! the case says; the whole process table is printed after every step (model: Fork/Shared.lean).

use std::cell::RefCell;
use std::collections::BTreeMap;
use std::rc::Rc;
use yash_env::builtin::{Builtin, Type};
use yash_env::io::Fd;
use yash_env::semantics::{ExitStatus, Field};
use yash_env::signal::Number;
use yash_env::system::concurrency::WriteAll as _;
use yash_env::job::Pid;
use yash_env::system::r#virtual::{
    FileBody, Inode, SIGINT, SIGKILL, SIGQUIT, SIGTERM, SIGTSTP, SIGTTIN, SIGTTOU, SIGURG, SIGUSR1, SystemState,
    VirtualSystem,
};
use yash_env::system::{Disposition, FdFlag, GetPid as _, Mode, SendSignal as _, Umask as _};
use yverif::proto::{Opts, dec_bytes, emit, enc_str, guarded, quiet_panics};
use yverif::rng::Rng;
use yverif::shell::{self, BuiltinFuture, VEnv};

// ------------------------------------------------------------------------------------------------
// vocabulary

const VARS: [&str; 3] = ["va", "vb", "vc"];
const VALS: [&str; 4] = ["1", "two", "x3", "w4"];
const FUNS: [&str; 2] = ["F1", "F2"];
const BODIES: [&str; 2] = ["b1", "b2"];
const ALIASES: [&str; 2] = ["A1", "A2"];
/// every option the `set` built-in can toggle, except `exec` (after `set -n` nothing runs any more, so there
/// is nothing to observe); `cmdline`, `interactive`, `stdin` are not modifiable by `set`
const OPTS: [&str; 17] = [
    "allexport", "clobber", "errexit", "glob", "hashondefinition", "ignoreeof", "log", "login", "monitor",
    "notify", "pipefail", "portable", "posixlycorrect", "unset", "verbose", "vi", "xtrace",
];
/// option names without a POSIX spelling: `set` refuses them while `portable` is on
const NONPORTABLE_OPTS: [&str; 3] = ["hashondefinition", "login", "posixlycorrect"];

/// `set` arguments that switch option `o` on / off, in the spelling the `portable` option accepts
/// (`Option::portable_long_name`: `noclobber`, `noglob`, `nolog`, `nounset` are the negated POSIX names)
fn opt_command(o: &str, on: bool) -> String {
    let (name, inverted) = match o {
        "clobber" => ("noclobber", true),
        "glob" => ("noglob", true),
        "log" => ("nolog", true),
        "unset" => ("nounset", true),
        x => (x, false),
    };
    format!("set {}o {}", if on != inverted { "-" } else { "+" }, name)
}
const DIRS: [&str; 3] = ["/d1", "/d2", "/d1/s"];
const MASKS: [&str; 3] = ["022", "027", "077"];
/// conditions whose trap / disposition the snapshots show (sorted by name)
const SIGS: [(&str, Option<Number>); 9] = [
    ("EXIT", None),
    ("INT", Some(SIGINT)),
    ("QUIT", Some(SIGQUIT)),
    ("TERM", Some(SIGTERM)),
    ("TSTP", Some(SIGTSTP)),
    ("TTIN", Some(SIGTTIN)),
    ("TTOU", Some(SIGTTOU)),
    ("URG", Some(SIGURG)),
    ("USR1", Some(SIGUSR1)),
];
/// conditions the `trap` / `raise` ops range over (TSTP is only watched: raising it would stop the process)
const OP_SIGS: [&str; 6] = ["EXIT", "INT", "QUIT", "TERM", "URG", "USR1"];
const FILES: [&str; 2] = ["f1", "f2"];
/// fd 20 is there to sit above a lowered RLIMIT_NOFILE
// 10 = `MIN_INTERNAL_FD`: where a job-control shell keeps its terminal (CLOEXEC) and where the redirection engine saves
// a target; as the TARGET of `N>&M` it is not accepted (the `bg` rendering could not close a copy of a pipe end there)
const FDS: [&str; 5] = ["3", "4", "5", "20", "10"];
// 4: only ever drawn for the innermost child (nothing of the sweep's own machinery needs a new descriptor there): with
// descriptors 0-3 in use `open` itself answers EMFILE, and the saving `dup(.., 10, ..)` of the redirection engine too
const LIMITS: [&str; 4] = ["16", "18", "unlimited", "4"];
const KINDS: [&str; 6] = ["paren", "subst", "pipeF", "pipeM", "pipeL", "async"];
const TRACKED_VARS: [&str; 5] = ["va", "vb", "vc", "PWD", "OLDPWD"];
const TRACKED_FUNS: [&str; 3] = ["F1", "F2", "lf"];

fn is_in(x: &str, xs: &[&str]) -> bool {
    xs.contains(&x)
}

fn sig_number(name: &str) -> Option<Number> {
    if name == "KILL" {
        return Some(SIGKILL);
    }
    SIGS.iter().find(|s| s.0 == name).and_then(|s| s.1)
}

// ------------------------------------------------------------------------------------------------
// case parsing and rendering

#[derive(Clone, Debug, Default)]
struct Case {
    in_fn: bool,
    /// `T:1` a controlling terminal exists
    tty: bool,
    /// `I:1` the internal dispositions of an interactive job-control shell are installed
    internal: bool,
    /// `G:SIG` a signal inherited as ignored
    ignored: Option<String>,
    /// `Q:1` snapshot `B0` does not run `trap` (so the trap set keeps its vacant entries)
    quiet: bool,
    pro: Vec<Vec<String>>,
    kinds: Vec<String>,
    /// `M:` / `N:` mutators of the level-1 / level-2 subshell before it starts the next one
    mid: [Vec<Vec<String>>; 2],
    child: Vec<Vec<String>>,
    during: Vec<Vec<String>>,
    /// `A:` mutators of the FIRST member of the innermost pipeline (kind `pipeL`: `{ A-ops } | : | { child }`): a second
    /// process that lives, and changes its own state, at the same time as the child; its output goes nowhere
    first: Vec<Vec<String>>,
}

impl Case {
    fn all_ops(&self) -> impl Iterator<Item = &Vec<String>> {
        self.pro.iter().chain(self.during.iter()).chain(self.mid[0].iter()).chain(self.mid[1].iter()).chain(self.child.iter())
    }
    fn setup(&self) -> Setup {
        Setup { tty: self.tty, internal: self.internal, ignored: self.ignored.clone() }
    }
}

fn parse_case(text: &str) -> Option<Case> {
    let mut c = Case::default();
    for item in text.split(';').map(|s| s.trim()).filter(|s| !s.is_empty()) {
        let (tag, rest) = item.split_once(':')?;
        let toks: Vec<String> = rest.split_whitespace().map(|s| s.to_string()).collect();
        match tag {
            "F" | "T" | "I" | "Q" => {
                if toks != ["1"] {
                    return None;
                }
                match tag {
                    "F" => c.in_fn = true,
                    "T" => c.tty = true,
                    "I" => c.internal = true,
                    _ => c.quiet = true,
                }
            }
            "G" => {
                if toks.len() != 1 || !OP_SIGS.contains(&toks[0].as_str()) || toks[0] == "EXIT" {
                    return None;
                }
                c.ignored = Some(toks[0].clone())
            }
            "K" => {
                if toks.len() != 1 || !is_in(&toks[0], &KINDS) {
                    return None;
                }
                c.kinds.push(toks[0].clone())
            }
            "P" | "C" | "W" | "M" | "N" | "A" => {
                render_op(&toks)?;
                // `bg` is not for W: it would change `$!`, which the parent is about to `wait` for
                let noisy = toks[0] == "raise" || toks[0] == "local" || (tag == "W" && toks[0] == "bg");
                let exits = toks[0] == "exit";
                if toks[0] == "yield" && !(tag == "W" || tag == "A" || tag == "C") {
                    return None;
                }
                if tag == "A" {
                    // silent mutators that cannot fail, and scheduling points
                    let ok = is_in(&toks[0], &["set", "export", "fn", "alias", "umask", "cd", "yield"])
                        || (toks[0] == "trap" && toks[1] != "EXIT")
                        || (toks[0] == "fdw" && toks[1] != "20" && toks[1] != "10");
                    if !ok {
                        return None;
                    }
                    c.first.push(toks);
                    continue;
                }
                if is_in(&toks[0], &["pl", "cs", "hd", "plc"]) && tag != "C" {
                    return None;
                }
                match tag {
                    "P" if !exits => c.pro.push(toks),
                    "C" => c.child.push(toks),
                    // W ops are silent mutators of the parent; M/N ops silent mutators of a middle level
                    "W" if !noisy && !exits => c.during.push(toks),
                    "M" if !noisy && !exits => c.mid[0].push(toks),
                    "N" if !noisy && !exits => c.mid[1].push(toks),
                    _ => return None,
                }
            }
            _ => return None,
        }
    }
    if c.kinds.is_empty() || c.kinds.len() > 3 {
        return None;
    }
    if !c.first.is_empty() && c.kinds.last().map(|s| s.as_str()) != Some("pipeL") {
        return None;
    }
    if !c.during.is_empty() && c.kinds[0] != "async" {
        return None;
    }
    if (!c.mid[0].is_empty() && c.kinds.len() < 2) || (!c.mid[1].is_empty() && c.kinds.len() < 3) {
        return None;
    }
    Some(c)
}

fn render_op(t: &[String]) -> Option<String> {
    let a = |i: usize| t.get(i).map(|s| s.as_str());
    let n = t.len();
    Some(match (a(0)?, n) {
        ("set", 3) if is_in(a(1)?, &VARS) && is_in(a(2)?, &VALS) => format!("{}={}", t[1], t[2]),
        ("unset", 2) if is_in(a(1)?, &VARS) => format!("unset {}", t[1]),
        ("export", 3) if is_in(a(1)?, &VARS) && is_in(a(2)?, &VALS) => {
            format!("export {}={}", t[1], t[2])
        }
        ("readonly", 3) if is_in(a(1)?, &VARS) && is_in(a(2)?, &VALS) => {
            format!("readonly {}={}", t[1], t[2])
        }
        ("fn", 3) if is_in(a(1)?, &FUNS) && is_in(a(2)?, &BODIES) => {
            format!("{}() {{ probe {}; }}", t[1], t[2])
        }
        ("unfn", 2) if is_in(a(1)?, &FUNS) => format!("unset -f {}", t[1]),
        ("alias", 3) if is_in(a(1)?, &ALIASES) && is_in(a(2)?, &VALS) => {
            format!("alias {}={}", t[1], t[2])
        }
        ("unalias", 2) if is_in(a(1)?, &ALIASES) => format!("unalias {}", t[1]),
        ("opt+", 2) if is_in(a(1)?, &OPTS) => opt_command(&t[1], true),
        ("opt-", 2) if is_in(a(1)?, &OPTS) => opt_command(&t[1], false),
        ("shift", 1) => "shift".to_string(),
        ("args", _) if n <= 4 && t[1..].iter().all(|x| is_in(x, &VALS)) => {
            format!("set -- {}", t[1..].join(" ")).trim_end().to_string()
        }
        ("cd", 2) if is_in(a(1)?, &DIRS) => format!("cd {}", t[1]),
        ("umask", 2) if is_in(a(1)?, &MASKS) => format!("umask {}", t[1]),
        ("trap", 3) if is_in(a(1)?, &OP_SIGS) => match a(2)? {
            "d" => format!("trap - {}", t[1]),
            "i" => format!("trap '' {}", t[1]),
            c if c.len() == 2 && c.starts_with('c') && c[1..].chars().all(|x| ('1'..='6').contains(&x)) => {
                format!("trap 'probe T{}' {}", &c[1..], t[1])
            }
            _ => return None,
        },
        ("fdw", 3) if is_in(a(1)?, &FDS) && is_in(a(2)?, &FILES) => format!("exec {}>|/o/{}", t[1], t[2]),
        ("fdr", 2) if is_in(a(1)?, &FDS) => format!("exec {}</o/in", t[1]),
        ("fdd", 3) if is_in(a(1)?, &FDS) && t[1] != "10" && (is_in(a(2)?, &FDS) || is_in(a(2)?, &["1", "2"])) => {
            format!("exec {}>&{}", t[1], t[2])
        }
        ("fdc", 2) if is_in(a(1)?, &FDS) => format!("exec {}>&-", t[1]),
        ("local", 3) if is_in(a(1)?, &VARS) && is_in(a(2)?, &VALS) => {
            format!("lf() {{ typeset {}={}; probe L \"${}\"; }}\nlf", t[1], t[2], t[1])
        }
        ("raise", 2) if (is_in(a(1)?, &OP_SIGS) && t[1] != "EXIT") || t[1] == "KILL" => format!("selfsig {}", t[1]),
        // a background job that never finishes (the FIFO is never opened for writing)
        // (stdout is redirected so that the job does not hold the write end of a pipeline / command substitution)
        ("bg", 1) => "{ exec >|/dev/null 3>&- 4>&- 5>&- 20>&-; cat </o/fifo; } &".to_string(),
        // the soft RLIMIT_NOFILE of the shell process; 16 is the lowest value under which the sweep's own commands still
        // work (the `bg` rendering saves up to five descriptors at 10.. while its redirections are performed, plus the tty)
        ("nofile", 2) if is_in(a(1)?, &LIMITS) => format!("ulimit -S -n {}", t[1]),
        ("exit", 2) if is_in(a(1)?, &["0", "3", "7"]) => format!("exit {}", t[1]),
        // a scheduling point of the starter between `&` and `wait` (W phase only): a foreground subshell makes the
        // starter block, so the executor runs the asynchronous child (or the part of it up to its next wait) NOW
        // instead of at `wait $!`.  It prints nothing: a marker on the shared stdout would land in the middle of a
        // snapshot the child is printing through a pipeline (seen with `( : ); probe TY`: that is how the different
        // placements were checked to give different interleavings)
        ("yield", 1) => "( : )".to_string(),
        // commands of the innermost child ('C' phase only) that need new descriptors
        ("pl", 1) => ": | :".to_string(),
        ("cs", 1) => ": \"$(:)\"".to_string(),
        ("hd", 1) => "probe THD <<E\nx\nE".to_string(),
        // a three-member pipeline started with fd 1 CLOSED: the first pipe's read end is descriptor 1, so the middle member
        // takes the `read_previous == Some(Fd::STDOUT)` branch of `move_to_stdin_stdout` (pipeline.rs); the marker must come
        // out at the other end (through fd 9, a copy of the real stdout)
        ("plc", 1) => "exec 9>&1 1>&-\nprobe TPC | cat | cat >&9\nexec 1>&9 9>&-".to_string(),
        _ => return None,
    })
}

fn snap(tag: &str, with_trap: bool) -> String {
    format!(
        "echo @S:{tag}\ntypeset -gp\necho @f\ntypeset -fp\necho @a\nalias\necho @o\nset +o\necho @u\numask\necho @l\nulimit -S -n\n\
         echo @t\n{}echo @p\nprobe P \"$@\"\necho @j\njobs -l\nprobe X \"${{!-}}\"\necho @s\nsysprobe\necho @.",
        if with_trap { "trap\n" } else { "" }
    )
}

fn wrap(kind: &str, body: &str, during: &str) -> String {
    match kind {
        "paren" => format!("(\n{body}\n)"),
        "subst" => format!("probe SUBST \"$(\n{body}\n)\""),
        "pipeF" => format!("{{\n{body}\n}} | cat | cat"),
        "pipeM" => format!(": | {{\n{body}\n}} | cat"),
        "pipeL" if !during.is_empty() => format!("{{\n{during}}} | : | {{\n{body}\n}}"),
        "pipeL" => format!(": | : | {{\n{body}\n}}"),
        _ => format!("{{\n{body}\n}} &\n{during}wait $!"),
    }
}

fn ops_text(v: &[Vec<String>]) -> String {
    v.iter().map(|t| render_op(t).unwrap() + "\n").collect::<String>()
}

/// what runs inside the subshell of level `j` (1-based; the innermost level is `c.kinds.len()`)
fn level_body(c: &Case, j: usize) -> String {
    let depth = c.kinds.len();
    if j == depth {
        format!("{}\n{}{}", snap(&format!("C{j}"), true), ops_text(&c.child), snap(&format!("D{j}"), true))
    } else {
        format!(
            "{}\n{}{}\n{}\nprobe ST\n{}",
            snap(&format!("C{j}"), true),
            ops_text(&c.mid[j - 1]),
            snap(&format!("B{j}"), true),
            wrap(&c.kinds[j], &level_body(c, j + 1), &(if j + 1 == depth && c.kinds[j] == "pipeL" { ops_text(&c.first) } else { String::new() })),
            snap(&format!("A{j}"), true)
        )
    }
}

/// The shell source of a case. `control` = same program with an empty child body.
fn render(c: &Case, control: bool) -> String {
    let inner = if control { ":".to_string() } else { level_body(c, 1) };
    let extra = if c.kinds.len() == 1 && c.kinds[0] == "pipeL" { ops_text(&c.first) } else { ops_text(&c.during) };
    let mut body = format!("{}\nprobe ST", wrap(&c.kinds[0], &inner, &extra));
    if c.in_fn && c.kinds.iter().any(|k| k == "subst") {
        // `typeset -fp` prints a command substitution verbatim: keep the body of `mainf` free of newlines
        // inside `$( )` so that the function listing stays one line per function
        body = body
            .replace('\n', "; ")
            .replace("{; ", "{ ")
            .replace("(; ", "( ")
            .replace("&; ", "& ");
    }
    let prog = format!("{}{}\n{}\n{}", ops_text(&c.pro), snap("B0", !c.quiet), body, snap("A0", true));
    if c.in_fn {
        format!("mainf() {{\n{prog}\n}}\nmainf \"$@\"\n")
    } else {
        prog + "\n"
    }
}

// ------------------------------------------------------------------------------------------------
// probe built-ins of this harness

thread_local! {
    static STATE: RefCell<Option<Rc<RefCell<SystemState>>>> = const { RefCell::new(None) };
}

fn label_of(state: &SystemState, inode: &Rc<RefCell<Inode>>) -> String {
    for (p, l) in [
        ("/dev/stdin", "in"),
        ("/dev/stdout", "out"),
        ("/dev/stderr", "err"),
        ("/dev/null", "null"),
        ("/dev/tty", "tty"),
        ("/o/fifo", "fifo"),
        ("/o/f1", "f1"),
        ("/o/f2", "f2"),
        ("/o/in", "oin"),
    ] {
        if let Ok(i) = state.file_system.get(p) {
            if Rc::ptr_eq(&i, inode) {
                return l.to_string();
            }
        }
    }
    match &inode.borrow().body {
        FileBody::Fifo { .. } => "pipe".to_string(),
        FileBody::Regular { .. } => "file?".to_string(),
        _ => "other".to_string(),
    }
}

/// `cwd=<hex> um=<octal> fd=<fd>:<label>[x],… d=<SIG>:<D|I|C>,…` of process `pid`
fn sys_view(state: &SystemState, pid: yash_env::job::Pid, umask: u32) -> String {
    let Some(p) = state.processes.get(&pid) else {
        return "gone".to_string();
    };
    let fds: Vec<String> = p
        .fds()
        .iter()
        .map(|(fd, body)| {
            let ofd = body.open_file_description.borrow();
            format!(
                "{}:{}{}",
                fd.0,
                label_of(state, ofd.inode()),
                if body.flags.contains(FdFlag::CloseOnExec) { "x" } else { "" }
            )
        })
        .collect();
    let ds: Vec<String> = SIGS
        .iter()
        .filter_map(|(n, s)| {
            s.map(|s| {
                format!(
                    "{}:{}",
                    n,
                    match p.disposition(s) {
                        Disposition::Default => "D",
                        Disposition::Ignore => "I",
                        Disposition::Catch => "C",
                    }
                )
            })
        })
        .collect();
    format!(
        "cwd={} um={:03o} fd={} d={}",
        enc_str(&p.getcwd().to_string_lossy()),
        umask,
        fds.join(","),
        ds.join(",")
    )
}

fn read_umask(env: &mut VEnv) -> u32 {
    let old = env.system.umask(Mode::empty());
    env.system.umask(old);
    old.bits() as u32
}

fn sysprobe_main(env: &mut VEnv, _args: Vec<Field>) -> BuiltinFuture<'_> {
    Box::pin(async move {
        let st = env.exit_status;
        let um = read_umask(env);
        let pid = env.system.getpid();
        let text = STATE.with(|s| {
            let s = s.borrow();
            let state = s.as_ref().unwrap().borrow();
            sys_view(&state, pid, um)
        });
        let _ = env.system.write_all(Fd::STDOUT, format!("{text}\n").as_bytes()).await;
        st.into()
    })
}

/// `selfsig NAME` : the current process sends itself the signal (traps run at the next boundary)
fn selfsig_main(env: &mut VEnv, args: Vec<Field>) -> BuiltinFuture<'_> {
    Box::pin(async move {
        let st = env.exit_status;
        if let Some(n) = args.first().and_then(|f| sig_number(&f.value)) {
            env.system.raise(n).await.ok();
        }
        st.into()
    })
}

// ------------------------------------------------------------------------------------------------
// output parsing

#[derive(Clone, Debug, Default)]
struct Snap {
    tag: String,
    /// canonical tracked part
    tracked: String,
    /// everything else, verbatim
    rest: String,
    // tracked pieces (for the oracle)
    vars: String,
    funs: String,
    aliases: String,
    opts: String,
    umask: String,
    /// soft RLIMIT_NOFILE as `ulimit -S -n` prints it
    limit: String,
    traps: BTreeMap<String, String>,
    params: String,
    cwd: String,
    sys_umask: String,
    fds: BTreeMap<u32, String>,
    disp: BTreeMap<String, String>,
    /// numbers of the jobs `jobs -l` lists, and which of them `$!` designates (`j<n>`, `-` unset, `?` none)
    jobs: String,
    last: String,
    /// `tracked` without the job bookkeeping (the property excludes `$!` and the job table from "unchanged")
    tracked_nojobs: String,
}

#[derive(Clone, Debug)]
enum Item {
    Snap(Snap),
    Ev(String),
}

fn unquote(s: &str) -> String {
    let s = s.trim();
    if s.len() >= 2 && s.starts_with('\'') && s.ends_with('\'') {
        s[1..s.len() - 1].to_string()
    } else {
        s.to_string()
    }
}

fn finish_snap(tag: &str, secs: &BTreeMap<String, Vec<String>>) -> Snap {
    let empty = vec![];
    let sec = |k: &str| secs.get(k).unwrap_or(&empty);
    let mut rest = String::new();
    let mut sn = Snap { tag: tag.to_string(), ..Default::default() };
    // variables
    let mut vars = vec![];
    for l in sec("v") {
        let mut tracked = false;
        if let Some(r) = l.strip_prefix("typeset ") {
            let mut flags = String::new();
            let mut r = r;
            while let Some(x) = r.strip_prefix('-') {
                let (f, tail) = x.split_once(' ').unwrap_or((x, ""));
                flags.push_str(f);
                r = tail;
            }
            let (name, val) = match r.split_once('=') {
                Some((n, v)) => (n, Some(unquote(v))),
                None => (r, None),
            };
            if is_in(name, &TRACKED_VARS) {
                tracked = true;
                let mut f: Vec<char> = flags.chars().collect();
                f.sort();
                let v = match val {
                    Some(v) => enc_str(&v),
                    None => "~".to_string(),
                };
                vars.push(format!("{}={}/{}", name, v, f.into_iter().collect::<String>()));
            }
        }
        if !tracked {
            rest.push_str("v ");
            rest.push_str(l);
            rest.push('\n');
        }
    }
    vars.sort();
    sn.vars = vars.join(",");
    // functions
    let mut funs = vec![];
    for l in sec("f") {
        let mut tracked = false;
        if let Some((name, body)) = l.split_once("() ") {
            if is_in(name, &TRACKED_FUNS) {
                let b = body.trim();
                let id = if let Some(x) = b.strip_prefix("{ probe ").and_then(|x| x.strip_suffix("; }")) {
                    Some(x.to_string())
                } else if let Some(x) = b.strip_prefix("{ typeset ") {
                    x.split(';').next().map(|x| x.replace('=', "."))
                } else {
                    None
                };
                if let Some(id) = id {
                    tracked = true;
                    funs.push(format!("{name}={id}"));
                }
            }
        }
        if !tracked {
            rest.push_str("f ");
            rest.push_str(l);
            rest.push('\n');
        }
    }
    funs.sort();
    sn.funs = funs.join(",");
    // aliases
    let mut al: Vec<String> = sec("a")
        .iter()
        .map(|l| match l.split_once('=') {
            Some((n, v)) => format!("{}={}", n, unquote(v)),
            None => format!("?{}", enc_str(l)),
        })
        .collect();
    al.sort();
    sn.aliases = al.join(",");
    // options
    let mut on = vec![];
    for l in sec("o") {
        // every option is tracked: `set -o X` / `set +o X`, `#set …` for those `set` cannot modify
        let mut tracked = false;
        let body = l.strip_prefix('#').unwrap_or(l);
        if let Some(name) = body.strip_prefix("set -o ") {
            tracked = true;
            on.push(name.to_string());
        } else if body.strip_prefix("set +o ").is_some() {
            tracked = true;
        }
        if !tracked {
            rest.push_str("o ");
            rest.push_str(l);
            rest.push('\n');
        }
    }
    on.sort();
    sn.opts = on.join(",");
    sn.umask = sec("u").join("|");
    sn.limit = sec("l").join("|");
    // traps
    for l in sec("t") {
        let mut tracked = false;
        if let Some(r) = l.strip_prefix("trap -- ") {
            if let Some((act, cond)) = r.rsplit_once(' ') {
                if SIGS.iter().any(|s| s.0 == cond) {
                    let a = unquote(act);
                    let id = if a.is_empty() {
                        Some("i".to_string())
                    } else {
                        a.strip_prefix("probe T").map(|n| format!("c{n}"))
                    };
                    if let Some(id) = id {
                        tracked = true;
                        sn.traps.insert(cond.to_string(), id);
                    }
                }
            }
        }
        if !tracked {
            rest.push_str("t ");
            rest.push_str(l);
            rest.push('\n');
        }
    }
    // positional parameters: `<st>:50,<hex>,…`
    sn.params = match sec("p").first().and_then(|l| l.split_once(':')) {
        Some((_, r)) => {
            let fields: Vec<String> = r
                .split(',')
                .skip(1)
                .map(|h| String::from_utf8_lossy(&dec_bytes(h).unwrap_or_default()).into_owned())
                .collect();
            fields.join(",")
        }
        None => "?".to_string(),
    };
    // sysprobe line
    for l in sec("s") {
        for part in l.split(' ') {
            match part.split_once('=') {
                Some(("cwd", v)) => sn.cwd = v.to_string(),
                Some(("um", v)) => sn.sys_umask = v.to_string(),
                Some(("fd", v)) => {
                    for e in v.split(',').filter(|e| !e.is_empty()) {
                        if let Some((fd, l)) = e.split_once(':') {
                            sn.fds.insert(fd.parse().unwrap_or(999), l.to_string());
                        }
                    }
                }
                Some(("d", v)) => {
                    for e in v.split(',') {
                        if let Some((s, d)) = e.split_once(':') {
                            sn.disp.insert(s.to_string(), d.to_string());
                        }
                    }
                }
                _ => {
                    rest.push_str("s ");
                    rest.push_str(part);
                    rest.push('\n')
                }
            }
        }
    }
    // jobs: `[n] + <pid> <State> <command>` lines, then the probe line `<st>:58,<hex of $!>`
    let mut nums = vec![];
    let mut pids: Vec<(String, String)> = vec![];
    let mut last_pid: Option<String> = None;
    for l in sec("j") {
        if let Some(r) = l.strip_prefix('[') {
            if let Some((n, tail)) = r.split_once(']') {
                let words: Vec<&str> = tail.split_whitespace().collect();
                let pid = words.iter().find(|w| w.chars().all(|c| c.is_ascii_digit())).copied().unwrap_or("?");
                let state = words.iter().find(|w| w.chars().next().is_some_and(|c| c.is_ascii_uppercase())).copied().unwrap_or("?");
                nums.push(if state == "Running" { n.to_string() } else { format!("{n}:{state}") });
                pids.push((n.to_string(), pid.to_string()));
                continue;
            }
        }
        match l.split_once(':').map(|(_, r)| r.split(',').collect::<Vec<_>>()) {
            Some(f) if f.first() == Some(&"58") => {
                last_pid = Some(f.get(1).and_then(|h| dec_bytes(h)).map(|b| String::from_utf8_lossy(&b).into_owned()).unwrap_or_default())
            }
            _ => {
                rest.push_str("j ");
                rest.push_str(l);
                rest.push('\n')
            }
        }
    }
    sn.jobs = nums.join(",");
    sn.last = match last_pid.as_deref() {
        None | Some("") => "-".to_string(),
        Some(p) => pids.iter().find(|(_, q)| q == p).map(|(n, _)| format!("j{n}")).unwrap_or_else(|| "?".to_string()),
    };
    sn.rest = rest;
    sn.tracked_nojobs = format!(
        "v={} f={} a={} o={} u={} l={} t={} p={} {}",
        sn.vars,
        sn.funs,
        sn.aliases,
        sn.opts,
        sn.umask,
        sn.limit,
        show_map(&sn.traps),
        sn.params,
        sys_canon(&sn.cwd, &sn.sys_umask, &sn.fds, &sn.disp)
    );
    sn.tracked = format!("{} j={} !={}", sn.tracked_nojobs, sn.jobs, sn.last);
    sn
}

fn show_map(m: &BTreeMap<String, String>) -> String {
    m.iter().map(|(k, v)| format!("{k}:{v}")).collect::<Vec<_>>().join(",")
}

fn sys_canon(cwd: &str, um: &str, fds: &BTreeMap<u32, String>, disp: &BTreeMap<String, String>) -> String {
    let f: Vec<String> = fds.iter().map(|(k, v)| format!("{k}:{v}")).collect();
    format!("cwd={} um={} fd={} d={}", cwd, um, f.join(","), show_map(disp))
}

fn parse_output(text: &str, items: &mut Vec<Item>) {
    let mut cur: Option<(String, String, BTreeMap<String, Vec<String>>)> = None;
    for line in text.lines() {
        if let Some((tag, sec, secs)) = cur.as_mut() {
            if line == "@." {
                items.push(Item::Snap(finish_snap(tag, secs)));
                cur = None;
            } else if line.len() == 2 && line.starts_with('@') {
                *sec = line[1..].to_string();
            } else {
                secs.entry(sec.clone()).or_default().push(line.to_string());
            }
            continue;
        }
        if let Some(tag) = line.strip_prefix("@S:") {
            cur = Some((tag.to_string(), "v".to_string(), BTreeMap::new()));
            continue;
        }
        // probe line?
        let parsed = line.split_once(':').and_then(|(st, r)| {
            let st: i32 = st.parse().ok()?;
            let fields: Option<Vec<String>> = r
                .split(',')
                .map(|h| dec_bytes(h).map(|b| String::from_utf8_lossy(&b).into_owned()))
                .collect();
            Some((st, fields?))
        });
        match parsed {
            Some((st, f)) if f.first().map(|s| s.as_str()) == Some("ST") => items.push(Item::Ev(format!("st:{st}"))),
            Some((st, f)) if f.first().map(|s| s.as_str()) == Some("SUBST") => {
                parse_output(f.get(1).map(|s| s.as_str()).unwrap_or(""), items);
                items.push(Item::Ev(format!("sub:{st}")));
            }
            Some((_, f)) if f.first().map(|s| s.as_str()) == Some("L") => {
                items.push(Item::Ev(format!("L:{}", f.get(1).cloned().unwrap_or_default())))
            }
            Some((_, f)) if f.len() == 1 && f[0].starts_with('T') => items.push(Item::Ev(f[0].clone())),
            Some((_, f)) if f.len() == 1 && is_in(&f[0], &BODIES) => items.push(Item::Ev(f[0].clone())),
            _ => items.push(Item::Ev(format!("junk:{}", enc_str(line)))),
        }
    }
    if let Some((tag, _, secs)) = cur {
        // snapshot cut short (process died inside it)
        let mut s = finish_snap(&tag, &secs);
        s.tracked = format!("cut:{}", s.tracked);
        items.push(Item::Snap(s));
    }
}

// ------------------------------------------------------------------------------------------------
// running a case

struct Run {
    items: Vec<Item>,
    fin: String,
    status: i32,
    stuck: bool,
}

/// How the virtual system / the shell is prepared before the script starts.
#[derive(Clone, Debug, Default)]
struct Setup {
    /// `/dev/tty` exists (a job-controlled foreground subshell then opens it and calls `tcsetpgrp`)
    tty: bool,
    /// the internal dispositions an interactive job-control shell installs (terminators and stoppers)
    internal: bool,
    /// a signal the shell inherits as ignored
    ignored: Option<String>,
}

fn run_raw(script: &str, args: Vec<String>, su: &Setup) -> (shell::Outcome, Option<String>) {
    let su = su.clone();
    let mut cfg = shell::Config::new(script);
    cfg.positional_params = args;
    cfg.max_rounds = 20_000;
    let (out, fin) = shell::run_with(
        cfg,
        move |env, state| {
            STATE.with(|s| *s.borrow_mut() = Some(Rc::clone(state)));
            env.builtins.insert("sysprobe", Builtin::new(Type::Mandatory, sysprobe_main));
            env.builtins.insert("selfsig", Builtin::new(Type::Mandatory, selfsig_main));
            // the snapshot uses `typeset`, which the `portable` option would refuse as an extension
            for name in ["typeset", "ulimit"] {
                if let Some(b) = env.builtins.get_mut(name) {
                    b.r#type = Type::Mandatory;
                }
            }
            let mut st = state.borrow_mut();
            for p in ["/d1/s/keep", "/d2/keep", "/o/in", "/dev/null"] {
                st.file_system.save(p, Rc::new(RefCell::new(Inode::new(b"x".to_vec())))).unwrap();
            }
            // a FIFO nobody ever opens for writing: `cat </o/fifo &` is a background job that stays running
            st.file_system
                .save(
                    "/o/fifo",
                    Rc::new(RefCell::new(Inode {
                        body: FileBody::Fifo {
                            content: Default::default(),
                            readers: 0,
                            writers: 0,
                            pending_open_wakers: yash_env::waker::WakerSet::new(),
                            pending_read_wakers: yash_env::waker::WakerSet::new(),
                            pending_write_wakers: yash_env::waker::WakerSet::new(),
                        },
                        permissions: Mode::from_bits_retain(0o644),
                    })),
                )
                .unwrap();
            if su.tty {
                st.file_system.save("/dev/tty", Rc::new(RefCell::new(Inode::new(vec![])))).unwrap();
            }
            if let Some(sig) = su.ignored.as_deref().and_then(sig_number) {
                let pid = env.main_pid;
                if let Some(p) = st.processes.get_mut(&pid) {
                    let _ = p.set_disposition(sig, Disposition::Ignore);
                }
            }
            drop(st);
            if su.internal {
                use futures_util::FutureExt as _;
                // an interactive shell: the option, and the internal dispositions its start-up installs
                env.options.set(yash_env::option::Option::Interactive, yash_env::option::State::On);
                let sys = Rc::clone(&env.system);
                env.traps.enable_internal_dispositions_for_terminators(&sys).now_or_never();
                env.traps.enable_internal_dispositions_for_stoppers(&sys).now_or_never();
            }
        },
        |env, state| {
            let um = read_umask(env);
            let pid = env.main_pid;
            sys_view(&state.borrow(), pid, um)
        },
    );
    STATE.with(|s| *s.borrow_mut() = None);
    (out, fin)
}

fn run_script(script: &str, args: Vec<String>, su: &Setup) -> Run {
    let (out, fin) = run_raw(script, args, su);
    let mut items = vec![];
    parse_output(&out.stdout_str(), &mut items);
    Run { items, fin: fin.unwrap_or_else(|| "none".into()), status: out.exit_status, stuck: out.stuck }
}

fn fin_canon(fin: &str) -> String {
    let mut secs = BTreeMap::new();
    secs.insert("s".to_string(), vec![fin.to_string()]);
    let s = finish_snap("fin", &secs);
    sys_canon(&s.cwd, &s.sys_umask, &s.fds, &s.disp)
}

fn snap_of<'a>(items: &'a [Item], tag: &str) -> Option<&'a Snap> {
    items.iter().find_map(|i| match i {
        Item::Snap(s) if s.tag == tag => Some(s),
        _ => None,
    })
}


fn has_opt(s: &Snap, o: &str) -> bool {
    s.opts.split(',').any(|x| x == o)
}

/// The property statement evaluated on the real run, level by level: the shell of level `j` (0 = the parent,
/// `j >= 1` = a subshell that starts a further one) must be unchanged by the subshell it starts
/// (`A<j> == B<j>`), and that subshell must enter with a copy of it (`C<j+1>` vs `B<j>`).
fn oracle(c: &Case, r: &Run, control: Option<&Run>) -> String {
    let mut fails: Vec<String> = vec![];
    let depth = c.kinds.len();
    let snaps: Vec<&Snap> = r.items.iter().filter_map(|i| if let Item::Snap(s) = i { Some(s) } else { None }).collect();
    // a snapshot may be legitimately absent only because errexit ended that shell
    let errexit_possible = |upto: &str| -> bool {
        let mut on = c.pro.iter().chain(c.during.iter()).chain(c.mid[0].iter()).chain(c.mid[1].iter()).chain(c.child.iter())
            .any(|t| t[0] == "opt+" && t[1] == "errexit");
        for s in &snaps {
            if s.tag == upto {
                break;
            }
            on |= has_opt(s, "errexit");
        }
        on
    };
    // ... or because a special built-in of that shell failed (`exec` with a redirection that cannot be performed:
    // target at or above the soft RLIMIT_NOFILE, source closed or not writable; `set` with an option name it refuses
    // while `portable` is on): decided on the TEXT of the case, for the ops the shell of that level runs itself
    let limit_lowered = c.all_ops().any(|t| t[0] == "nofile" && t[1] != "unlimited");
    let portable_on = c.all_ops().any(|t| t[0] == "opt+" && t[1] == "portable");
    let may_fail = |ops: &[Vec<String>]| -> bool {
        ops.iter().any(|t| match t[0].as_str() {
            // (descriptor 10 may be the terminal's, CLOEXEC: `ReservedFd`)
            "fdw" | "fdr" | "fdc" => (t[1] == "20" && limit_lowered) || (t[1] == "10" && c.tty),
            "fdd" => (t[1] == "20" && limit_lowered) || is_in(&t[2], &FDS),
            "opt+" | "opt-" => portable_on && is_in(&t[1], &NONPORTABLE_OPTS),
            // (no positional parameter left)
            "shift" => true,
            _ => false,
        })
    };
    let mut skipped = false;
    for j in 0..depth {
        let (bt, at, ct) = (format!("B{j}"), format!("A{j}"), format!("C{}", j + 1));
        let own_ops: &[Vec<String>] = if j == 0 { &c.pro } else { &c.mid[j - 1] };
        let Some(b) = snap_of(&r.items, &bt) else {
            if errexit_possible(&bt) || may_fail(own_ops) {
                skipped = true;
                break;
            }
            fails.push(format!("snapshot-missing-{bt}"));
            break;
        };
        // ---- 1. nothing leaks into the shell of level j
        match snap_of(&r.items, &at) {
            None => {
                // the documented exception: an interactive top-level shell whose child was killed by SIGINT
                // abandons the command line (here: the rest of the script) with that status
                let interrupted = j == 0 && c.internal && r.status == 386;
                if interrupted || errexit_possible(&at) || (j == 0 && may_fail(&c.during)) {
                    skipped = true;
                } else {
                    fails.push(format!("snapshot-missing-{at}"));
                }
            }
            Some(a) => {
                match (j, control) {
                    (0, Some(cr)) => match snap_of(&cr.items, "A0") {
                        Some(ca) => {
                            // the text of `mainf` itself differs between the two programs: leave the untracked
                            // function listing out of this comparison
                            let nf = |s: &Snap| -> String {
                                let r: Vec<&str> = s.rest.lines().filter(|l| !l.starts_with("f ")).collect();
                                format!("{}\n{}", s.tracked_nojobs, r.join("\n"))
                            };
                            if nf(a) != nf(ca) {
                                fails.push(format!("parent-differs-from-control[{}]", diff_fields(ca, a).join(",")));
                            }
                        }
                        None => fails.push("control-run-broken".into()),
                    },
                    _ => {
                        let mut d = diff_fields(b, a);
                        if j == 0 && c.quiet {
                            // `B0` was taken without the `trap` listing
                            d.retain(|x| *x != "traps");
                        }
                        if !d.is_empty() {
                            fails.push(format!("level{j}-changed[{}]", d.join(",")));
                        }
                        // the job table: a synchronous subshell leaves it alone; `&` + `wait $!` removes its own job
                        if a.jobs != b.jobs {
                            fails.push(format!("level{j}-jobs"));
                        }
                    }
                }
                // ---- 2. the parent process state read from the virtual system after the run
                if j == 0 && sys_canon(&a.cwd, &a.sys_umask, &a.fds, &a.disp) != fin_canon(&r.fin) {
                    fails.push("final-process-state".into());
                }
            }
        }
        // ---- 3. copy on entry
        let Some(ch) = snap_of(&r.items, &ct) else {
            // an interrupted top-level command substitution never delivers its output
            if j == 0 && c.internal && r.status == 386 && c.kinds[0] == "subst" {
                skipped = true;
            } else {
                fails.push(format!("snapshot-missing-{ct}"));
            }
            break;
        };
        let kind = c.kinds[j].as_str();
        // with `monitor` on, a subshell started by the top-level shell is job-controlled: an asynchronous list
        // then neither ignores INT/QUIT nor redirects stdin, and a pipeline runs inside one more subshell
        let jc = j == 0 && has_opt(b, "monitor");
        let forced_kind = kind == "async" && !jc;
        for (what, x, y) in [
            ("vars", &b.vars, &ch.vars),
            ("funs", &b.funs, &ch.funs),
            ("aliases", &b.aliases, &ch.aliases),
            ("options", &b.opts, &ch.opts),
            ("params", &b.params, &ch.params),
            ("umask", &b.umask, &ch.umask),
            ("nofile-limit", &b.limit, &ch.limit),
            ("sys-umask", &b.sys_umask, &ch.sys_umask),
            ("cwd", &b.cwd, &ch.cwd),
            ("jobs", &b.jobs, &ch.jobs),
            ("last-async", &b.last, &ch.last),
            ("rest", &b.rest, &ch.rest),
        ] {
            if x != y {
                fails.push(format!("entry{}-{what}", j + 1));
            }
        }
        // user-visible trap actions of the starting shell: from its `trap` listing, or (B0 without listing)
        // from the prologue's trap commands
        let mut shown: BTreeMap<String, String> = b.traps.clone();
        if j == 0 && c.quiet {
            for t in c.pro.iter().filter(|t| t[0] == "trap") {
                if t[2] == "d" {
                    shown.remove(&t[1]);
                } else {
                    shown.insert(t[1].clone(), t[2].clone());
                }
            }
        }
        // dispositions: command actions and internal dispositions reset, ignored stays ignored
        for (s, d) in &b.disp {
            let forced = forced_kind && (s == "INT" || s == "QUIT");
            let user_ignored = shown.get(s).map(|x| x.as_str()) == Some("i");
            // (an interactive shell may trap a signal it inherited ignored: then the listing tells)
            let touched = c.pro.iter().any(|t| t[0] == "trap" && &t[1] == s);
            let inherited = j == 0
                && c.ignored.as_deref() == Some(s.as_str())
                && !(c.internal && (touched || !c.quiet));
            // an interactive job-control shell's non-job-controlled subshell keeps ignoring the stop signals
            // (a command substitution is never job-controlled)
            let kept_stopper = s.starts_with("T") && s != "TERM" && d == "I" && !(jc && kind != "subst");
            // inside a subshell no internal disposition is left (the first entry cleared them), so an ignoring
            // disposition there is an ignore action even when `trap` still shows the remembered parent command
            let deep_ignore = j >= 1 && d == "I";
            let want = if forced || user_ignored || inherited || kept_stopper || deep_ignore { "I" } else { "D" };
            if ch.disp.get(s).map(|x| x.as_str()) != Some(want) {
                fails.push(format!("entry{}-disposition-{s}", j + 1));
            }
        }
        // `trap` output: the starter's own traps after a single entry (parent_state); only ignored ones otherwise
        let single = j == 0 && !c.quiet && !(jc && kind.starts_with("pipe"));
        for (name, _) in SIGS.iter() {
            let pb = shown.get(*name);
            let pc = ch.traps.get(*name);
            let forced = (forced_kind && (*name == "INT" || *name == "QUIT"))
                || (name.starts_with('T') && *name != "TERM" && ch.disp.get(*name).map(|x| x.as_str()) == Some("I"))
                || (j == 0
                    && c.ignored.as_deref() == Some(*name)
                    && !(c.internal && c.pro.iter().any(|t| t[0] == "trap" && t[1] == *name)));
            let ok = match pb.map(|s| s.as_str()) {
                Some("i") => pc.map(|s| s.as_str()) == Some("i"),
                Some(_) if single => pc == pb,
                // deeper levels / B0 without listing: a command shown at level j may be the starter's own (then
                // it is remembered) or its parent's (then it is dropped) — left to the model comparison
                Some(_) if j > 0 || c.quiet => true,
                Some(_) | None => {
                    if forced {
                        pc.map(|s| s.as_str()) == Some("i")
                    } else {
                        pc.is_none()
                    }
                }
            };
            if !ok {
                fails.push(format!("entry{}-trap-output-{name}", j + 1));
            }
        }
        // fd table: same except the plumbing the kind itself installs
        let exempt: Vec<u32> = match kind {
            "async" if jc => vec![],
            "subst" | "pipeF" => vec![1],
            "pipeM" => vec![0, 1],
            "pipeL" | "async" => vec![0],
            _ => vec![],
        };
        let strip = |m: &BTreeMap<u32, String>| -> BTreeMap<u32, String> {
            m.iter().filter(|(k, _)| !exempt.contains(k)).map(|(k, v)| (*k, v.clone())).collect()
        };
        if strip(&b.fds) != strip(&ch.fds) {
            fails.push(format!("entry{}-fds", j + 1));
        }
    }
    // ---- 4. a trap command set by the top-level shell (ids 1-3) never runs inside a subshell
    let first_c = r.items.iter().position(|i| matches!(i, Item::Snap(s) if s.tag == "C1"));
    let last_snap = r.items.iter().rposition(|i| matches!(i, Item::Snap(_)));
    if let (Some(lo), Some(hi)) = (first_c, last_snap) {
        for i in &r.items[lo..hi] {
            if let Item::Ev(e) = i {
                if e == "T1" || e == "T2" || e == "T3" {
                    fails.push(format!("parent-trap-ran-in-child-{e}"));
                }
            }
        }
    }
    if r.stuck {
        fails.push("stuck".into());
    }
    if !fails.is_empty() {
        format!("FAIL:{}", fails.join("+"))
    } else if skipped {
        "-".to_string()
    } else {
        "ok".to_string()
    }
}

fn diff_fields(x: &Snap, y: &Snap) -> Vec<&'static str> {
    let mut d = vec![];
    for (n, p, q) in [
        ("vars", &x.vars, &y.vars),
        ("funs", &x.funs, &y.funs),
        ("aliases", &x.aliases, &y.aliases),
        ("options", &x.opts, &y.opts),
        ("params", &x.params, &y.params),
        ("umask", &x.umask, &y.umask),
        ("nofile-limit", &x.limit, &y.limit),
        ("sys-umask", &x.sys_umask, &y.sys_umask),
        ("cwd", &x.cwd, &y.cwd),
        ("rest", &x.rest, &y.rest),
    ] {
        if p != q {
            d.push(n);
        }
    }
    if x.traps != y.traps {
        d.push("traps");
    }
    if x.fds != y.fds {
        d.push("fds");
    }
    if x.disp != y.disp {
        d.push("dispositions");
    }
    d
}

fn observe(c: &Case, r: &Run) -> String {
    let b_rest = snap_of(&r.items, "B0").map(|s| s.rest.clone());
    let mut parts = vec![];
    let mut rest = String::new();
    for i in &r.items {
        match i {
            Item::Snap(s) => {
                parts.push(format!("{}{{{}}}", s.tag, s.tracked));
                if s.tag != "B0" {
                    rest.push(if Some(&s.rest) == b_rest.as_ref() { '=' } else { '#' });
                }
            }
            Item::Ev(e) => parts.push(e.clone()),
        }
    }
    let _ = c;
    format!(
        "{} fin{{{}}} exit={} rest={}{}",
        parts.join(" "),
        fin_canon(&r.fin),
        r.status,
        if rest.is_empty() { "-" } else { &rest },
        if r.stuck { " STUCK" } else { "" }
    )
}

fn run_case(text: &str) -> (String, String) {
    if text.trim_start().starts_with("X:") {
        return run_xcase(text);
    }
    let Some(c) = parse_case(text) else {
        return ("bad-case".to_string(), "-".to_string());
    };
    let args: Vec<String> = vec![];
    let su = c.setup();
    let r = run_script(&render(&c, false), args.clone(), &su);
    let control = if c.during.is_empty() { None } else { Some(run_script(&render(&c, true), args, &su)) };
    (observe(&c, &r), oracle(&c, &r, control.as_ref()))
}

// ------------------------------------------------------------------------------------------------
// `X:` cases — raw system calls of several processes on ONE real `SystemState`, any interleaving
//
//   X:<pid> fork | umask M | chdir D | open F | dup N MIN [x] | dup2 N M | close N | cloexec N 0|1 |
//           sigaction SIG D|I|C | block SIG | unblock SIG | rlimit 4|16|18|unlimited
//
// Every process is a handle `VirtualSystem { state: Rc::clone(..), process_id }` on the same state, exactly
// as `VirtualSystem::run_in_child_process` builds the child's handle.  `fork` IS that method (with an executor
// that never runs the child task: the harness drives the child's handle itself, so that the schedule is the
// one the case names and not the one the executor would choose).  After every step the WHOLE process table is
// printed.  Oracle (independent of the Lean model): a call changes at most the caller's entry; a fork adds one
// entry, equal to the forking process's (fd table, cwd, umask, dispositions, mask, limit), and changes no other.

#[derive(Debug)]
struct NullExecutor;

impl yash_env::system::r#virtual::Executor for NullExecutor {
    fn spawn(
        &self,
        _task: std::pin::Pin<Box<dyn std::future::Future<Output = ()>>>,
    ) -> Result<(), Box<dyn std::error::Error>> {
        Ok(())
    }
}

const XDIRS: [&str; 10] = ["/d1", "/d2", "/d1/s", "s", ".", "/dx", "..", "/d1/s/..", "../d2", "/.."];
const XFDS: [&str; 9] = ["0", "1", "2", "3", "4", "5", "10", "17", "20"];
const XLIMITS: [&str; 4] = ["4", "16", "18", "unlimited"];
const XSIGS: [&str; 5] = ["INT", "QUIT", "TERM", "URG", "USR1"];

fn errno_name(e: yash_env::system::Errno) -> String {
    use yash_env::system::Errno;
    if e == Errno::EBADF {
        "EBADF".into()
    } else if e == Errno::EMFILE {
        "EMFILE".into()
    } else if e == Errno::ENOENT {
        "ENOENT".into()
    } else if e == Errno::ENOTDIR {
        "ENOTDIR".into()
    } else {
        format!("E{}", e.0)
    }
}

/// one entry of the table: `pid(ppid){cwd= um= fd= d= l= b=}`
fn x_entry(sys: &VirtualSystem, pid: Pid) -> String {
    use yash_env::system::Sigset as _;
    use yash_env::system::resource::{GetRlimit as _, INFINITY, Resource};
    let handle = VirtualSystem { state: Rc::clone(&sys.state), process_id: pid };
    let lim = handle.getrlimit(Resource::NOFILE).map(|l| l.soft).unwrap_or(INFINITY);
    // the only way to read a process's mask from outside the crate: set it and put it back
    let um = handle.umask(Mode::empty());
    handle.umask(um);
    let state = sys.state.borrow();
    let p = &state.processes[&pid];
    let blocked: Vec<&str> = SIGS
        .iter()
        .filter_map(|(n, s)| s.and_then(|s| if p.blocked_signals().contains(s).unwrap_or(false) { Some(*n) } else { None }))
        .collect();
    format!(
        "{}({}){{{} l={} b={}}}",
        pid.0,
        p.ppid().0,
        sys_view(&state, pid, um.bits() as u32),
        if lim == INFINITY { "unlimited".to_string() } else { lim.to_string() },
        blocked.join(",")
    )
}

fn x_table(sys: &VirtualSystem) -> Vec<(i32, String)> {
    let pids: Vec<Pid> = sys.state.borrow().processes.keys().copied().collect();
    pids.into_iter().map(|pid| (pid.0 as i32, x_entry(sys, pid))).collect()
}

/// the part of an entry after `pid(ppid)`
fn x_body(entry: &str) -> &str {
    entry.find('{').map(|i| &entry[i..]).unwrap_or(entry)
}

fn x_step(sys: &VirtualSystem, pid: Pid, ws: &[&str]) -> Option<String> {
    use futures_util::FutureExt as _;
    use yash_env::system::resource::{INFINITY, LimitPair, Resource, SetRlimit as _};
    use yash_env::system::{
        Chdir as _, Close as _, Dup as _, Fcntl as _, Fork as _, OfdAccess, Open as _, Sigaction as _, Sigmask as _,
        SigmaskOp,
    };
    let h = VirtualSystem { state: Rc::clone(&sys.state), process_id: pid };
    let fd = |s: &str| -> Option<Fd> {
        if is_in(s, &XFDS) { s.parse::<i32>().ok().map(Fd) } else { None }
    };
    let sig = |s: &str| -> Option<Number> {
        if is_in(s, &XSIGS) { sig_number(s) } else { None }
    };
    let cpath = |s: &str| std::ffi::CString::new(s).unwrap();
    let res_fd = |r: Result<Fd, yash_env::system::Errno>| match r {
        Ok(fd) => format!("fd{}", fd.0),
        Err(e) => errno_name(e),
    };
    let res_unit = |r: Result<(), yash_env::system::Errno>| match r {
        Ok(()) => "ok".to_string(),
        Err(e) => errno_name(e),
    };
    Some(match ws {
        ["fork"] => {
            let (r, ()) = h.run_in_child_process((), async |_child: VirtualSystem, ()| {});
            match r {
                Ok(pid) => format!("pid{}", pid.0),
                Err(e) => errno_name(e),
            }
        }
        ["umask", m] if is_in(m, &MASKS) => {
            h.umask(Mode::from_bits_retain(u32::from_str_radix(m, 8).ok()? as _));
            "ok".into()
        }
        ["chdir", d] if is_in(d, &XDIRS) => res_unit(h.chdir(&cpath(d))),
        ["open", f] if is_in(f, &FILES) => {
            let r = h
                .open(&cpath(&format!("/o/{f}")), OfdAccess::WriteOnly, enumset::EnumSet::empty(), Mode::empty())
                .now_or_never()?;
            res_fd(r)
        }
        ["dup", n, m] => res_fd(h.dup(fd(n)?, fd(m)?, enumset::EnumSet::empty())),
        ["dup", n, m, "x"] => res_fd(h.dup(fd(n)?, fd(m)?, FdFlag::CloseOnExec.into())),
        ["dup2", n, m] => res_fd(h.dup2(fd(n)?, fd(m)?)),
        ["close", n] => res_unit(h.close(fd(n)?)),
        ["cloexec", n, b] if *b == "0" || *b == "1" => res_unit(h.fcntl_setfd(
            fd(n)?,
            if *b == "1" { FdFlag::CloseOnExec.into() } else { enumset::EnumSet::empty() },
        )),
        ["sigaction", s, d] => {
            let d = match *d {
                "D" => Disposition::Default,
                "I" => Disposition::Ignore,
                "C" => Disposition::Catch,
                _ => return None,
            };
            res_unit(h.sigaction(sig(s)?, d).map(|_| ()))
        }
        [op @ ("block" | "unblock"), s] => {
            let set: <VirtualSystem as yash_env::system::Sigmask>::Sigset = sig(s)?.into();
            let how = if *op == "block" { SigmaskOp::Add } else { SigmaskOp::Remove };
            res_unit(h.sigmask(Some((how, &set)), None).now_or_never()?)
        }
        ["rlimit", v] if is_in(v, &XLIMITS) => {
            let soft = if *v == "unlimited" { INFINITY } else { v.parse().ok()? };
            res_unit(h.setrlimit(Resource::NOFILE, LimitPair { soft, hard: INFINITY }))
        }
        _ => return None,
    })
}

fn run_xcase(text: &str) -> (String, String) {
    let bad = ("bad-case".to_string(), "-".to_string());
    let items: Vec<&str> = text.split(';').map(|s| s.trim()).filter(|s| !s.is_empty()).collect();
    if items.is_empty() || items.len() > 40 {
        return bad;
    }
    let sys = VirtualSystem::new();
    {
        let mut st = sys.state.borrow_mut();
        st.executor = Some(Rc::new(NullExecutor));
        for p in ["/d1/s/keep", "/d2/keep", "/o/in", "/o/f1", "/o/f2", "/dev/null"] {
            st.file_system.save(p, Rc::new(RefCell::new(Inode::new(b"x".to_vec())))).unwrap();
        }
    }
    let mut prev = x_table(&sys);
    let show = |t: &[(i32, String)]| t.iter().map(|e| e.1.clone()).collect::<Vec<_>>().join(" ");
    let mut out = vec![format!("start {}", show(&prev))];
    let mut fails: Vec<String> = vec![];
    for (k, item) in items.iter().enumerate() {
        let Some(body) = item.strip_prefix("X:") else { return bad };
        let ws: Vec<&str> = body.split_whitespace().collect();
        let Some((pid_s, ws)) = ws.split_first() else { return bad };
        let Ok(pid) = pid_s.parse::<i32>() else { return bad };
        if !(2..=40).contains(&pid) {
            return bad;
        }
        let pid = Pid(pid as _);
        let exists = sys.state.borrow().processes.contains_key(&pid);
        let r = if exists {
            match x_step(&sys, pid, ws) {
                Some(r) => r,
                None => return bad,
            }
        } else {
            // a handle on a process that does not exist would panic in `current_process_mut`
            if x_step(&VirtualSystem::new(), Pid(2), ws).is_none() {
                return bad;
            }
            "nopid".to_string()
        };
        let cur = x_table(&sys);
        out.push(format!("{} {}", r, show(&cur)));
        // oracle
        let forked = ws == ["fork"] && r.starts_with("pid");
        for (q, e) in &prev {
            match cur.iter().find(|c| c.0 == *q) {
                None => fails.push(format!("step{k}:entry-gone[{q}]")),
                Some(c) if c.1 != *e && (*q != pid.0 as i32 || forked || !exists) => {
                    fails.push(format!("step{k}:foreign-entry-changed[{q}]"))
                }
                _ => {}
            }
        }
        let fresh: Vec<&(i32, String)> = cur.iter().filter(|c| !prev.iter().any(|p| p.0 == c.0)).collect();
        if forked {
            let max_prev = prev.iter().map(|p| p.0).max().unwrap_or(1);
            let parent_entry = prev.iter().find(|p| p.0 == pid.0 as i32).map(|p| p.1.clone()).unwrap_or_default();
            match fresh.as_slice() {
                [c] => {
                    if c.0 != max_prev + 1 || r != format!("pid{}", c.0) {
                        fails.push(format!("step{k}:fork-pid[{}]", c.0));
                    }
                    if !c.1.starts_with(&format!("{}({})", c.0, pid.0)) {
                        fails.push(format!("step{k}:fork-ppid[{}]", c.0));
                    }
                    if x_body(&c.1) != x_body(&parent_entry) {
                        fails.push(format!("step{k}:fork-copy[{}]", c.0));
                    }
                }
                _ => fails.push(format!("step{k}:fork-entries[{}]", fresh.len())),
            }
        } else if !fresh.is_empty() {
            fails.push(format!("step{k}:entry-appeared"));
        }
        prev = cur;
    }
    let oracle = if fails.is_empty() { "ok".to_string() } else { format!("FAIL:{}", fails.join("+")) };
    (out.join(" / "), oracle)
}

/// one random call of the `X:` vocabulary
fn gen_xcall(rng: &mut Rng) -> String {
    match rng.below(13) {
        0 => format!("umask {}", pick(rng, &MASKS)),
        1 | 2 => format!("chdir {}", pick(rng, &XDIRS)),
        3 => format!("open {}", pick(rng, &FILES)),
        4 => format!("dup {} {}{}", pick(rng, &XFDS), pick(rng, &XFDS), if rng.chance(1, 2) { " x" } else { "" }),
        5 => format!("dup2 {} {}", pick(rng, &XFDS), pick(rng, &XFDS)),
        6 => format!("close {}", pick(rng, &XFDS[..7])),
        7 => format!("cloexec {} {}", pick(rng, &XFDS[..7]), rng.below(2)),
        8 | 9 => format!("sigaction {} {}", pick(rng, &XSIGS), pick(rng, &["D", "I", "C"])),
        10 => format!("block {}", pick(rng, &XSIGS)),
        11 => format!("unblock {}", pick(rng, &XSIGS)),
        _ => format!("rlimit {}", pick(rng, &XLIMITS)),
    }
}

fn gen_xcases(rng: &mut Rng, thorough: bool, cases: &mut Vec<String>) {
    // (Xa) every call form by the forking process and by the forked one, right after the fork, after a
    // preparation that makes the call meaningful — and the same one level deeper
    let forms: Vec<String> = {
        let mut v = vec![];
        for m in MASKS {
            v.push(format!("umask {m}"));
        }
        for d in XDIRS {
            v.push(format!("chdir {d}"));
        }
        for f in FILES {
            v.push(format!("open {f}"));
        }
        for (a, b) in [("1", "3"), ("1", "10"), ("3", "0"), ("5", "3"), ("2", "17"), ("2", "20")] {
            v.push(format!("dup {a} {b}"));
            v.push(format!("dup {a} {b} x"));
            v.push(format!("dup2 {a} {b}"));
        }
        v.push("dup2 1 1".into());
        for n in ["0", "1", "3", "10"] {
            v.push(format!("close {n}"));
            v.push(format!("cloexec {n} 1"));
            v.push(format!("cloexec {n} 0"));
        }
        for s in XSIGS {
            for d in ["D", "I", "C"] {
                v.push(format!("sigaction {s} {d}"));
            }
            v.push(format!("block {s}"));
            v.push(format!("unblock {s}"));
        }
        for l in XLIMITS {
            v.push(format!("rlimit {l}"));
        }
        v
    };
    let preps = [
        "",
        "X:2 chdir /d1; X:2 umask 027; X:2 open f1; X:2 sigaction INT I; X:2 block QUIT; ",
        "X:2 dup 1 10 x; X:2 rlimit 16; X:2 sigaction TERM C; X:2 block TERM; X:2 chdir /d2; ",
        "X:2 open f2; X:2 dup 2 20; X:2 rlimit 4; X:2 umask 077; ",
    ];
    for (i, f) in forms.iter().enumerate() {
        for (j, prep) in preps.iter().enumerate() {
            if !thorough && (i + j) % 2 == 1 {
                continue;
            }
            cases.push(format!("{prep}X:2 fork; X:3 {f}; X:2 {}", forms[(i * 7 + j) % forms.len()]));
            cases.push(format!("{prep}X:2 fork; X:2 {f}; X:3 {}", forms[(i * 5 + j + 1) % forms.len()]));
            if thorough || (i + j) % 4 == 0 {
                cases.push(format!("{prep}X:2 fork; X:3 fork; X:4 {f}; X:3 {f}; X:2 fork; X:5 {f}"));
            }
        }
    }
    // (Xb) random schedules of up to five processes
    let n = if thorough { 16_000 } else { 600 };
    for _ in 0..n {
        let mut nproc = 1;
        let steps = 2 + rng.below(11);
        let mut parts = vec![];
        for _ in 0..steps {
            // sometimes a handle on a pid that does not exist (yet)
            let pid = if rng.chance(1, 40) { 2 + nproc + rng.below(2) } else { 2 + rng.below(nproc) };
            if nproc < 5 && rng.chance(1, 5) {
                parts.push(format!("X:{pid} fork"));
                if pid < 2 + nproc {
                    nproc += 1;
                }
            } else {
                parts.push(format!("X:{pid} {}", gen_xcall(rng)));
            }
        }
        cases.push(parts.join("; "));
    }
}

// ------------------------------------------------------------------------------------------------
// generator

/// abstract state the generator tracks to produce only ops whose precondition holds
#[derive(Clone, Default)]
struct Abs {
    readonly: Vec<String>,
    nparams: usize,
    open: Vec<String>,
    /// fds opened read-only
    ronly: Vec<String>,
    /// the `portable` option is on
    portable: bool,
    /// the `errexit` option is on
    errexit: bool,
    /// the soft RLIMIT_NOFILE is below 20
    limited: bool,
    /// the innermost child lowered its soft RLIMIT_NOFILE to 4: a background job could not even set itself up
    limit4: bool,
    /// the case has a controlling terminal (`T:1`): descriptor 10 may become the shell's CLOEXEC terminal descriptor
    tty: bool,
    /// defined aliases
    aliases: Vec<String>,
    /// condition -> 'd' | 'i' | 'c'
    traps: BTreeMap<String, char>,
}

fn pick<'a>(rng: &mut Rng, xs: &[&'a str]) -> &'a str {
    xs[rng.below(xs.len())]
}

/// one mutator of family `fam` (0..16), valid in `abs`; `phase` = 'P' (prologue) | 'C' (innermost child) |
/// 'M' (a middle level) | 'W' (the top-level shell between `&` and `wait`).  In the phases that run inside a
/// subshell ('C', 'M') an op may also be one whose special built-in FAILS (the subshell then exits with status 2
/// after its EXIT trap): a redirection onto a descriptor at or above the soft RLIMIT_NOFILE, `N>&M` of a closed or
/// read-only M, a non-portable option name while `portable` is on.  The top-level shell never gets one (it
/// would end before any snapshot).
fn gen_op(rng: &mut Rng, abs: &mut Abs, fam: usize, phase: char) -> Option<String> {
    let may_fail = phase == 'C' || phase == 'M';
    let free_var = |rng: &mut Rng, abs: &Abs| -> Option<&'static str> {
        let c: Vec<&'static str> = VARS.iter().copied().filter(|v| !abs.readonly.iter().any(|r| r == v)).collect();
        if c.is_empty() { None } else { Some(c[rng.below(c.len())]) }
    };
    let trap_id = |rng: &mut Rng| -> String {
        match phase {
            'P' => format!("c{}", 1 + rng.below(3)),
            'C' => format!("c{}", 4 + rng.below(2)),
            _ => "c6".to_string(),
        }
    };
    Some(match fam {
        0 => format!("set {} {}", free_var(rng, abs)?, pick(rng, &VALS)),
        1 => format!("unset {}", free_var(rng, abs)?),
        2 => format!("export {} {}", free_var(rng, abs)?, pick(rng, &VALS)),
        3 => {
            // keep at least one variable writable
            if abs.readonly.len() >= 2 {
                return None;
            }
            let v = free_var(rng, abs)?;
            abs.readonly.push(v.to_string());
            format!("readonly {} {}", v, pick(rng, &VALS))
        }
        4 => format!("fn {} {}", pick(rng, &FUNS), pick(rng, &BODIES)),
        5 => format!("unfn {}", pick(rng, &FUNS)),
        6 => {
            let a = pick(rng, &ALIASES);
            if !abs.aliases.iter().any(|x| x == a) {
                abs.aliases.push(a.to_string());
            }
            format!("alias {} {}", a, pick(rng, &VALS))
        }
        7 => {
            let a = pick(rng, &ALIASES);
            let defined = abs.aliases.iter().any(|x| x == a);
            // `unalias` of an undefined alias fails: under errexit that ends the shell (modelled, but such a
            // case observes little), so it is produced only rarely then
            if abs.errexit && !defined && !rng.chance(1, 8) {
                return None;
            }
            abs.aliases.retain(|x| x != a);
            format!("unalias {a}")
        }
        8 => {
            let on = rng.chance(1, 2);
            // `monitor` changes how every kind of subshell is started (job control): draw it more often
            let o = if rng.chance(1, 5) { "monitor" } else { pick(rng, &OPTS) };
            if abs.portable && is_in(o, &NONPORTABLE_OPTS) && !(may_fail && rng.chance(1, 2)) {
                return None;
            }
            if o == "portable" {
                abs.portable = on;
            }
            if o == "errexit" {
                abs.errexit = on;
            }
            format!("opt{} {}", if on { "+" } else { "-" }, o)
        }
        9 => {
            if abs.nparams == 0 && may_fail && rng.chance(1, 6) {
                // no positional parameter left: an error of the special built-in, the subshell exits (status 1) here
                "shift".to_string()
            } else if abs.nparams > 0 && rng.chance(1, 2) {
                abs.nparams -= 1;
                "shift".to_string()
            } else {
                let n = rng.below(4);
                abs.nparams = n;
                let xs: Vec<&str> = (0..n).map(|_| pick(rng, &VALS)).collect();
                format!("args {}", xs.join(" ")).trim_end().to_string()
            }
        }
        10 => format!("cd {}", pick(rng, &DIRS)),
        11 => format!("umask {}", pick(rng, &MASKS)),
        12 => {
            let s = OP_SIGS[rng.below(OP_SIGS.len())];
            let a = match rng.below(4) {
                0 => "d".to_string(),
                1 => "i".to_string(),
                _ => trap_id(rng),
            };
            abs.traps.insert(s.to_string(), a.chars().next().unwrap());
            format!("trap {s} {a}")
        }
        13 => {
            let mut fd = pick(rng, &FDS);
            // descriptor 10: drawn less often; with a terminal around, only where the shell may fail (a CLOEXEC
            // target or source is a redirection error)
            if fd == "10" && ((abs.tty && !may_fail) || rng.chance(1, 2)) {
                fd = "4";
            }
            // a descriptor at or above the soft limit cannot be opened (it can still be closed)
            if fd == "20" && abs.limited && rng.chance(3, 4) {
                fd = "3";
            }
            if fd == "20" && abs.limited && may_fail && rng.chance(1, 2) {
                // a redirection error: the subshell exits here
                return Some(match rng.below(3) {
                    0 => format!("fdw 20 {}", pick(rng, &FILES)),
                    1 => "fdr 20".to_string(),
                    _ => format!("fdd 20 {}", pick(rng, &["1", "2"])),
                });
            }
            if fd == "20" && abs.limited {
                abs.open.retain(|x| x != fd);
                abs.ronly.retain(|x| x != fd);
                return Some(format!("fdc {fd}"));
            }
            match rng.below(4) {
                0 => {
                    abs.open.retain(|x| x != fd);
                    abs.ronly.retain(|x| x != fd);
                    format!("fdc {fd}")
                }
                1 if fd == "10" => {
                    // never the target of `N>&M`; as its source
                    let n = pick(rng, &["3", "4", "5"]);
                    let ok = abs.open.iter().any(|x| x == "10") && !abs.ronly.iter().any(|x| x == "10") && !abs.tty;
                    if !ok && !may_fail {
                        return None;
                    }
                    if ok {
                        abs.ronly.retain(|x| x != n);
                        if !abs.open.iter().any(|x| x == n) {
                            abs.open.push(n.to_string());
                        }
                    }
                    format!("fdd {n} 10")
                }
                1 => {
                    if may_fail && rng.chance(1, 10) {
                        // a closed or read-only source: a redirection error, the subshell exits here
                        let bad: Vec<&str> = FDS.iter().copied()
                            .filter(|s| *s != fd && (!abs.open.iter().any(|x| x == s) || abs.ronly.iter().any(|r| r == s)))
                            .collect();
                        if !bad.is_empty() {
                            return Some(format!("fdd {fd} {}", bad[rng.below(bad.len())]));
                        }
                    }
                    let mut src: Vec<&str> = vec!["1", "2"];
                    // `N>&M` needs a writable M (an fd opened by `fdr` is read-only: redirection error)
                    src.extend(abs.open.iter().map(|s| s.as_str()).filter(|s| *s != fd && !abs.ronly.iter().any(|r| r == s)));
                    let m = src[rng.below(src.len())].to_string();
                    abs.ronly.retain(|x| x != fd);
                    if !abs.open.iter().any(|x| x == fd) {
                        abs.open.push(fd.to_string());
                    }
                    format!("fdd {fd} {m}")
                }
                2 => {
                    if !abs.open.iter().any(|x| x == fd) {
                        abs.open.push(fd.to_string());
                    }
                    if !abs.ronly.iter().any(|x| x == fd) {
                        abs.ronly.push(fd.to_string());
                    }
                    format!("fdr {fd}")
                }
                _ => {
                    abs.ronly.retain(|x| x != fd);
                    if !abs.open.iter().any(|x| x == fd) {
                        abs.open.push(fd.to_string());
                    }
                    format!("fdw {fd} {}", pick(rng, &FILES))
                }
            }
        }
        15 => {
            if phase == 'W' || phase == 'M' || abs.limit4 {
                return None;
            }
            "bg".to_string()
        }
        16 => {
            let mut l = pick(rng, &LIMITS);
            if l == "4" && phase != 'C' {
                l = "16";
            }
            if l == "4" {
                abs.limit4 = true;
            }
            abs.limited = l != "unlimited";
            format!("nofile {l}")
        }
        14 => {
            if phase == 'W' || phase == 'M' {
                return None;
            }
            format!("local {} {}", free_var(rng, abs)?, pick(rng, &VALS))
        }
        _ => return None,
    })
}

/// what entering a subshell of `kind` does to the generator's view of the traps
fn abs_enter(abs: &mut Abs, kind: &str) {
    for (_, a) in abs.traps.iter_mut() {
        if *a == 'c' {
            *a = 'd';
        }
    }
    if kind == "async" {
        abs.traps.insert("INT".into(), 'i');
        abs.traps.insert("QUIT".into(), 'i');
    }
}

fn gen_raise(rng: &mut Rng, abs: &Abs, phase: char) -> Option<String> {
    let mut names: Vec<&str> = OP_SIGS[1..].to_vec();
    if phase == 'C' {
        names.push("KILL");
        // INT is the signal with a rule of its own
        names.push("INT");
    }
    let s = names[rng.below(names.len())];
    let a = abs.traps.get(s).copied().unwrap_or('d');
    // the parent must survive; a child may be killed
    if phase == 'P' && a == 'd' && s != "URG" {
        return None;
    }
    Some(format!("raise {s}"))
}

/// optional set-up flags of a case
fn gen_flags(rng: &mut Rng, parts: &mut Vec<String>) {
    if rng.chance(1, 4) {
        parts.push("T:1".into());
    }
    if rng.chance(1, 4) {
        parts.push("I:1".into());
    }
    if rng.chance(1, 8) {
        parts.push(format!("G:{}", OP_SIGS[1 + rng.below(5)]));
    }
    if rng.chance(1, 5) {
        parts.push("Q:1".into());
    }
}

fn gen_case(rng: &mut Rng, pro_fams: &[usize], kinds: &[&str], child_fams: &[usize], during_fams: &[usize], in_fn: bool, raises: bool) -> String {
    let mut parts: Vec<String> = vec![];
    if in_fn {
        parts.push("F:1".into());
    }
    if raises {
        gen_flags(rng, &mut parts);
    }
    let mut abs = Abs { tty: parts.iter().any(|p| p == "T:1"), ..Default::default() };
    for &f in pro_fams {
        if let Some(op) = gen_op(rng, &mut abs, f, 'P') {
            parts.push(format!("P:{op}"));
        }
    }
    if raises && rng.chance(1, 3) {
        if let Some(op) = gen_raise(rng, &abs, 'P') {
            parts.push(format!("P:{op}"));
        }
    }
    for k in kinds {
        parts.push(format!("K:{k}"));
    }
    // walk down the levels: each subshell starts from a copy of its starter's abstract state
    let mut cabs = abs.clone();
    for (j, k) in kinds.iter().enumerate() {
        abs_enter(&mut cabs, k);
        if j + 1 < kinds.len() {
            // mutators of an intermediate level, before it starts the next subshell
            let n = if raises { rng.below(3) } else { rng.below(2) };
            for _ in 0..n {
                let fam = rng.below(NFAM);
                if let Some(op) = gen_op(rng, &mut cabs, fam, 'M') {
                    parts.push(format!("{}:{op}", if j == 0 { "M" } else { "N" }));
                }
            }
        }
    }
    for &f in child_fams {
        if let Some(op) = gen_op(rng, &mut cabs, f, 'C') {
            parts.push(format!("C:{op}"));
        }
    }
    if raises && rng.chance(1, 2) {
        if rng.chance(1, 4) {
            parts.push(format!("C:exit {}", pick(rng, &["0", "3", "7"])));
        } else if let Some(op) = gen_raise(rng, &cabs, 'C') {
            parts.push(format!("C:{op}"));
        }
    }
    if kinds[0] == "async" {
        for &f in during_fams {
            if let Some(op) = gen_op(rng, &mut abs, f, 'W') {
                parts.push(format!("W:{op}"));
            }
        }
    }
    parts.join("; ")
}

const NFAM: usize = 17;

/// A mutator family for the prologue (uniform over all families).
fn pro_fam(rng: &mut Rng) -> usize {
    rng.below(NFAM)
}

fn rng_fam(k: usize) -> usize {
    k % NFAM
}

fn main() {
    quiet_panics();
    let o = Opts::from_args();
    if o.extra.first().map(|s| s.as_str()) == Some("--script") {
        // debugging aid: `c08 --script 'text' [tty] [internal] [ign=SIG]` runs a raw script in this harness's set-up
        let su = Setup {
            tty: o.extra.iter().any(|x| x == "tty"),
            internal: o.extra.iter().any(|x| x == "internal"),
            ignored: o.extra.iter().find_map(|x| x.strip_prefix("ign=").map(|s| s.to_string())),
        };
        let (out, fin) = run_raw(&o.extra[1], vec![], &su);
        print!("{}", out.stdout_str());
        eprint!("{}", out.stderr_str());
        eprintln!("[exit {} stuck {}] fin {:?}", out.exit_status, out.stuck, fin);
        return;
    }
    if o.extra.first().map(|s| s.as_str()) == Some("--show") {
        let (fixed, _) = o.fixed_cases();
        for c in fixed {
            if let Some(pc) = parse_case(&c) {
                let src = render(&pc, false);
                println!("{src}");
            }
        }
        return;
    }
    let run = |case: &str| {
        let mut orc = "-".to_string();
        let obs = guarded(|| {
            let (obs, or) = run_case(case);
            orc = or;
            obs
        });
        if obs.starts_with("PANIC") {
            orc = "FAIL:panic".into();
        }
        emit(case, &obs, &orc);
    };
    let (fixed, only) = o.fixed_cases();
    for c in &fixed {
        run(c);
    }
    if only {
        return;
    }
    let mut cases: Vec<String> = vec![];
    let mut rng = Rng::new(o.seed ^ 0xC08);
    // (1) the sweep: every mutator family x every kind x nesting depth 1-3 (every ordered pair of kinds
    // occurs as "inner directly inside outer"), with a small random prologue
    let nk = KINDS.len();
    let reps = if o.thorough() { 12 } else { 2 };
    for rep in 0..reps {
        for fam in 0..NFAM {
            for k in KINDS.iter() {
                let pro: Vec<usize> = (0..(1 + rng.below(4))).map(|_| pro_fam(&mut rng)).collect();
                let during: Vec<usize> = if rng.chance(1, 2) { vec![rng.below(NFAM)] } else { vec![] };
                cases.push(gen_case(&mut rng, &pro, &[k], &[fam], &during, rep % 2 == 1, false));
            }
            let mut nests: Vec<Vec<&str>> = vec![];
            if o.thorough() {
                for a in KINDS.iter() {
                    for b in KINDS.iter() {
                        nests.push(vec![a, b]);
                        nests.push(vec![a, b, KINDS[rng.below(nk)]]);
                    }
                }
            } else {
                for (i, k) in KINDS.iter().enumerate() {
                    nests.push(vec![k, KINDS[(i + fam + rep) % nk]]);
                    nests.push(vec![KINDS[(i + 2 * fam + rep + 1) % nk], k]);
                    nests.push(vec![k, KINDS[(i + fam) % nk], KINDS[(i + rep + 2 * fam + 3) % nk]]);
                }
            }
            for kinds in nests {
                let pro: Vec<usize> = (0..(1 + rng.below(4))).map(|_| pro_fam(&mut rng)).collect();
                cases.push(gen_case(&mut rng, &pro, &kinds, &[fam], &[], rep % 2 == 1, false));
            }
        }
    }
    // (1b) every option x on/off as the last thing the parent does before the subshell x every kind:
    // the child's entry snapshot must show the same option set
    for (i, opt) in OPTS.iter().enumerate() {
        for on in [true, false] {
            let kinds2 = if o.thorough() { KINDS.len() } else { 1 };
            for (j, k) in KINDS.iter().enumerate() {
                let mut variants: Vec<Vec<&str>> = vec![vec![k]];
                for d in 0..kinds2 {
                    variants.push(vec![k, KINDS[(i + j + d) % KINDS.len()]]);
                }
                for kinds in variants {
                    let mut parts = vec![];
                    // the opposite first, so that the op under test really changes the state
                    if rng.chance(1, 2) && !(*opt == "portable") {
                        parts.push(format!("P:opt{} {}", if on { "-" } else { "+" }, opt));
                    }
                    if rng.chance(1, 2) {
                        parts.push(format!("P:trap {} c1", OP_SIGS[1 + rng.below(5)]));
                    }
                    parts.push(format!("P:opt{} {}", if on { "+" } else { "-" }, opt));
                    for k in &kinds {
                        parts.push(format!("K:{k}"));
                    }
                    let mut abs = Abs { portable: *opt == "portable" && on, ..Default::default() };
                    if let Some(op) = gen_op(&mut rng, &mut abs, rng_fam(i + j), 'C') {
                        parts.push(format!("C:{op}"));
                    }
                    cases.push(parts.join("; "));
                }
            }
        }
    }
    // (1c) children that END BY A SIGNAL: every kind nest x signal x interactive or not x the starter's SIGINT
    // trap (default / ignored / command): every enclosing level must see the status only and go on
    let sig_list = ["INT", "QUIT", "TERM", "KILL", "USR1"];
    let mut nests: Vec<Vec<&str>> = KINDS.iter().map(|k| vec![*k]).collect();
    for a in KINDS.iter() {
        for b in KINDS.iter() {
            nests.push(vec![a, b]);
        }
    }
    for (i, a) in KINDS.iter().enumerate() {
        for (j, b) in KINDS.iter().enumerate() {
            if o.thorough() {
                for c in KINDS.iter() {
                    nests.push(vec![a, b, c]);
                }
            } else {
                nests.push(vec![a, b, KINDS[(i + 2 * j + 1) % nk]]);
            }
        }
    }
    for (n, kinds) in nests.iter().enumerate() {
        for (si, sig) in sig_list.iter().enumerate() {
            if !o.thorough() && kinds.len() == 3 && si != n % sig_list.len() {
                continue;
            }
            for interactive in [false, true] {
                let variants: Vec<usize> = if o.thorough() { vec![0, 1, 2] } else { vec![(n + si) % 3] };
                for v in variants {
                    let mut parts: Vec<String> = vec![];
                    if interactive {
                        parts.push("I:1".into());
                    }
                    match v {
                        1 => parts.push("P:trap INT i".into()),
                        2 => parts.push("P:trap INT c1".into()),
                        _ => {}
                    }
                    if rng.chance(1, 4) {
                        parts.push("P:opt+ pipefail".into());
                    }
                    for k in kinds {
                        parts.push(format!("K:{k}"));
                    }
                    if rng.chance(1, 3) {
                        parts.push("C:trap EXIT c4".into());
                    }
                    parts.push(format!("C:raise {sig}"));
                    cases.push(parts.join("; "));
                }
            }
        }
    }
    // (1d) an open descriptor ABOVE a lowered soft RLIMIT_NOFILE: a fork copies every open descriptor whatever
    // the limit, so every kind of subshell must enter with fd 20 (and with the lowered limit)
    {
        let mut nests: Vec<Vec<&str>> = KINDS.iter().map(|k| vec![*k]).collect();
        for (i, a) in KINDS.iter().enumerate() {
            for (j, b) in KINDS.iter().enumerate() {
                nests.push(vec![a, b]);
                if o.thorough() || (i + j) % 3 == 0 {
                    nests.push(vec![a, b, KINDS[(i + j + 1) % nk]]);
                }
            }
        }
        for (n, kinds) in nests.iter().enumerate() {
            for lim in ["16", "18"] {
                let mut parts: Vec<String> = vec![];
                if n % 4 == 1 {
                    parts.push("T:1".into());
                    parts.push("P:opt+ monitor".into());
                }
                parts.push(format!("P:{}", ["fdw 20 f1", "fdr 20", "fdd 20 2", "fdw 20 f2"][n % 4]));
                if n % 3 == 0 {
                    parts.push("P:fdw 4 f2".into());
                }
                parts.push(format!("P:nofile {lim}"));
                for k in kinds {
                    parts.push(format!("K:{k}"));
                }
                let mut abs = Abs { limited: true, open: vec!["20".into()], ..Default::default() };
                if n % 4 == 1 {
                    abs.ronly.push("20".into());
                }
                if let Some(op) = gen_op(&mut rng, &mut abs, n % NFAM, 'C') {
                    parts.push(format!("C:{op}"));
                }
                if n % 5 == 0 {
                    parts.push("C:fdc 20".into());
                }
                if n % 7 == 0 {
                    parts.push("C:nofile unlimited".into());
                }
                cases.push(parts.join("; "));
            }
        }
    }
    // (1e) a special built-in that FAILS inside a subshell (the subshell exits with status 2 after ITS OWN exit
    // trap; the starter sees the status only): every way of failing x every kind nest x exit traps of starter / child,
    // at the innermost level and (depth 2) in the middle level; two variants that look alike but succeed
    {
        let fails: [(&[&str], &str); 10] = [
            (&["nofile 16"], "fdw 20 f1"),
            (&["nofile 16"], "fdr 20"),
            (&["nofile 18"], "fdd 20 1"),
            (&["fdw 20 f1", "nofile 16"], "fdw 20 f2"),
            (&["fdr 3"], "fdd 4 3"),
            (&[], "fdd 4 5"),
            (&["opt+ portable"], "opt+ login"),
            (&["opt+ portable"], "opt- posixlycorrect"),
            (&["fdw 20 f1", "nofile 16"], "fdd 3 20"),
            (&["fdw 20 f1", "nofile 16"], "fdc 20"),
        ];
        let mut nests: Vec<Vec<&str>> = KINDS.iter().map(|k| vec![*k]).collect();
        for (i, a) in KINDS.iter().enumerate() {
            for (j, b) in KINDS.iter().enumerate() {
                if o.thorough() || (i + 2 * j) % 3 == 0 {
                    nests.push(vec![a, b]);
                }
            }
        }
        for (n, kinds) in nests.iter().enumerate() {
            for (fi, (pro, op)) in fails.iter().enumerate() {
                for traps in 0..4 {
                    if !o.thorough() && kinds.len() == 2 && (n + fi + traps) % 4 != 0 {
                        continue;
                    }
                    let mut parts: Vec<String> = vec![];
                    if traps & 1 == 1 {
                        parts.push("P:trap EXIT c1".into());
                    }
                    for p in pro.iter() {
                        parts.push(format!("P:{p}"));
                    }
                    for k in kinds {
                        parts.push(format!("K:{k}"));
                    }
                    // in the middle level of a nest of two: level 1 ends before it starts level 2
                    let mid = kinds.len() == 2 && (n + fi) % 2 == 1;
                    let tag = if mid { "M" } else { "C" };
                    if traps & 2 == 2 {
                        parts.push(format!("{tag}:trap EXIT c{}", if mid { 6 } else { 4 }));
                    }
                    parts.push(format!("{tag}:{op}"));
                    parts.push(format!("{tag}:set va 1"));
                    if mid {
                        parts.push("C:set vb two".into());
                    }
                    cases.push(parts.join("; "));
                }
            }
        }
    }
    // (1h) MORE THAN ONE SCHEDULE per program with two concurrently living processes (the starter between `&` and `wait`,
    // and its asynchronous child — which itself may be waiting for subshells of its own): `W:yield` makes the starter
    // block at a chosen point, so the executor runs the child (or part of it) there instead of at `wait $!`.  Every
    // program is run under 5 schedules (no yield; before / between / after the starter's own mutators; two yields); the
    // model's and the Spec's answer do not mention the schedule (only the number of markers), so all five must agree
    // with it — and `A0` with the control run in which the child does nothing.
    {
        let mut nests: Vec<Vec<&str>> = vec![vec!["async"]];
        for k2 in KINDS.iter() {
            nests.push(vec!["async", k2]);
        }
        if o.thorough() {
            for (i, k2) in KINDS.iter().enumerate() {
                for j in 0..3 {
                    nests.push(vec!["async", k2, KINDS[(i + 2 * j + 1) % nk]]);
                }
            }
        }
        // one repetition in both tiers (the thorough tier adds the depth-3 nests and all families per nest): 4
        // repetitions cost ~3 CPU-minutes of the thorough run on a loaded machine
        let reps = 1;
        for rep in 0..reps {
            for (n, kinds) in nests.iter().enumerate() {
                for fam in 0..NFAM {
                    if !o.thorough() && (fam + n) % 3 != 0 {
                        continue;
                    }
                    let (pf, cf, w1, w2) = (pro_fam(&mut rng), rng.below(NFAM), rng.below(NFAM), rng.below(NFAM));
                    let base = gen_case(&mut rng, &[pf], kinds, &[fam, cf], &[w1, w2], rep % 2 == 1, false);
                    let items: Vec<&str> = base.split("; ").collect();
                    let ws: Vec<usize> = items.iter().enumerate().filter(|(_, it)| it.starts_with("W:")).map(|(i, _)| i).collect();
                    let first_w = ws.first().copied().unwrap_or(items.len());
                    let end_w = ws.last().map(|i| i + 1).unwrap_or(items.len());
                    let mid_w = if ws.len() >= 2 { ws[1] } else { end_w };
                    let with = |at: &[usize]| -> String {
                        let mut v: Vec<String> = vec![];
                        for (i, it) in items.iter().enumerate() {
                            for a in at {
                                if *a == i {
                                    v.push("W:yield".into());
                                }
                            }
                            v.push(it.to_string());
                        }
                        for a in at {
                            if *a == items.len() {
                                v.push("W:yield".into());
                            }
                        }
                        v.join("; ")
                    };
                    cases.push(base.clone());
                    cases.push(with(&[first_w]));
                    cases.push(with(&[mid_w]));
                    cases.push(with(&[end_w]));
                    cases.push(with(&[first_w, end_w]));
                }
            }
        }
    }
    // (1i) TWO concurrently running pipeline members that both mutate their own state (`A:` = the first member of the
    // innermost pipeline, `C:` = its last member), under 5 executor schedules each (`yield` = `( : )` at the start /
    // end of either member's mutators, or none): the starter's state afterwards is its state before, whatever the
    // members did and in whatever order
    {
        let pairs: [(&str, &str); 8] = [
            ("A:umask 027; A:cd /d1", "C:umask 077; C:cd /d2"),
            ("A:set va 1; A:export vb two", "C:set va x3; C:readonly vb w4"),
            ("A:fdw 3 f1; A:fdw 4 f2", "C:fdw 3 f2; C:fdc 4"),
            ("A:trap USR1 i; A:trap INT c6", "C:trap USR1 c4; C:trap INT i"),
            ("A:alias A1 1; A:fn F1 b1", "C:alias A1 two; C:fn F1 b2; C:unalias A1"),
            ("A:cd /d1/s; A:fdw 5 f1; A:set vc 1", "C:cd /d1; C:umask 022; C:nofile 16"),
            ("A:umask 022; A:trap TERM i", "C:opt+ allexport; C:set va 1; C:args 1 two; C:shift"),
            ("A:export va 1; A:cd /d2", "C:unset va; C:args 1 two"),
        ];
        let mut nests: Vec<Vec<&str>> = vec![vec!["pipeL"]];
        for k in KINDS.iter() {
            nests.push(vec![k, "pipeL"]);
        }
        for (n, kinds) in nests.iter().enumerate() {
            for (pi, (a, c)) in pairs.iter().enumerate() {
                if !o.thorough() && (n + pi) % 2 == 1 {
                    continue;
                }
                let ks: Vec<String> = kinds.iter().map(|k| format!("K:{k}")).collect();
                let pro = ["P:umask 022", "P:set va two", "P:fdw 3 f2", "P:trap USR1 c1", "P:alias A1 w4", "P:cd /d2", "P:trap TERM c2", "P:args x3"][pi];
                for sched in 0..5 {
                    let (a2, c2) = match sched {
                        0 => (a.to_string(), c.to_string()),
                        1 => (format!("A:yield; {a}"), c.to_string()),
                        2 => (format!("{a}; A:yield"), c.to_string()),
                        3 => (a.to_string(), format!("C:yield; {c}")),
                        _ => (format!("A:yield; {a}; A:yield"), format!("C:yield; {c}; C:yield")),
                    };
                    cases.push(format!("{pro}; {}; {a2}; {c2}", ks.join("; ")));
                }
            }
        }
    }
    // (1j) coverage triage of session 4: `shift` with no positional parameter left (special built-in error: the subshell
    // exits with status 1 after ITS exit trap) at the innermost and at the middle level; a three-member pipeline started
    // with fd 1 closed (`plc`: the `read_previous == Some(Fd::STDOUT)` corner of `move_to_stdin_stdout`) in every kind
    for (i, k) in KINDS.iter().enumerate() {
        let k2 = KINDS[(i + 3) % nk];
        for (v, pro) in ["", "P:args 1; ", "P:trap EXIT c1; P:args 1 two; "].iter().enumerate() {
            let shifts = ["C:shift", "C:shift; C:shift", "C:shift; C:shift; C:shift"][v];
            cases.push(format!("{pro}K:{k}; C:trap EXIT c4; {shifts}; C:set va 1"));
            cases.push(format!("{pro}K:{k}; K:{k2}; M:{}; C:set va 1", shifts.replace("C:", "M:").replace("; ", "; ")));
        }
        for pro in ["", "P:fdw 3 f1; P:nofile 16; ", "T:1; P:opt+ monitor; ", "P:fdc 3; P:trap EXIT c2; "] {
            cases.push(format!("{pro}K:{k}; C:plc; C:set va 1; C:plc"));
            if o.thorough() || pro.is_empty() {
                cases.push(format!("{pro}K:{k2}; K:{k}; M:umask 027; C:umask 077; C:plc"));
            }
        }
    }
    // (1g) EMFILE through the shell: the innermost child lowers its own soft RLIMIT_NOFILE to 4; with descriptors 0-3
    // in use `open` itself fails (`has_unused_fd`), with the target open the saving `dup(target, 10, ..)` fails, a
    // target at or above 4 fails in `dup2`; closing, and re-opening the lowest free descriptor, still work.  Whatever
    // happens, the starter (limit, descriptors, everything) is untouched.
    for (i, k) in KINDS.iter().enumerate() {
        let scripts = [
            "C:nofile 4; C:fdw 3 f1; C:fdr 5",
            "C:fdw 3 f1; C:nofile 4; C:fdw 3 f2",
            "C:fdw 3 f1; C:nofile 4; C:fdc 3; C:fdw 3 f2; C:fdd 5 3",
            "C:nofile 4; C:fdr 3; C:fdd 5 1",
            "C:fdr 3; C:nofile 4; C:fdw 5 f1",
            "C:nofile 4; C:fdw 3 f1; C:umask 027; C:cd /d1; C:nofile unlimited; C:fdw 5 f2",
            // commands that need NEW descriptors, started by the child under its lowered limit: a pipeline and a
            // command substitution need two (`Pipe::pipe`), a here-document one below the limit and one at >= 10
            "C:nofile 4; C:pl; C:set va 1",
            "C:fdw 3 f1; C:nofile 4; C:cs; C:set va 1",
            "C:nofile 4; C:hd; C:pl",
            "C:hd; C:pl; C:cs; C:nofile 4; C:hd; C:cs",
            "C:nofile 16; C:fdw 3 f1; C:hd; C:pl; C:cs; C:umask 027",
        ];
        for (v, sc) in scripts.iter().enumerate() {
            let k2 = KINDS[(i + v + 2) % nk];
            let tr = if v % 2 == 0 { "C:trap EXIT c4; " } else { "" };
            cases.push(format!("K:{k}; {tr}{sc}"));
            if o.thorough() || (i + v) % 3 == 0 {
                cases.push(format!("P:trap EXIT c1; P:fdw 4 f2; K:{k2}; K:{k}; {sc}"));
                cases.push(format!("P:nofile 16; P:fdw 20 f1; K:{k}; K:{k2}; M:set va 1; {tr}{sc}"));
            }
        }
    }
    // (1f) descriptor 10 (`MIN_INTERNAL_FD`): the CLOEXEC terminal descriptor of a job-control shell is a reserved
    // target and source of redirections (the subshell's `exec` fails); occupied by the user, the terminal goes to 11
    // and the saved copies of the redirection engine to the next free one
    for (i, k) in KINDS.iter().enumerate() {
        for (v, op) in ["fdw 10 f1", "fdr 10", "fdc 10", "fdd 3 10"].iter().enumerate() {
            let k2 = KINDS[(i + v + 1) % nk];
            cases.push(format!("T:1; P:opt+ monitor; K:{k}; C:trap EXIT c4; C:{op}; C:set va 1"));
            cases.push(format!("T:1; P:trap EXIT c1; P:fdw 10 f2; P:opt+ monitor; K:{k}; K:{k2}; C:{op}; C:fdw 4 f1"));
            if o.thorough() || v == i % 4 {
                cases.push(format!("P:fdr 10; P:fdw 3 f1; K:{k}; M:{op}; K:{k2}; C:fdc 10"));
                cases.push(format!("T:1; I:1; P:opt+ monitor; K:{k2}; K:{k}; C:{op}"));
            }
        }
    }
    // (2) random programs: longer prologues and child bodies, raises, in-function rendering
    let n = if o.thorough() { 200_000 } else { 4_000 };
    for _ in 0..n {
        let np = rng.below(7);
        let nc = 1 + rng.below(5);
        let pro: Vec<usize> = (0..np).map(|_| pro_fam(&mut rng)).collect();
        let child: Vec<usize> = (0..nc).map(|_| rng.below(NFAM)).collect();
        let nd = rng.below(3);
        let during: Vec<usize> = (0..nd).map(|_| rng.below(NFAM)).collect();
        let k1 = pick(&mut rng, &KINDS);
        let k2 = pick(&mut rng, &KINDS);
        let k3 = pick(&mut rng, &KINDS);
        let kinds: Vec<&str> = match rng.below(6) {
            0 => vec![k1, k2, k3],
            1 | 2 => vec![k1, k2],
            _ => vec![k1],
        };
        let in_fn = rng.chance(1, 4);
        cases.push(gen_case(&mut rng, &pro, &kinds, &child, &during, in_fn, true));
    }
    // (X) raw system calls of several processes on one `SystemState`, arbitrary interleavings
    gen_xcases(&mut rng, o.thorough(), &mut cases);
    for (k, c) in cases.iter().enumerate() {
        if k % o.shard.1 != o.shard.0 {
            continue;
        }
        run(c);
    }
    let _ = ExitStatus::SUCCESS;
}
