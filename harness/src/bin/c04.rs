//! C04 — pattern matching: the real `yash_fnmatch::Pattern` (and, for `s` cases, a whole shell) against
//! the Lean model `m_c04`.
//!
//! Case lines (see /verif/lean/YashModel/Fnmatch/Main.lean):
//!   `m <e|n> <pattern hex> <text hex>`      `e` = `with_escape`, `n` = `without_escape`
//!   `k <subject hex> <item> …`              a whole `case` command run by the shell: item = `<b|f|c>:<alt>,<alt>…`
//!                                           (`;;` `;&` `;;&`), alt = `v<hex>` `$N` | `q<hex>` `"$N"` | `l<hex>` text in the script |
//!                                           `s<hex>` `'text'` | `m<hex>_<hex>` `"$N"$M`; observation: which bodies ran
//!   `s <subject hex> <q1> <p1> <q2> <p2>`   `case $1 in ("$2"$3) …;; ("$4"$5) …;; (*) …` and the four trims
//!                                           of `$1` by `"$2"$3`, run by the shell on the virtual system
//!   `w <subject hex> <word>`                `case $1 in (WORD) …;; (*) …` and the four trims of `$1` by WORD, for a pattern word built
//!                                           from every quoting mechanism (encoding: Main.lean); also observes the attributed
//!                                           characters the real `expand_word_attr` yields for WORD (`X=`)
//!   `f <e|n> <pattern hex> <text hex>`      the regex search at EVERY start offset (through `Pattern::find` on every suffix, for
//!                                           the four configurations without `\A`): the model's `findAt` at that offset
//!   `t <k> <n> <tail hex>`                  `*a` x k + `*b` against `a` x n + tail (n up to several thousand): results by the
//!                                           closed form, and a CPU-time bound on compile + is_match + find + rfind + trims
//! Observation (`m`): error class or `E=ok`, literal fast path flag, `is_match` under the four anchor
//! configurations, `find:rfind` byte ranges under seven (anchor, greed) configurations, `literal_period`
//! variants, and the four trim results.
//! Oracle: an independent direct glob matcher (own bracket parser, backtracking over `?` `*` sets) must agree
//! with `is_match`; brute-force shortest/longest matching prefix/suffix must agree with find/rfind and the
//! trim results.  Patterns outside POSIX's defined notation give `-`.

use yash_fnmatch::ast::{Ast, Atom, Bracket, BracketAtom, BracketItem};
use yash_fnmatch::{Config, Error, Pattern, PatternChar, with_escape, without_escape};
use yverif::proto::{Opts, dec_str, emit, enc_str, guarded, quiet_panics};
use yverif::rng::Rng;

// ------------------------------------------------------------------------------------------
// observation of the real code

fn cfg(ab: bool, ae: bool, sh: bool, lp: bool) -> Config {
    let mut c = Config::default();
    c.anchor_begin = ab;
    c.anchor_end = ae;
    c.shortest_match = sh;
    c.literal_period = lp;
    c
}

fn pchars(esc: bool, p: &str) -> Vec<PatternChar> {
    if esc { with_escape(p).collect() } else { without_escape(p).collect() }
}

fn err_class(e: &Error) -> &'static str {
    match e {
        Error::EmptyBracket => "emptyBracket",
        Error::EmptyCollatingSymbol => "emptyCollating",
        Error::UndefinedCharClass(_) => "undefinedClass",
        Error::CharClassInRange(_) => "classInRange",
        // `regex_error_is_inverted_range`: the only way a text `to_regex` emits can fail in the regex compiler is an
        // inverted range; any other complaint of the regex crate (an unescaped special character, an unclosed
        // class, …) is its own class, which the model never produces
        Error::RegexError(e) => {
            if e.to_string().contains("invalid character class range") { "regex" } else { "regexOther" }
        }
        _ => "other",
    }
}

fn show_range(r: Option<std::ops::Range<usize>>) -> String {
    match r {
        Some(r) => format!("{}-{}", r.start, r.end),
        None => "x".into(),
    }
}

const FIND_CONFIGS: [(bool, bool, bool); 7] = [
    (true, false, true),
    (true, false, false),
    (false, true, true),
    (false, true, false),
    (false, false, false),
    (false, false, true),
    (true, true, false),
];
// (anchor_begin, anchor_end, shortest) of `#` `##` `%` `%%`
const TRIMS: [(bool, bool, bool); 4] =
    [(true, false, true), (true, false, false), (false, true, true), (false, true, false)];

/// `trim_value` of yash-semantics/src/expansion/initial/param/trim.rs (private there; the `s` cases run
/// the original through the shell)
fn trim_value(pattern: &Pattern, value: &mut String) {
    let config = pattern.config();
    let r = if config.anchor_end && config.shortest_match {
        pattern.rfind(value)
    } else {
        pattern.find(value)
    };
    if let Some(range) = r {
        value.drain(range);
    }
}

struct Seen {
    ok: bool,
    m: [bool; 4],
    f: Vec<(Option<std::ops::Range<usize>>, Option<std::ops::Range<usize>>)>,
    t: Vec<String>,
    /// `literal_period` variants: (is_match, find) under (both anchors), (no anchor), (anchor_begin)
    lp: Vec<(bool, Option<std::ops::Range<usize>>)>,
    /// the literal fast path was taken
    lit: bool,
}

/// the ten distinct configurations compiled per pattern: (anchor_begin, anchor_end, shortest, literal_period)
const ALL_CONFIGS: [(bool, bool, bool, bool); 10] = [
    (true, true, false, false),
    (false, false, false, false),
    (true, false, false, false),
    (false, true, false, false),
    (true, false, true, false),
    (false, true, true, false),
    (false, false, true, false),
    (true, true, false, true),
    (false, false, false, true),
    (true, false, false, true),
];

/// One pattern compiled under every configuration (memoised per pattern: the generators emit runs of
/// texts for the same pattern).
struct Compiled {
    key: (bool, String),
    pats: Result<Vec<Pattern>, &'static str>,
    /// the intermediate stages, observed on every case: ` S=<syntax tree> R=<regex text, both anchors>,<no anchor>`
    stages: String,
}

/// canonical text of a syntax tree, in the notation of the `a` cases (inverse of `parse_ast`)
fn show_ast(ast: &Ast) -> String {
    fn batom(a: &BracketAtom) -> String {
        match a {
            BracketAtom::Char(c) => format!("c{}", enc_str(&c.to_string())),
            BracketAtom::CollatingSymbol(v) => format!("s{}", enc_str(v)),
            BracketAtom::EquivalenceClass(v) => format!("e{}", enc_str(v)),
            BracketAtom::CharClass(v) => format!("k{}", enc_str(v)),
        }
    }
    if ast.atoms.is_empty() {
        return "-".into();
    }
    let atoms: Vec<String> = ast
        .atoms
        .iter()
        .map(|a| match a {
            Atom::Char(c) => format!("c{}", enc_str(&c.to_string())),
            Atom::AnyChar => "?".into(),
            Atom::AnyString => "*".into(),
            Atom::Bracket(b) => {
                let items: Vec<String> = b
                    .items
                    .iter()
                    .map(|it| match it {
                        BracketItem::Atom(a) => format!("a{}", batom(a)),
                        BracketItem::Range(r) => format!("r{}~{}", batom(r.start()), batom(r.end())),
                    })
                    .collect();
                format!("b{}({})", if b.complement { 1 } else { 0 }, items.join(";"))
            }
        })
        .collect();
    atoms.join(",")
}

/// parser output and translator output of the real code (`Ast::new` is the caller's, `Ast::to_regex` is called
/// here also for literal patterns, which `from_ast_and_config` never translates)
fn show_stages(ast: &Ast) -> String {
    let re = |c: Config| match ast.to_regex(&c) {
        Ok(r) => enc_str(&r),
        Err(e) => format!("!{}", err_class(&e)),
    };
    format!(" S={} R={},{}", show_ast(ast), re(cfg(true, true, false, false)), re(Config::default()))
}

/// Compiles under every configuration.  The all-default configuration goes through the short entry point
/// (`Pattern::parse` / `Pattern::from_ast`), the others through the `*_with_config` one.
fn compile_with(key: (bool, String), ast: &Ast, build: impl Fn(Option<Config>) -> Result<Pattern, Error>) -> Compiled {
    let stages = show_stages(ast);
    let mut v = vec![];
    for (ab, ae, sh, lp) in ALL_CONFIGS {
        let c = if (ab, ae, sh, lp) == (false, false, false, false) { None } else { Some(cfg(ab, ae, sh, lp)) };
        match build(c) {
            Ok(pat) => v.push(pat),
            Err(e) => return Compiled { key, pats: Err(err_class(&e)), stages },
        }
    }
    Compiled { key, pats: Ok(v), stages }
}

fn compile(esc: bool, p: &str) -> Compiled {
    let pcs = pchars(esc, p);
    compile_with((esc, p.to_string()), &Ast::new(pcs.iter().copied()), |c| match c {
        None => Pattern::parse(pcs.iter().copied()),
        Some(c) => Pattern::parse_with_config(pcs.iter().copied(), c),
    })
}

fn compile_ast(key: &str, ast: &Ast) -> Compiled {
    compile_with((false, format!("ast:{key}")), ast, |c| match c {
        None => Pattern::from_ast(ast),
        Some(c) => Pattern::from_ast_and_config(ast, c),
    })
}

/// `as_literal`, `into_literal` (the entry `glob.rs` uses, under its own configuration: both anchors +
/// `literal_period`) and `Ast::is_literal` / `to_literal` must tell the same story; `want` = the literal string
/// if the independent parser sees only ordinary characters.
fn literal_api_check(comp: &Compiled, ast: &Ast, want: Option<Option<String>>) -> Option<String> {
    let pats = comp.pats.as_ref().ok()?;
    let a = pats[0].as_literal().map(|s| s.to_string());
    let glob_cfg = pats[7].clone().into_literal().ok();
    let plain = pats[1].clone().into_literal().ok();
    let b = ast.to_literal();
    if a != glob_cfg || a != plain || a != b || ast.is_literal() != a.is_some() {
        return Some("FAIL:as_literal/into_literal/is_literal/to_literal disagree".into());
    }
    if let Some(w) = want {
        if w != a {
            return Some(format!("FAIL:literal {a:?} want {w:?}"));
        }
    }
    None
}

fn observe(comp: &Compiled, text: &str) -> (String, Option<Seen>) {
    let pats = match &comp.pats {
        Err(e) => return (format!("E={e}{}", comp.stages), None),
        Ok(v) => v,
    };
    let get = |ab: bool, ae: bool, sh: bool, lp: bool| -> &Pattern {
        &pats[ALL_CONFIGS.iter().position(|c| *c == (ab, ae, sh, lp)).unwrap()]
    };
    let lit = get(true, true, false, false).as_literal().is_some();
    let mut m = [false; 4];
    let mut ms = String::new();
    for (i, (ab, ae)) in [(true, true), (false, false), (true, false), (false, true)].iter().enumerate() {
        m[i] = get(*ab, *ae, false, false).is_match(text);
        ms.push(if m[i] { '1' } else { '0' });
    }
    let mut f = vec![];
    let mut fs = vec![];
    for (ab, ae, sh) in FIND_CONFIGS {
        let pat = get(ab, ae, sh, false);
        let a = pat.find(text);
        let b = pat.rfind(text);
        fs.push(format!("{}:{}", show_range(a.clone()), show_range(b.clone())));
        f.push((a, b));
    }
    let mut ps = vec![];
    let mut lp = vec![];
    for (ab, ae) in [(true, true), (false, false), (true, false)] {
        let pat = get(ab, ae, false, true);
        let (m, f) = (pat.is_match(text), pat.find(text));
        ps.push(format!("{}{}", if m { 1 } else { 0 }, show_range(f.clone())));
        lp.push((m, f));
    }
    let mut t = vec![];
    for (ab, ae, sh) in TRIMS {
        let mut v = text.to_string();
        trim_value(get(ab, ae, sh, false), &mut v);
        t.push(v);
    }
    let ts: Vec<String> = t.iter().map(|s| enc_str(s)).collect();
    let obs = format!(
        "E=ok L={} M={} F={} P={} T={}{}",
        if lit { 1 } else { 0 },
        ms,
        fs.join(","),
        ps.join(","),
        ts.join(","),
        comp.stages
    );
    (obs, Some(Seen { ok: true, m, f, t, lp, lit }))
}

// ------------------------------------------------------------------------------------------
// oracle: an independent glob matcher

#[derive(Clone, Debug)]
enum SetItem {
    One(char),
    Range(char, char),
    Class(fn(char) -> bool),
}

#[derive(Clone, Debug)]
enum Tok {
    Lit(char),
    Any,
    Star,
    Set { neg: bool, items: Vec<SetItem>, seqs: Vec<Vec<char>> },
}

fn class_fn(name: &str) -> Option<fn(char) -> bool> {
    Some(match name {
        "alnum" => |c: char| c.is_ascii_alphanumeric(),
        "alpha" => |c: char| c.is_ascii_alphabetic(),
        "blank" => |c: char| c == ' ' || c == '\t',
        "cntrl" => |c: char| c.is_ascii_control(),
        "digit" => |c: char| c.is_ascii_digit(),
        "graph" => |c: char| c.is_ascii_graphic(),
        "lower" => |c: char| c.is_ascii_lowercase(),
        "print" => |c: char| c.is_ascii_graphic() || c == ' ',
        "punct" => |c: char| c.is_ascii_punctuation(),
        "space" => |c: char| matches!(c, ' ' | '\t' | '\n' | '\r' | '\x0b' | '\x0c'),
        "upper" => |c: char| c.is_ascii_uppercase(),
        "xdigit" => |c: char| c.is_ascii_hexdigit(),
        _ => return None,
    })
}

/// (char, quoted)
type Pc = (char, bool);

fn to_pcs(esc: bool, p: &str) -> Vec<Pc> {
    let cs: Vec<char> = p.chars().collect();
    let mut out = vec![];
    let mut i = 0;
    while i < cs.len() {
        if esc && cs[i] == '\\' {
            if i + 1 < cs.len() {
                out.push((cs[i + 1], true));
            }
            i += 2;
        } else {
            out.push((cs[i], false));
            i += 1;
        }
    }
    out
}

enum Member {
    Ch(char),
    Seq(Vec<char>),
    Class(fn(char) -> bool),
}

/// One bracket member starting at `i` (not the closing bracket).  `Err(())` = undefined notation.
fn member(p: &[Pc], i: usize) -> Result<(Member, usize), ()> {
    let un = |k: usize, c: char| k < p.len() && p[k] == (c, false);
    if un(i, '[') && i + 1 < p.len() && !p[i + 1].1 && matches!(p[i + 1].0, '.' | '=' | ':') {
        let d = p[i + 1].0;
        // closing `d]`, both unquoted, not before i+2.. (the delimiter pair may follow immediately)
        let mut k = i + 2;
        while k + 1 < p.len() {
            if un(k, d) && un(k + 1, ']') {
                let body: Vec<char> = p[i + 2..k].iter().map(|x| x.0).collect();
                if d == ':' {
                    let name: String = body.iter().collect();
                    return match class_fn(&name) {
                        Some(f) => Ok((Member::Class(f), k + 2)),
                        None => Err(()),
                    };
                }
                return match body.len() {
                    0 => Err(()),
                    1 => Ok((Member::Ch(body[0]), k + 2)),
                    _ => Ok((Member::Seq(body), k + 2)),
                };
            }
            k += 1;
        }
    }
    Ok((Member::Ch(p[i].0), i + 1))
}

/// Bracket expression whose `[` is at `start`; `Ok(None)` = unclosed (the `[` is literal).
fn bracket(p: &[Pc], start: usize) -> Result<Option<(Tok, usize)>, ()> {
    let un = |k: usize, c: char| k < p.len() && p[k] == (c, false);
    let mut i = start + 1;
    let mut neg = false;
    if un(i, '!') || un(i, '^') {
        neg = true;
        i += 1;
    }
    let mut items = vec![];
    let mut seqs = vec![];
    let mut count = 0;
    let mut undefined = false;
    loop {
        if i >= p.len() {
            return Ok(None);
        }
        if un(i, ']') && count > 0 {
            if undefined {
                return Err(());
            }
            return Ok(Some((Tok::Set { neg, items, seqs }, i + 1)));
        }
        let (m, j) = match member(p, i) {
            Ok(x) => x,
            Err(()) => {
                // undefined member: find its extent the same way to keep scanning for the close
                undefined = true;
                // skip the `[d … d]` group
                let d = p[i + 1].0;
                let mut k = i + 2;
                while !(un(k, d) && un(k + 1, ']')) {
                    k += 1;
                }
                (Member::Ch('\0'), k + 2)
            }
        };
        count += 1;
        // range?  an unquoted '-' followed by something that is not the closing bracket
        if un(j, '-') && j + 1 < p.len() && !un(j + 1, ']') {
            let (m2, j2) = match member(p, j + 1) {
                Ok(x) => x,
                Err(()) => {
                    undefined = true;
                    let d = p[j + 2].0;
                    let mut k = j + 3;
                    while !(un(k, d) && un(k + 1, ']')) {
                        k += 1;
                    }
                    (Member::Ch('\0'), k + 2)
                }
            };
            let lo = match &m {
                Member::Ch(c) => Some(*c),
                Member::Seq(v) => Some(v[0]),
                Member::Class(_) => None,
            };
            let hi = match &m2 {
                Member::Ch(c) => Some(*c),
                Member::Seq(v) => Some(v[0]),
                Member::Class(_) => None,
            };
            match (lo, hi) {
                (Some(a), Some(b)) if a <= b => items.push(SetItem::Range(a, b)),
                _ => undefined = true,
            }
            i = j2;
            continue;
        }
        match m {
            Member::Ch(c) => items.push(SetItem::One(c)),
            Member::Seq(v) => seqs.push(v),
            Member::Class(f) => items.push(SetItem::Class(f)),
        }
        i = j;
    }
}

/// `None` = the pattern is outside the defined notation
fn oracle_parse(p: &[Pc]) -> Option<Vec<Tok>> {
    let mut out = vec![];
    let mut i = 0;
    while i < p.len() {
        let (c, q) = p[i];
        if q {
            out.push(Tok::Lit(c));
            i += 1;
        } else if c == '?' {
            out.push(Tok::Any);
            i += 1;
        } else if c == '*' {
            out.push(Tok::Star);
            i += 1;
        } else if c == '[' {
            match bracket(p, i) {
                Err(()) => return None,
                Ok(Some((t, j))) => {
                    out.push(t);
                    i = j;
                }
                Ok(None) => {
                    out.push(Tok::Lit('['));
                    i += 1;
                }
            }
        } else {
            out.push(Tok::Lit(c));
            i += 1;
        }
    }
    Some(out)
}

fn in_set(items: &[SetItem], c: char) -> bool {
    items.iter().any(|it| match it {
        SetItem::One(a) => *a == c,
        SetItem::Range(a, b) => *a <= c && c <= *b,
        SetItem::Class(f) => f(c),
    })
}

fn gm(toks: &[Tok], s: &[char]) -> bool {
    match toks.first() {
        None => s.is_empty(),
        Some(Tok::Lit(c)) => !s.is_empty() && s[0] == *c && gm(&toks[1..], &s[1..]),
        Some(Tok::Any) => !s.is_empty() && gm(&toks[1..], &s[1..]),
        Some(Tok::Star) => (0..=s.len()).any(|k| gm(&toks[1..], &s[k..])),
        Some(Tok::Set { neg, items, seqs }) => {
            if !s.is_empty() && (in_set(items, s[0]) != *neg) && gm(&toks[1..], &s[1..]) {
                return true;
            }
            !*neg && seqs.iter().any(|v| s.starts_with(v) && gm(&toks[1..], &s[v.len()..]))
        }
    }
}

fn oracle(esc: bool, p: &str, text: &str, seen: &Seen) -> String {
    let pcs = to_pcs(esc, p);
    let Some(toks) = oracle_parse(&pcs) else { return "-".into() };
    oracle_toks(&toks, text, seen)
}

fn lit_of_toks(toks: &[Tok]) -> Option<String> {
    toks.iter().map(|t| if let Tok::Lit(c) = t { Some(*c) } else { None }).collect()
}

fn oracle_toks(toks: &[Tok], text: &str, seen: &Seen) -> String {
    if !seen.ok {
        return "-".into();
    }
    let s: Vec<char> = text.chars().collect();
    let n = s.len();
    let off: Vec<usize> = text.char_indices().map(|x| x.0).chain([text.len()]).collect();
    let whole = gm(toks, &s);
    if whole != seen.m[0] {
        return format!("FAIL:is_match={} glob={}", seen.m[0], whole);
    }
    let any_sub = (0..=n).any(|i| (i..=n).any(|j| gm(toks, &s[i..j])));
    let prefixes: Vec<usize> = (0..=n).filter(|&k| gm(toks, &s[..k])).collect();
    let suffixes: Vec<usize> = (0..=n).filter(|&k| gm(toks, &s[k..])).collect();
    if any_sub != seen.m[1] || !prefixes.is_empty() != seen.m[2] || !suffixes.is_empty() != seen.m[3] {
        return "FAIL:unanchored/half-anchored is_match".into();
    }
    // Multi-character collating elements are outside the defined notation (the POSIX locale has none):
    // which of `a` / `ab` a bracket takes first is unspecified, so extremality is not judged for them.
    // (on the prefix side; the leftmost / rightmost matching START does not depend on it, so the suffix
    // configurations are judged for every pattern)
    let has_seq = toks.iter().any(|t| matches!(t, Tok::Set { seqs, .. } if !seqs.is_empty()));
    // find / rfind of the four trim configurations
    let want: [Option<std::ops::Range<usize>>; 4] = [
        prefixes.first().map(|&k| 0..off[k]),
        prefixes.last().map(|&k| 0..off[k]),
        suffixes.last().map(|&k| off[k]..text.len()),
        suffixes.first().map(|&k| off[k]..text.len()),
    ];
    for i in 0..4 {
        if has_seq && i < 2 {
            continue;
        }
        let got = if i == 2 { &seen.f[i].1 } else { &seen.f[i].0 };
        if *got != want[i] {
            return format!("FAIL:find config {i} got {got:?} want {:?}", want[i]);
        }
        let mut v = text.to_string();
        if let Some(r) = want[i].clone() {
            v.drain(r);
        }
        if v != seen.t[i] {
            return format!("FAIL:trim {i}");
        }
    }
    // `literal_period` (XCU 2.13.3): a leading period of the text is matched only by a period written first in the
    // pattern.  Both anchors (glob's configuration): the whole text must match and obey the rule.  Without
    // `anchor_end` / any anchor the real code searches from index 1 instead (on the regex path only).
    let lead_dot_rejected = s.first() == Some(&'.') && !matches!(toks.first(), Some(Tok::Lit('.')));
    if seen.lp[0].0 != (whole && !lead_dot_rejected) {
        return format!("FAIL:literal_period is_match={} glob={} rejected={}", seen.lp[0].0, whole, lead_dot_rejected);
    }
    let a0 = if lead_dot_rejected && !seen.lit { 1 } else { 0 };
    let lp_any = (a0..=n).any(|i| (i..=n).any(|j| gm(toks, &s[i..j])));
    let lp_prefix = a0 == 0 && !prefixes.is_empty();
    if seen.lp[1].0 != lp_any || seen.lp[2].0 != lp_prefix {
        return "FAIL:literal_period unanchored/half-anchored is_match".into();
    }
    for (m, f) in &seen.lp {
        if *m != f.is_some() {
            return "FAIL:literal_period is_match vs find".into();
        }
    }
    // any reported range is a match, the find start is leftmost and the rfind start rightmost — for every pattern,
    // also with multi-character elements (`find_leftmost` / `rfind_rightmost`)
    for (i, (a, b)) in seen.f.iter().enumerate() {
        let (ab, ae, _) = FIND_CONFIGS[i];
        let starts: Vec<usize> = (0..=n)
            .filter(|&i| (i..=n).any(|j| (!ab || i == 0) && (!ae || j == n) && gm(toks, &s[i..j])))
            .collect();
        for (r, want_start) in [(a, starts.first()), (b, starts.last())] {
            match (r, want_start) {
                (None, None) => {}
                (Some(r), Some(&st)) => {
                    let (Some(ci), Some(cj)) =
                        (off.iter().position(|&o| o == r.start), off.iter().position(|&o| o == r.end))
                    else {
                        return "FAIL:range not on char boundary".into();
                    };
                    if ci != st || ci > cj || !gm(toks, &s[ci..cj]) || (ae && cj != n) {
                        return format!("FAIL:range {r:?} of config {i} is not an extremal match");
                    }
                }
                _ => return format!("FAIL:find/rfind presence config {i}"),
            }
        }
    }
    "ok".into()
}

// ------------------------------------------------------------------------------------------
// hand-built syntax trees (`a` cases): the `from_ast*` entry points on trees the parser cannot produce too

fn parse_batom(t: &str) -> Option<BracketAtom> {
    let (k, h) = t.split_at(1);
    let v = dec_str(h)?;
    Some(match k {
        "c" => {
            let mut it = v.chars();
            let c = it.next()?;
            if it.next().is_some() {
                return None;
            }
            BracketAtom::from(c)
        }
        "s" => BracketAtom::CollatingSymbol(v),
        "e" => BracketAtom::EquivalenceClass(v),
        "k" => BracketAtom::CharClass(v),
        _ => return None,
    })
}

fn parse_bitem(t: &str) -> Option<BracketItem> {
    let (k, r) = t.split_at(1);
    match k {
        "a" => Some(BracketItem::from(parse_batom(r)?)),
        "r" => {
            let (a, b) = r.split_once('~')?;
            Some(BracketItem::from(parse_batom(a)?..=parse_batom(b)?))
        }
        _ => None,
    }
}

fn parse_ast(t: &str) -> Option<Ast> {
    let mut atoms = vec![];
    if t == "-" {
        return Some(Ast { atoms });
    }
    for a in t.split(',') {
        atoms.push(match a {
            "?" => Atom::AnyChar,
            "*" => Atom::AnyString,
            _ if a.starts_with('c') => {
                let v = dec_str(&a[1..])?;
                let mut it = v.chars();
                let c = it.next()?;
                if it.next().is_some() {
                    return None;
                }
                Atom::Char(c)
            }
            _ if a.starts_with('b') => {
                let complement = a[1..].starts_with('1');
                let body = a.get(3..a.len().checked_sub(1)?)?;
                let items: Option<Vec<BracketItem>> =
                    if body.is_empty() { Some(vec![]) } else { body.split(';').map(parse_bitem).collect() };
                Atom::Bracket(Bracket { complement, items: items? })
            }
            _ => return None,
        });
    }
    Some(Ast { atoms })
}

/// the independent matcher's view of a tree; `None` = outside the defined notation
fn ast_toks(ast: &Ast) -> Option<Vec<Tok>> {
    let bound = |a: &BracketAtom| -> Option<char> {
        match a {
            BracketAtom::Char(c) => Some(*c),
            BracketAtom::CollatingSymbol(v) | BracketAtom::EquivalenceClass(v) => v.chars().next(),
            BracketAtom::CharClass(_) => None,
        }
    };
    let mut out = vec![];
    for a in &ast.atoms {
        out.push(match a {
            Atom::Char(c) => Tok::Lit(*c),
            Atom::AnyChar => Tok::Any,
            Atom::AnyString => Tok::Star,
            Atom::Bracket(b) => {
                if b.items.is_empty() {
                    return None;
                }
                let mut items = vec![];
                let mut seqs = vec![];
                for it in &b.items {
                    match it {
                        BracketItem::Atom(BracketAtom::Char(c)) => items.push(SetItem::One(*c)),
                        BracketItem::Atom(BracketAtom::CollatingSymbol(v))
                        | BracketItem::Atom(BracketAtom::EquivalenceClass(v)) => {
                            let cs: Vec<char> = v.chars().collect();
                            match cs.len() {
                                0 => return None,
                                1 => items.push(SetItem::One(cs[0])),
                                _ => seqs.push(cs),
                            }
                        }
                        BracketItem::Atom(BracketAtom::CharClass(n)) => items.push(SetItem::Class(class_fn(n)?)),
                        BracketItem::Range(r) => {
                            let (lo, hi) = (bound(r.start())?, bound(r.end())?);
                            if lo > hi {
                                return None;
                            }
                            items.push(SetItem::Range(lo, hi));
                        }
                    }
                }
                Tok::Set { neg: b.complement, items, seqs }
            }
        });
    }
    Some(out)
}

fn rand_batom(r: &mut Rng) -> String {
    let ch = |r: &mut Rng| enc_str(&rand_char(r).to_string());
    match r.below(10) {
        0..=4 => format!("c{}", ch(r)),
        5 => format!("s{}", ch(r)),
        6 => format!("e{}", ch(r)),
        7 => {
            let n = r.below(4);
            let v: String = (0..n).map(|_| rand_char(r)).collect();
            format!("{}{}", if r.chance(1, 2) { "s" } else { "e" }, enc_str(&v))
        }
        _ => format!("k{}", enc_str(r.pick(&CLASS_NAMES))),
    }
}

fn rand_ast_case(r: &mut Rng) -> String {
    let mut atoms = vec![];
    let mut chars = String::from("ab");
    for _ in 0..r.below(5) {
        atoms.push(match r.below(10) {
            0 | 1 => "*".to_string(),
            2 => "?".to_string(),
            3..=5 => {
                let c = rand_char(r);
                chars.push(c);
                format!("c{}", enc_str(&c.to_string()))
            }
            _ => {
                let n = if r.chance(1, 12) { 0 } else { 1 + r.below(4) };
                let items: Vec<String> = (0..n)
                    .map(|_| {
                        if r.chance(1, 4) {
                            format!("r{}~{}", rand_batom(r), rand_batom(r))
                        } else {
                            format!("a{}", rand_batom(r))
                        }
                    })
                    .collect();
                format!("b{}({})", if r.chance(1, 3) { 1 } else { 0 }, items.join(";"))
            }
        });
    }
    let ast = if atoms.is_empty() { "-".to_string() } else { atoms.join(",") };
    let t = rand_text(r, &chars);
    format!("a {} {}", ast, enc_str(&t))
}

// ------------------------------------------------------------------------------------------
// shell leg

fn run_shell(subj: &str, q1: &str, p1: &str, q2: &str, p2: &str) -> String {
    let script = "case $1 in (\"$2\"$3) echo 1;; (\"$4\"$5) echo 2;; (*) echo 0;; esac\n\
                  a=${1#\"$2\"$3} b=${1##\"$2\"$3} c=${1%\"$2\"$3} d=${1%%\"$2\"$3}\n\
                  probe \"$a\" \"$b\" \"$c\" \"$d\"\n\
                  s=$1 q=$2 p=$3\n\
                  set -- \"$s\" \"x$s\" \"$s$s\" \"\"\n\
                  probe \"${@#\"$q\"$p}\"\nprobe \"${@##\"$q\"$p}\"\nprobe \"${@%\"$q\"$p}\"\nprobe \"${@%%\"$q\"$p}\"\n";
    let mut config = yverif::shell::Config::new(script);
    config.positional_params = [subj, q1, p1, q2, p2].iter().map(|s| s.to_string()).collect();
    let (out, _) = yverif::shell::run_with(config, |_, _| (), |_, _| ());
    if out.stuck {
        return "TIMEOUT".into();
    }
    let text = out.stdout_str();
    let mut lines = text.lines();
    let arm = lines.next().unwrap_or("none").to_string();
    let probe = lines.next().unwrap_or("");
    let t = probe.split_once(':').map(|x| x.1).unwrap_or("?");
    // the Array arm of `trim::apply`: four positional parameters trimmed at once
    let arrays: Vec<String> =
        lines.take(4).map(|l| l.split_once(':').map(|x| x.1).unwrap_or("?").to_string()).collect();
    format!("arm={arm} T={t} A={}", arrays.join("/"))
}

/// The property's trim clause evaluated on what the shell printed: `"$2"$3` as a pattern, brute-force
/// shortest/longest matching prefix/suffix of the scalar and of the four array elements.  Prefix results are
/// judged only without multi-character collating elements.
fn shell_trim_oracle(subj: &str, q: &str, p: &str, obs: &str) -> String {
    let pcs = alt_pcs(&Alt::Mixed(q.to_string(), p.to_string()));
    let Some(toks) = oracle_parse(&pcs) else { return "-".into() };
    let has_seq = toks.iter().any(|t| matches!(t, Tok::Set { seqs, .. } if !seqs.is_empty()));
    let trim = |v: &str, i: usize| -> String {
        let s: Vec<char> = v.chars().collect();
        let n = s.len();
        let pre: Vec<usize> = (0..=n).filter(|&k| gm(&toks, &s[..k])).collect();
        let suf: Vec<usize> = (0..=n).filter(|&k| gm(&toks, &s[k..])).collect();
        match i {
            0 => pre.first().map(|&k| s[k..].iter().collect()).unwrap_or(v.to_string()),
            1 => pre.last().map(|&k| s[k..].iter().collect()).unwrap_or(v.to_string()),
            2 => suf.last().map(|&k| s[..k].iter().collect()).unwrap_or(v.to_string()),
            _ => suf.first().map(|&k| s[..k].iter().collect()).unwrap_or(v.to_string()),
        }
    };
    let field = |name: &str| -> Option<String> {
        obs.split(' ').find_map(|w| w.strip_prefix(name).map(|x| x.to_string()))
    };
    let (Some(t), Some(a)) = (field("T="), field("A=")) else { return "-".into() };
    let t: Vec<&str> = t.split(',').collect();
    let a: Vec<Vec<&str>> = a.split('/').map(|x| x.split(',').collect()).collect();
    let arr = [subj.to_string(), format!("x{subj}"), format!("{subj}{subj}"), String::new()];
    for i in 0..4 {
        if has_seq && i < 2 {
            continue;
        }
        if t.get(i).map(|x| x.to_string()) != Some(enc_str(&trim(subj, i))) {
            return format!("FAIL:scalar trim {i} want {}", enc_str(&trim(subj, i)));
        }
        for (j, v) in arr.iter().enumerate() {
            if a.get(i).and_then(|r| r.get(j)).map(|x| x.to_string()) != Some(enc_str(&trim(v, i))) {
                return format!("FAIL:array trim {i} element {j} want {}", enc_str(&trim(v, i)));
            }
        }
    }
    "ok".into()
}

/// patterns WITHOUT `*` whose matches have different lengths: brackets with a multi-character collating
/// symbol / equivalence class next to one of its own characters, alone and beside `?` and ordinary characters
fn variable_length_patterns(x: char, y: char) -> Vec<String> {
    vec![
        format!("[[.{x}{y}.]{y}]"),
        format!("[[.{x}{y}.]{x}]"),
        format!("[[={x}{y}=]{y}]"),
        format!("[{y}[.{x}{y}.]]"),
        format!("?[[.{x}{y}.]{y}]"),
        format!("[[.{x}{y}.]{x}]?"),
        format!("[[.{x}{y}.]{y}][[.{x}{y}.]{y}]"),
        format!("a[[.{x}{y}.]{x}{y}]"),
        format!("[[.{x}{y}{y}.][={x}{y}=]{y}]"),
    ]
}

// ------------------------------------------------------------------------------------------
// shell leg 2: whole `case` commands (items x alternatives, broken patterns, quoting, continuations)

#[derive(Clone, Debug)]
enum Alt {
    Var(String),          // $N
    Quoted(String),       // "$N"
    Lit(String),          // text written in the script (safe alphabet, backslash quotes)
    Single(String),       // 'text'
    Mixed(String, String), // "$N"$M
    ExpErr,               // ${u?}: the expansion of this alternative fails
    Word(Vec<WUnit>),     // a pattern word built from every quoting mechanism (the `w` cases' encoding)
}

fn parse_alt(t: &str) -> Option<Alt> {
    if t == "x" {
        return Some(Alt::ExpErr);
    }
    let (m, h) = t.split_at(1);
    Some(match m {
        "w" => Alt::Word(parse_word(h, 0)?),
        "v" => Alt::Var(dec_str(h)?),
        "q" => Alt::Quoted(dec_str(h)?),
        "l" => Alt::Lit(dec_str(h)?),
        "s" => Alt::Single(dec_str(h)?),
        "m" => {
            let (a, b) = h.split_once('_')?;
            Alt::Mixed(dec_str(a)?, dec_str(b)?)
        }
        _ => return None,
    })
}

fn show_alt(a: &Alt) -> String {
    match a {
        Alt::Var(s) => format!("v{}", enc_str(s)),
        Alt::Quoted(s) => format!("q{}", enc_str(s)),
        Alt::Lit(s) => format!("l{}", enc_str(s)),
        Alt::Single(s) => format!("s{}", enc_str(s)),
        Alt::Mixed(a, b) => format!("m{}_{}", enc_str(a), enc_str(b)),
        Alt::ExpErr => "x".to_string(),
        Alt::Word(w) => format!("w{}", enc_word(w, 0)),
    }
}

/// pattern characters the way the shell sees an unquoted expansion / unquoted script text:
/// a backslash quotes the next character, a trailing backslash stands for itself
fn pcs_unquoted(text: &str) -> Vec<Pc> {
    let cs: Vec<char> = text.chars().collect();
    let mut out = vec![];
    let mut i = 0;
    while i < cs.len() {
        if cs[i] == '\\' && i + 1 < cs.len() {
            out.push((cs[i + 1], true));
            i += 2;
        } else {
            out.push((cs[i], false));
            i += 1;
        }
    }
    out
}

fn alt_pcs(a: &Alt) -> Vec<Pc> {
    match a {
        Alt::Var(s) | Alt::Lit(s) => pcs_unquoted(s),
        Alt::Quoted(s) | Alt::Single(s) => s.chars().map(|c| (c, true)).collect(),
        Alt::Mixed(q, p) => q.chars().map(|c| (c, true)).chain(pcs_unquoted(p)).collect(),
        Alt::ExpErr => vec![],
        Alt::Word(w) => {
            let mut ms = vec![];
            word_marks(w, false, &mut ms, &mut false);
            marks_to_pcs(&ms)
        }
    }
}

/// Runs the `case` command; returns (observation, oracle).
fn run_case_command(subj: Option<&str>, items: &[(char, char, Vec<Alt>)]) -> (String, String) {
    let subj_err = subj.is_none();
    let subj = subj.unwrap_or("");
    let mut params = vec![subj.to_string()];
    // entered with `$?` = 7 so that the status the command leaves is its own doing
    // every eighth command runs under xtrace (case.rs `trace_subject`; the trace goes to stderr, nothing observed
    // may change)
    let xtrace = (subj.len() + items.iter().map(|(_, _, a)| a.len()).sum::<usize>() + items.len()) % 8 == 0;
    let mut script = String::from(if xtrace { "set -x\n" } else { "" });
    script.push_str(if subj_err { "st 7\ncase ${u?} in " } else { "st 7\ncase $1 in " });
    for (k, (cont, body, alts)) in items.iter().enumerate() {
        script.push('(');
        for (j, a) in alts.iter().enumerate() {
            if j > 0 {
                script.push('|');
            }
            match a {
                Alt::Var(s) => {
                    params.push(s.clone());
                    script.push_str(&format!("${{{}}}", params.len()));
                }
                Alt::Quoted(s) => {
                    params.push(s.clone());
                    script.push_str(&format!("\"${{{}}}\"", params.len()));
                }
                Alt::Lit(s) => script.push_str(s),
                Alt::Single(s) => script.push_str(&format!("'{s}'")),
                Alt::Mixed(q, p) => {
                    params.push(q.clone());
                    script.push_str(&format!("\"${{{}}}\"", params.len()));
                    params.push(p.clone());
                    script.push_str(&format!("${{{}}}", params.len()));
                }
                Alt::ExpErr => script.push_str("${u?}"),
                Alt::Word(w) => script.push_str(&word_script(w, &mut params)),
            }
        }
        script.push_str(&match body {
            'z' => ") ".to_string(),
            's' => format!(") echo {}; st 5 ", k + 1),
            _ => format!(") echo {} ", k + 1),
        });
        script.push_str(match cont {
            'f' => ";&",
            'c' => ";;&",
            _ => ";;",
        });
        script.push(' ');
    }
    script.push_str("esac\necho st=$?\n");
    let mut config = yverif::shell::Config::new(&script);
    config.positional_params = params;
    let (out, _) = yverif::shell::run_with(config, |_, _| (), |_, _| ());
    if out.stuck {
        return ("TIMEOUT".into(), "-".into());
    }
    let text = out.stdout_str();
    let mut ran = vec![];
    let mut st = String::from("st=?");
    for l in text.lines() {
        if l.starts_with("st=") {
            st = l.to_string();
        } else {
            ran.push(l.to_string());
        }
    }
    let obs = format!("run={} {}", if ran.is_empty() { "-".to_string() } else { ran.join(".") }, st);

    // oracle: the property's clause evaluated with the independent matcher — the first item one of whose
    // alternatives is a defined pattern denoting the subject runs; `;&` falls through, `;;&` goes on testing
    let s: Vec<char> = subj.chars().collect();
    // Some(hit) / None = an alternative whose expansion fails was reached (alternatives after a match are not
    // expanded)
    let item_hit = |alts: &Vec<Alt>| -> Option<bool> {
        for a in alts {
            if matches!(a, Alt::ExpErr) {
                return None;
            }
            if let Some(toks) = oracle_parse(&alt_pcs(a)) {
                if gm(&toks, &s) {
                    return Some(true);
                }
            }
        }
        Some(false)
    };
    let mut want = vec![];
    let mut falling = false;
    let mut status = "0";
    if subj_err {
        status = "?";
    } else {
        for (k, (cont, body, alts)) in items.iter().enumerate() {
            let hit = if falling { Some(true) } else { item_hit(alts) };
            match hit {
                None => {
                    status = "?";
                    break;
                }
                Some(false) => {}
                Some(true) => {
                    if *body != 'z' {
                        want.push((k + 1).to_string());
                    }
                    // an empty body resets the status to 0, `echo` leaves 0, `st 5` leaves 5
                    status = if *body == 's' { "5" } else { "0" };
                    match cont {
                        'f' => falling = true,
                        'c' => falling = false,
                        _ => break,
                    }
                }
            }
        }
    }
    let want = format!("run={} st={status}", if want.is_empty() { "-".to_string() } else { want.join(".") });
    // `[:ascii:]` / `[:word:]` are accepted by the implementation (regex-crate class names) but are not POSIX
    // class names: the independent matcher has no opinion on them
    let extra_class = items.iter().flat_map(|(_, _, alts)| alts.iter()).any(|a| {
        let t: String = alt_pcs(a).iter().map(|x| x.0).collect();
        t.contains("[:ascii:]") || t.contains("[:word:]")
    });
    let oracle = if extra_class {
        "-".to_string()
    } else if want == obs {
        "ok".to_string()
    } else {
        format!("FAIL:want {want}")
    };
    (obs, oracle)
}

const BROKEN: [&str; 7] = ["[b-a]", "[[:foo:]]", "[[..]]", "[[:digit:]-9]", "[[==]]x", "[z-a]*", "[a[:b:]]"];
const BROKEN_LIT: [&str; 5] = ["[b-a]", "[[:b:]]", "[[..]]", "[[==]]", "[a[:a:]-b]"];

/// script-safe pattern text over the small alphabet (no trailing backslash, never empty)
fn rand_lit(r: &mut Rng) -> String {
    loop {
        let n = 1 + r.below(4);
        let mut s = String::new();
        for _ in 0..n {
            s.push(*r.pick(&PAT_ALPHA));
        }
        // a backslash must have a character to quote; `\` + newline etc. cannot arise
        let cs: Vec<char> = s.chars().collect();
        let mut i = 0;
        let mut ok = true;
        while i < cs.len() {
            if cs[i] == '\\' {
                if i + 1 >= cs.len() {
                    ok = false;
                }
                i += 2;
            } else {
                i += 1;
            }
        }
        if ok {
            return s;
        }
    }
}

fn rand_alt(r: &mut Rng, subj: &str) -> Alt {
    // the pattern text: broken, the subject itself, a wildcard form, or a generated pattern
    let text = |r: &mut Rng| -> String {
        match r.below(10) {
            0 | 1 => r.pick(&BROKEN).to_string(),
            2 => subj.to_string(),
            3 => r.pick(&["*", "?", "??", "?*", "[!x]", "a*", "*b"]).to_string(),
            _ => rand_pattern(r, true),
        }
    };
    if r.chance(1, 25) {
        return Alt::ExpErr;
    }
    if r.chance(1, 6) {
        // a word with quoting of every kind
        return Alt::Word(rand_wunits(r, 0, false));
    }
    match r.below(10) {
        0..=3 => Alt::Var(text(r)),
        4 => Alt::Quoted(if r.chance(1, 2) { subj.to_string() } else { text(r) }),
        5 | 6 => {
            if r.chance(1, 4) {
                Alt::Lit(r.pick(&BROKEN_LIT).to_string())
            } else {
                Alt::Lit(rand_lit(r))
            }
        }
        7 => {
            let t: String = if r.chance(1, 2) { subj.to_string() } else { text(r) };
            Alt::Single(t.chars().filter(|c| *c != '\'').collect())
        }
        _ => Alt::Mixed(rand_text(r, "*?[a]\\"), text(r)),
    }
}

fn rand_case(r: &mut Rng) -> String {
    let subj = match r.below(6) {
        0 => String::new(),
        1 => "a".to_string(),
        2 => "ab".to_string(),
        _ => rand_text(r, "ab*[-]"),
    };
    let mut items = vec![];
    for _ in 0..1 + r.below(3) {
        let cont = *r.pick(&['b', 'b', 'b', 'f', 'c']);
        let body = *r.pick(&['e', 'e', 'e', 'z', 's']);
        let mut alts = vec![];
        for _ in 0..1 + r.below(3) {
            alts.push(rand_alt(r, &subj));
        }
        items.push((cont, body, alts));
    }
    let toks: Vec<String> = items
        .iter()
        .map(|(c, b, alts)| format!("{}{}:{}", c, b, alts.iter().map(show_alt).collect::<Vec<_>>().join(",")))
        .collect();
    let subj_tok = if r.chance(1, 60) { "!".to_string() } else { enc_str(&subj) };
    format!("k {} {}", subj_tok, toks.join(" "))
}

// ------------------------------------------------------------------------------------------
// shell leg 3 (`w` cases): pattern WORDS — every quoting mechanism, nested, in `case` and in the four trims

#[derive(Clone, Debug)]
enum TUnit {
    Lit(String),
    Bs(char),
    Param(String),
    Alt(Vec<WUnit>),
}

#[derive(Clone, Debug)]
enum WUnit {
    Lit(String),
    Bs(char),
    Sq(String),
    Param(String),
    Alt(Vec<WUnit>),
    Dq(Vec<TUnit>),
}

fn enc_text(t: &[TUnit], lvl: usize) -> String {
    let sep = if lvl == 0 { ";" } else { "~" };
    t.iter()
        .map(|u| match u {
            TUnit::Lit(s) => format!("l{}", enc_str(s)),
            TUnit::Bs(c) => format!("b{}", enc_str(&c.to_string())),
            TUnit::Param(v) => format!("p{}", enc_str(v)),
            TUnit::Alt(w) => format!("a{}", enc_word(w, 1)),
        })
        .collect::<Vec<_>>()
        .join(sep)
}

fn enc_word(w: &[WUnit], lvl: usize) -> String {
    let sep = if lvl == 0 { "/" } else { "+" };
    w.iter()
        .map(|u| match u {
            WUnit::Lit(s) => format!("L{}", enc_str(s)),
            WUnit::Bs(c) => format!("B{}", enc_str(&c.to_string())),
            WUnit::Sq(s) => format!("S{}", enc_str(s)),
            WUnit::Param(v) => format!("P{}", enc_str(v)),
            WUnit::Alt(w) => format!("A{}", enc_word(w, 1)),
            WUnit::Dq(t) => format!("D{}", enc_text(t, lvl)),
        })
        .collect::<Vec<_>>()
        .join(sep)
}

fn one_char(h: &str) -> Option<char> {
    let v = dec_str(h)?;
    let mut it = v.chars();
    let c = it.next()?;
    if it.next().is_some() { None } else { Some(c) }
}

fn parse_text(s: &str, lvl: usize) -> Option<Vec<TUnit>> {
    if s.is_empty() {
        return Some(vec![]);
    }
    s.split(if lvl == 0 { ';' } else { '~' })
        .map(|t| {
            let (k, h) = t.split_at(t.chars().next()?.len_utf8());
            Some(match k {
                "l" => TUnit::Lit(dec_str(h)?),
                "b" => TUnit::Bs(one_char(h)?),
                "p" => TUnit::Param(dec_str(h)?),
                "a" if lvl == 0 => TUnit::Alt(parse_word(h, 1)?),
                _ => return None,
            })
        })
        .collect()
}

fn parse_word(s: &str, lvl: usize) -> Option<Vec<WUnit>> {
    if s.is_empty() {
        return Some(vec![]);
    }
    s.split(if lvl == 0 { '/' } else { '+' })
        .map(|t| {
            let (k, h) = t.split_at(t.chars().next()?.len_utf8());
            Some(match k {
                "L" => WUnit::Lit(dec_str(h)?),
                "B" => WUnit::Bs(one_char(h)?),
                "S" => WUnit::Sq(dec_str(h)?),
                "P" => WUnit::Param(dec_str(h)?),
                "A" if lvl == 0 => WUnit::Alt(parse_word(h, 1)?),
                "D" => WUnit::Dq(parse_text(h, lvl)?),
                _ => return None,
            })
        })
        .collect()
}

/// the word as it is written in the script; parameter values are appended to `params` (`$1` is the subject)
fn text_script(t: &[TUnit], params: &mut Vec<String>) -> String {
    t.iter()
        .map(|u| match u {
            TUnit::Lit(s) => s.clone(),
            TUnit::Bs(c) => format!("\\{c}"),
            TUnit::Param(v) => {
                params.push(v.clone());
                format!("${{{}}}", params.len())
            }
            TUnit::Alt(w) => format!("${{1+{}}}", word_script(w, params)),
        })
        .collect()
}

fn word_script(w: &[WUnit], params: &mut Vec<String>) -> String {
    w.iter()
        .map(|u| match u {
            WUnit::Lit(s) => s.clone(),
            WUnit::Bs(c) => format!("\\{c}"),
            WUnit::Sq(s) => format!("'{s}'"),
            WUnit::Param(v) => {
                params.push(v.clone());
                format!("${{{}}}", params.len())
            }
            WUnit::Alt(w) => format!("${{1+{}}}", word_script(w, params)),
            WUnit::Dq(t) => format!("\"{}\"", text_script(t, params)),
        })
        .collect()
}

/// The word reads back as the same tree when it is lexed in TEXT context (the word of a trim inside `"${@#…}"`):
/// no single quotes, an unquoted backslash only before `$` `` ` `` `"` `\` `}`.
fn text_safe(w: &[WUnit]) -> bool {
    w.iter().all(|u| match u {
        WUnit::Lit(_) | WUnit::Param(_) => true,
        WUnit::Bs(c) => DQ_ESC.contains(c) || *c == '}',
        WUnit::Sq(_) => false,
        WUnit::Alt(w) => text_safe(w),
        WUnit::Dq(t) => t.iter().all(|u| match u {
            TUnit::Alt(w) => text_safe(w),
            _ => true,
        }),
    })
}

/// Independent reading of the word (XCU 2.2 / 2.13.1): the characters left by quote removal, each with "was it
/// quoted by any mechanism"; `raw_bs_before_quote` = an unquoted backslash made by an expansion stands where the
/// next thing in the word is a quotation mark (not judged).
fn word_marks(w: &[WUnit], q: bool, out: &mut Vec<Pc>, raw_bs_before_quote: &mut bool) {
    let pending = |out: &Vec<Pc>| matches!(out.last(), Some(('\\', false)));
    for u in w {
        match u {
            WUnit::Lit(s) => out.extend(s.chars().map(|c| (c, q))),
            WUnit::Bs(c) => {
                *raw_bs_before_quote |= pending(out);
                out.push((*c, true));
            }
            WUnit::Sq(s) => {
                *raw_bs_before_quote |= pending(out);
                out.extend(s.chars().map(|c| (c, true)));
            }
            WUnit::Param(v) => out.extend(v.chars().map(|c| (c, q))),
            WUnit::Alt(w) => word_marks(w, q, out, raw_bs_before_quote),
            WUnit::Dq(t) => {
                *raw_bs_before_quote |= pending(out);
                for u in t {
                    match u {
                        TUnit::Lit(s) => out.extend(s.chars().map(|c| (c, true))),
                        TUnit::Bs(c) => out.push((*c, true)),
                        TUnit::Param(v) => out.extend(v.chars().map(|c| (c, true))),
                        TUnit::Alt(w) => word_marks(w, true, out, &mut false),
                    }
                }
                // the closing quotation mark follows whatever the text ended with; inside the quotes every
                // character is quoted, so no pending unquoted backslash can end there
            }
        }
    }
}

/// marked characters -> pattern characters: an unquoted backslash quotes the next character
fn marks_to_pcs(ms: &[Pc]) -> Vec<Pc> {
    let mut out = vec![];
    let mut i = 0;
    while i < ms.len() {
        if ms[i] == ('\\', false) && i + 1 < ms.len() {
            out.push((ms[i + 1].0, true));
            i += 2;
        } else {
            out.push(ms[i]);
            i += 1;
        }
    }
    out
}

fn show_attrs(cs: &[yash_env::semantics::expansion::attr::AttrChar]) -> String {
    use yash_env::semantics::expansion::attr::Origin;
    if cs.is_empty() {
        return "-".into();
    }
    cs.iter()
        .map(|c| {
            let o = match c.origin {
                Origin::Literal => "L",
                Origin::HardExpansion => "H",
                Origin::SoftExpansion => "S",
            };
            format!("{:x}{}{}{}", c.value as u32, o, c.is_quoted as u8, c.is_quoting as u8)
        })
        .collect::<Vec<_>>()
        .join(".")
}

/// Runs the script for a `w` case; returns (observation, oracle).
fn run_word_case(subj: &str, word: &[WUnit]) -> (String, String) {
    use futures_util::FutureExt as _;
    let mut params = vec![subj.to_string()];
    let w = word_script(word, &mut params);
    let mut script = format!(
        "case $1 in ({w}) echo 1;; (*) echo 0;; esac\n\
         a=${{1#{w}}} b=${{1##{w}}} c=${{1%{w}}} d=${{1%%{w}}}\n\
         probe \"$a\" \"$b\" \"$c\" \"$d\"\n"
    );
    // the Array arm of `trim::apply` with the same word: all positional parameters (the subject and the values the
    // word's own `${N}` refer to) trimmed at once — where the word survives being lexed in TEXT context
    let arrays = text_safe(word);
    if arrays {
        script.push_str(&format!(
            "probe \"${{@#{w}}}\"\nprobe \"${{@##{w}}}\"\nprobe \"${{@%{w}}}\"\nprobe \"${{@%%{w}}}\"\n"
        ));
    }
    let all_params = params.clone();
    let mut config = yverif::shell::Config::new(&script);
    config.positional_params = params;
    let wtext = w.clone();
    // the intermediate stage: the attributed characters of the word, from the real parser and `expand_word_attr`
    let (out, attrs) = yverif::shell::run_with(
        config,
        |_, _| (),
        move |env, _| {
            let cmd: yash_syntax::syntax::SimpleCommand = match format!("probe {wtext}").parse() {
                Ok(c) => c,
                Err(_) => return "syntax-error".to_string(),
            };
            let Some((word, _)) = cmd.words.get(1) else { return "no-word".to_string() };
            match yash_semantics::expansion::expand_word_attr(env, word).now_or_never() {
                Some(Ok((f, _))) => show_attrs(&f.chars),
                _ => "expansion-error".to_string(),
            }
        },
    );
    if out.stuck {
        return ("TIMEOUT".into(), "-".into());
    }
    let text = out.stdout_str();
    let mut lines = text.lines();
    let arm = lines.next().unwrap_or("none").to_string();
    let probe = lines.next().unwrap_or("");
    let t = probe.split_once(':').map(|x| x.1).unwrap_or("?").to_string();
    let arr_obs: Vec<String> =
        lines.take(4).map(|l| l.split_once(':').map(|x| x.1).unwrap_or("?").to_string()).collect();
    let obs = if arrays {
        format!("arm={arm} T={t} A={} X={}", arr_obs.join("/"), attrs.unwrap_or_else(|| "?".into()))
    } else {
        format!("arm={arm} T={t} X={}", attrs.unwrap_or_else(|| "?".into()))
    };

    // oracle: the property's clauses on the independent reading of the word
    let mut ms = vec![];
    let mut skip = false;
    word_marks(word, false, &mut ms, &mut skip);
    // `skip` (a raw backslash directly before a quotation mark) is judged like everything else since wave 3b: the
    // backslash quotes the next character OF THE PATTERN, i.e. the next one quote removal leaves (XCU 2.13.1)
    let _ = skip;
    let pcs = marks_to_pcs(&ms);
    let Some(toks) = oracle_parse(&pcs) else { return (obs, "-".into()) };
    let has_seq = toks.iter().any(|t| matches!(t, Tok::Set { seqs, .. } if !seqs.is_empty()));
    let s: Vec<char> = subj.chars().collect();
    let n = s.len();
    let want_arm = if gm(&toks, &s) { "1" } else { "0" };
    if arm != want_arm {
        return (obs, format!("FAIL:case arm want {want_arm}"));
    }
    let pre: Vec<usize> = (0..=n).filter(|&k| gm(&toks, &s[..k])).collect();
    let suf: Vec<usize> = (0..=n).filter(|&k| gm(&toks, &s[k..])).collect();
    let want: [String; 4] = [
        pre.first().map(|&k| s[k..].iter().collect()).unwrap_or(subj.to_string()),
        pre.last().map(|&k| s[k..].iter().collect()).unwrap_or(subj.to_string()),
        suf.last().map(|&k| s[..k].iter().collect()).unwrap_or(subj.to_string()),
        suf.first().map(|&k| s[..k].iter().collect()).unwrap_or(subj.to_string()),
    ];
    let got: Vec<&str> = t.split(',').collect();
    for i in 0..4 {
        if has_seq && i < 2 {
            continue;
        }
        if got.get(i).map(|x| x.to_string()) != Some(enc_str(&want[i])) {
            return (obs, format!("FAIL:trim {i} want {}", enc_str(&want[i])));
        }
    }
    if arrays {
        let trim_one = |v: &str, i: usize| -> String {
            let s: Vec<char> = v.chars().collect();
            let n = s.len();
            let pre: Vec<usize> = (0..=n).filter(|&k| gm(&toks, &s[..k])).collect();
            let suf: Vec<usize> = (0..=n).filter(|&k| gm(&toks, &s[k..])).collect();
            match i {
                0 => pre.first().map(|&k| s[k..].iter().collect()).unwrap_or(v.to_string()),
                1 => pre.last().map(|&k| s[k..].iter().collect()).unwrap_or(v.to_string()),
                2 => suf.last().map(|&k| s[..k].iter().collect()).unwrap_or(v.to_string()),
                _ => suf.first().map(|&k| s[..k].iter().collect()).unwrap_or(v.to_string()),
            }
        };
        for i in 0..4 {
            if has_seq && i < 2 {
                continue;
            }
            let want: Vec<String> = all_params.iter().map(|v| enc_str(&trim_one(v, i))).collect();
            if arr_obs.get(i) != Some(&want.join(",")) {
                return (obs, format!("FAIL:array trim {i} want {}", want.join(",")));
            }
        }
    }
    (obs, "ok".into())
}

/// characters that may stand unquoted in the script inside a case pattern and inside `${1#…}` / `${1+…}`
const WORD_ALPHA: [char; 11] = ['a', 'b', '.', '-', '*', '?', '[', ']', '!', ':', '='];
/// the characters a backslash escapes inside double quotes
const DQ_ESC: [char; 4] = ['$', '`', '"', '\\'];

fn rand_wlit(r: &mut Rng) -> String {
    (0..1 + r.below(3)).map(|_| *r.pick(&WORD_ALPHA)).collect()
}

fn rand_value(r: &mut Rng) -> String {
    // parameter values: pattern text, quoting characters as data, a backslash now and then (also last)
    let pool = ['a', 'b', '*', '?', '[', ']', '$', '"', '\'', '`', '\\', '-'];
    (0..r.below(4)).map(|_| *r.pick(&pool)).collect()
}

fn rand_tunit(r: &mut Rng, lvl: usize) -> TUnit {
    match r.below(10) {
        0..=2 => {
            // literal text inside double quotes; a backslash that escapes nothing stays a (quoted) backslash
            let mut s = rand_wlit(r);
            if r.chance(1, 4) {
                s = format!("\\{s}");
            }
            if r.chance(1, 6) {
                s.push('\'');
            }
            TUnit::Lit(s)
        }
        3..=6 => TUnit::Bs(*r.pick(&DQ_ESC)),
        7 | 8 => TUnit::Param(rand_value(r)),
        // the word of a `${1+…}` inside double quotes is lexed in TEXT context: single quotes are ordinary
        // characters there and a backslash escapes only `$` `` ` `` `"` `\` `}` — the generator writes only what
        // the lexer reads back as the same tree
        _ if lvl == 0 => TUnit::Alt(rand_wunits(r, 1, true)),
        _ => TUnit::Bs(*r.pick(&DQ_ESC)),
    }
}

fn rand_wunits(r: &mut Rng, lvl: usize, text_ctx: bool) -> Vec<WUnit> {
    let n = 1 + r.below(3);
    let mut out: Vec<WUnit> = vec![];
    for _ in 0..n {
        let u = match r.below(12) {
            0 | 1 => WUnit::Lit(rand_wlit(r)),
            2 if text_ctx => WUnit::Bs(*r.pick(&['$', '`', '"', '\\', '}'])),
            3 if text_ctx => WUnit::Lit(rand_wlit(r)),
            2 => WUnit::Bs(*r.pick(&['*', '?', '[', '\\', '$', '"', '\'', 'a', ']'])),
            3 => WUnit::Sq((0..r.below(3)).map(|_| *r.pick(&['a', '*', '\\', '$', '"', '[', '?'])).collect()),
            4 => WUnit::Param(rand_value(r)),
            5 if lvl == 0 => WUnit::Alt(rand_wunits(r, 1, false)),
            _ => WUnit::Dq((0..r.below(4)).map(|_| rand_tunit(r, lvl)).collect()),
        };
        // two adjacent unquoted literal runs are one run
        if let (Some(WUnit::Lit(a)), WUnit::Lit(b)) = (out.last_mut(), &u) {
            a.push_str(b);
            continue;
        }
        out.push(u);
    }
    out
}

fn rand_word_case(r: &mut Rng) -> String {
    let word = rand_wunits(r, 0, false);
    let mut ms = vec![];
    word_marks(&word, false, &mut ms, &mut false);
    let value: String = marks_to_pcs(&ms).iter().map(|x| x.0).collect();
    // subjects: what the word denotes when every character is taken literally, alone or inside other text
    let subj = match r.below(8) {
        0 | 1 => value.clone(),
        2 => format!("a{value}"),
        3 => format!("{value}b"),
        4 => format!("{value}{value}"),
        5 => ms.iter().map(|x| x.0).collect(),
        _ => rand_text(r, &format!("{value}$\\\"")),
    };
    format!("w {} {}", enc_str(&subj), enc_word(&word, 0))
}

// ------------------------------------------------------------------------------------------
// `f` cases: the regex search from every start offset

/// (anchor_end, shortest) of the configurations whose regex has no `\A`
const SUFFIX_CONFIGS: [(bool, bool); 4] = [(false, false), (false, true), (true, false), (true, true)];

fn run_find_case(esc: bool, p: &str, text: &str) -> (String, String) {
    let pcs = pchars(esc, p);
    let bounds: Vec<usize> = text.char_indices().map(|x| x.0).chain([text.len()]).collect();
    let mut groups = vec![];
    let mut seen: Vec<Vec<Option<std::ops::Range<usize>>>> = vec![];
    for (ae, sh) in SUFFIX_CONFIGS {
        let pat = match Pattern::parse_with_config(pcs.iter().copied(), cfg(false, ae, sh, false)) {
            Ok(p) => p,
            Err(e) => return (format!("E={}", err_class(&e)), "-".into()),
        };
        if pat.as_literal().is_some() {
            return ("L".into(), "-".into());
        }
        // `Regex::find_at(text, k)` for a regex without `\A` = `Regex::find(&text[k..])` shifted by k
        let rs: Vec<Option<std::ops::Range<usize>>> =
            bounds.iter().map(|&k| pat.find(&text[k..]).map(|r| r.start + k..r.end + k)).collect();
        groups.push(rs.iter().map(|r| show_range(r.clone())).collect::<Vec<_>>().join(","));
        seen.push(rs);
    }
    let obs = format!("W={}", groups.join("/"));
    // oracle: from every offset the start found is the leftmost start >= offset of any match the anchoring admits,
    // and what is reported is a match
    let Some(toks) = oracle_parse(&to_pcs(esc, p)) else { return (obs, "-".into()) };
    let s: Vec<char> = text.chars().collect();
    let n = s.len();
    for (ci, (ae, _)) in SUFFIX_CONFIGS.iter().enumerate() {
        for k in 0..=n {
            let want = (k..=n).find(|&i| (i..=n).any(|j| (!ae || j == n) && gm(&toks, &s[i..j])));
            match (&seen[ci][k], want) {
                (None, None) => {}
                (Some(r), Some(st)) => {
                    let (Some(a), Some(b)) =
                        (bounds.iter().position(|&o| o == r.start), bounds.iter().position(|&o| o == r.end))
                    else {
                        return (obs, "FAIL:range not on char boundary".into());
                    };
                    if a != st || a > b || !gm(&toks, &s[a..b]) || (*ae && b != n) {
                        return (obs, format!("FAIL:config {ci} offset {k}: {r:?} is not the leftmost match"));
                    }
                }
                _ => return (obs, format!("FAIL:config {ci} offset {k}: presence")),
            }
        }
    }
    (obs, "ok".into())
}

// ------------------------------------------------------------------------------------------
// `t` cases: long subjects, many `*` — results by the closed form, CPU time bounded

fn cpu_seconds() -> f64 {
    let mut ts = libc::timespec { tv_sec: 0, tv_nsec: 0 };
    // SAFETY: plain syscall writing into a local
    unsafe { libc::clock_gettime(libc::CLOCK_THREAD_CPUTIME_ID, &mut ts) };
    ts.tv_sec as f64 + ts.tv_nsec as f64 * 1e-9
}

/// CPU seconds one `t` case may take (compile under five configurations, is_match, and the four trims incl. the
/// `rfind` loop); the regex crate is linear in the text for a fixed pattern, the `rfind` loop quadratic.
const T_BOUND_S: f64 = 4.0;

fn run_time_case(k: usize, n: usize, tail: &str) -> (String, String) {
    let p = format!("{}*b", "*a".repeat(k));
    let text = format!("{}{}", "a".repeat(n), tail);
    let pcs = pchars(false, &p);
    let t0 = cpu_seconds();
    let full = match Pattern::parse_with_config(pcs.iter().copied(), cfg(true, true, false, false)) {
        Ok(p) => p.is_match(&text),
        Err(e) => return (format!("E={}", err_class(&e)), "-".into()),
    };
    let mut lens = vec![];
    for (ab, ae, sh) in TRIMS {
        let pat = match Pattern::parse_with_config(pcs.iter().copied(), cfg(ab, ae, sh, false)) {
            Ok(p) => p,
            Err(e) => return (format!("E={}", err_class(&e)), "-".into()),
        };
        let mut v = text.clone();
        trim_value(&pat, &mut v);
        lens.push(v.chars().count().to_string());
    }
    let dt = cpu_seconds() - t0;
    let obs = format!("M={} T={}", if full { 1 } else { 0 }, lens.join(","));
    let oracle = if dt <= T_BOUND_S { "ok".to_string() } else { format!("FAIL:slow {:.1}s cpu for k={k} n={n}", dt) };
    (obs, oracle)
}

// ------------------------------------------------------------------------------------------
// generation

const PAT_ALPHA: [char; 13] = ['a', 'b', '.', '-', '*', '?', '[', ']', '!', '^', '\\', ':', '='];
const TXT_ALPHA: [char; 6] = ['a', 'b', '.', '-', ']', '^'];

fn all_strings(alpha: &[char], max: usize) -> Vec<String> {
    let mut out = vec![String::new()];
    let mut last = vec![String::new()];
    for _ in 0..max {
        let mut next = vec![];
        for s in &last {
            for c in alpha {
                let mut t = s.clone();
                t.push(*c);
                next.push(t);
            }
        }
        out.extend(next.iter().cloned());
        last = next;
    }
    out
}

fn punct() -> Vec<char> {
    (33u8..=126).map(|b| b as char).filter(|c| c.is_ascii_punctuation()).collect()
}

const NON_ASCII: [char; 6] = ['é', 'ß', 'あ', '𝄞', '\u{7f}', '\n'];
const CLASS_NAMES: [&str; 18] = [
    "alnum", "alpha", "blank", "cntrl", "digit", "graph", "lower", "print", "punct", "space", "upper",
    "xdigit", "word", "ascii", "nothing", "", "^alpha", "Alpha",
];

fn rand_char(r: &mut Rng) -> char {
    match r.below(10) {
        0..=3 => *r.pick(&punct()),
        4..=6 => *r.pick(&['a', 'b', 'c', 'z', 'A', '0', '9', ' ']),
        7 => *r.pick(&NON_ASCII),
        _ => *r.pick(&PAT_ALPHA),
    }
}

fn rand_member(r: &mut Rng, out: &mut String, esc: bool) {
    match r.below(12) {
        0 => {
            out.push_str("[.");
            out.push(rand_char(r));
            out.push_str(".]");
        }
        1 => {
            out.push_str("[=");
            out.push(rand_char(r));
            out.push_str("=]");
        }
        2 => {
            out.push_str("[:");
            out.push_str(r.pick(&CLASS_NAMES));
            out.push_str(":]");
        }
        3 => {
            out.push_str(if r.chance(1, 2) { "[." } else { "[=" });
            for _ in 0..r.below(3) {
                out.push(rand_char(r));
            }
            out.push_str(if r.chance(1, 2) { ".]" } else { "=]" });
        }
        4 if esc => {
            out.push('\\');
            out.push(rand_char(r));
        }
        _ => out.push(rand_char(r)),
    }
}

fn rand_bracket(r: &mut Rng, out: &mut String, esc: bool) {
    out.push('[');
    match r.below(6) {
        0 => out.push('!'),
        1 => out.push('^'),
        _ => {}
    }
    if r.chance(1, 5) {
        out.push(']');
    }
    for _ in 0..1 + r.below(4) {
        rand_member(r, out, esc);
        if r.chance(1, 3) {
            out.push('-');
            if r.chance(4, 5) {
                rand_member(r, out, esc);
            }
        }
    }
    if r.chance(9, 10) {
        out.push(']');
    }
}

fn rand_pattern(r: &mut Rng, esc: bool) -> String {
    let mut out = String::new();
    for _ in 0..1 + r.below(5) {
        match r.below(10) {
            0 | 1 => out.push('*'),
            2 => out.push('?'),
            3..=5 => rand_bracket(r, &mut out, esc),
            6 if esc => {
                out.push('\\');
                out.push(rand_char(r));
            }
            _ => out.push(rand_char(r)),
        }
    }
    out
}

fn rand_text(r: &mut Rng, p: &str) -> String {
    let pool: Vec<char> = p.chars().chain(['a', 'b', '.', '-', 'c', '𝄞', '😀']).collect();
    let mut s = String::new();
    for _ in 0..r.below(7) {
        s.push(*r.pick(&pool));
    }
    s
}

/// every ASCII punctuation character in every position class
fn punct_sweep() -> Vec<(bool, String, String)> {
    let mut out = vec![];
    for c in punct() {
        let templates: Vec<String> = vec![
            format!("{c}"),
            format!("a{c}b"),
            format!("[{c}]"),
            format!("[!{c}]"),
            format!("[x{c}y]"),
            format!("[xy{c}]"),
            format!("[{c}-~]"),
            format!("[!-{c}]"),
            format!("[x{c}-~]"),
            format!("[[.{c}.]]"),
            format!("[[={c}=]]"),
            format!("[x[.{c}.]y]"),
            format!("[![.{c}.]x]"),
            format!("[[.{c}.]-~]"),
            format!("[!-[.{c}.]]"),
            format!("[[.{c}{c}.]x]"),
            format!("[[.a{c}.]]"),
            format!("*{c}*"),
            format!("\\{c}"),
            format!("[\\{c}]"),
            format!("[x\\{c}y]"),
            format!("[a\\{c}z]"),
            format!("[[.\\{c}.]]"),
        ];
        let prev = char::from_u32(c as u32 - 1).unwrap();
        let next = char::from_u32(c as u32 + 1).unwrap();
        let texts: Vec<String> = vec![
            format!("{c}"),
            format!("{prev}"),
            format!("{next}"),
            "x".into(),
            "b".into(),
            format!("a{c}b"),
            format!("{c}{c}"),
            format!("a{c}"),
            format!("\\{c}"),
            "\\".into(),
            String::new(),
        ];
        for t in &templates {
            for s in &texts {
                for esc in [false, true] {
                    out.push((esc, t.clone(), s.clone()));
                }
            }
        }
    }
    out
}

fn run_case(case: &str, memo: &mut Option<Compiled>) {
    let w: Vec<&str> = case.split(' ').collect();
    match w.as_slice() {
        ["m", esc, p, t] => {
            let (Some(p), Some(t)) = (dec_str(p), dec_str(t)) else {
                emit(case, "bad-case", "-");
                return;
            };
            let esc = *esc == "e";
            let mut oracle_out = String::from("-");
            let obs = guarded(|| {
                if memo.as_ref().map(|c| c.key != (esc, p.clone())).unwrap_or(true) {
                    *memo = Some(compile(esc, &p));
                }
                let (obs, seen) = observe(memo.as_ref().unwrap(), &t);
                let toks = oracle_parse(&to_pcs(esc, &p));
                if let Some(seen) = seen {
                    oracle_out = oracle(esc, &p, &t, &seen);
                } else if toks.is_some() {
                    // a pattern inside the defined notation must compile
                    oracle_out = "FAIL:defined pattern rejected".into();
                }
                let ast = Ast::new(pchars(esc, &p));
                if let Some(f) = literal_api_check(memo.as_ref().unwrap(), &ast, toks.map(|t| lit_of_toks(&t))) {
                    oracle_out = f;
                }
                obs
            });
            emit(case, &obs, &oracle_out);
        }
        ["a", ast_text, t] => {
            let (Some(ast), Some(t)) = (parse_ast(ast_text), dec_str(t)) else {
                emit(case, "bad-case", "-");
                return;
            };
            let mut oracle_out = String::from("-");
            let obs = guarded(|| {
                let comp = compile_ast(ast_text, &ast);
                let (obs, seen) = observe(&comp, &t);
                let toks = ast_toks(&ast);
                if let Some(seen) = seen {
                    if let Some(toks) = &toks {
                        oracle_out = oracle_toks(toks, &t, &seen);
                    }
                } else if toks.is_some() {
                    oracle_out = "FAIL:defined pattern rejected".into();
                }
                if let Some(f) = literal_api_check(&comp, &ast, toks.map(|t| lit_of_toks(&t))) {
                    oracle_out = f;
                }
                obs
            });
            emit(case, &obs, &oracle_out);
        }
        ["s", s, q1, p1, q2, p2] => {
            let d: Option<Vec<String>> = [s, q1, p1, q2, p2].iter().map(|x| dec_str(x)).collect();
            let Some(d) = d else {
                emit(case, "bad-case", "-");
                return;
            };
            let obs = guarded(|| run_shell(&d[0], &d[1], &d[2], &d[3], &d[4]));
            let oracle_out = shell_trim_oracle(&d[0], &d[1], &d[2], &obs);
            emit(case, &obs, &oracle_out);
        }
        ["f", esc, p, t] => {
            let (Some(p), Some(t)) = (dec_str(p), dec_str(t)) else {
                emit(case, "bad-case", "-");
                return;
            };
            let mut oracle_out = String::from("-");
            let obs = guarded(|| {
                let (obs, o) = run_find_case(*esc == "e", &p, &t);
                oracle_out = o;
                obs
            });
            emit(case, &obs, &oracle_out);
        }
        ["t", k, n, tail] => {
            let (Ok(k), Ok(n), Some(tail)) = (k.parse::<usize>(), n.parse::<usize>(), dec_str(tail)) else {
                emit(case, "bad-case", "-");
                return;
            };
            let mut oracle_out = String::from("-");
            let obs = guarded(|| {
                let (obs, o) = run_time_case(k, n, &tail);
                oracle_out = o;
                obs
            });
            emit(case, &obs, &oracle_out);
        }
        ["w", subj, word] => {
            let (Some(subj), Some(word)) = (dec_str(subj), parse_word(word, 0)) else {
                emit(case, "bad-case", "-");
                return;
            };
            let mut oracle_out = String::from("-");
            let obs = guarded(|| {
                let (obs, o) = run_word_case(&subj, &word);
                oracle_out = o;
                obs
            });
            emit(case, &obs, &oracle_out);
        }
        ["k", subj, rest @ ..] if !rest.is_empty() => {
            let parsed: Option<Vec<(char, char, Vec<Alt>)>> = rest
                .iter()
                .map(|t| {
                    let (c, alts) = t.split_once(':')?;
                    let alts: Option<Vec<Alt>> = alts.split(',').map(parse_alt).collect();
                    let mut cs = c.chars();
                    Some((cs.next()?, cs.next().unwrap_or('e'), alts?))
                })
                .collect();
            let subj_text = if *subj == "!" { Some(None) } else { dec_str(subj).map(Some) };
            let (Some(subj), Some(items)) = (subj_text, parsed) else {
                emit(case, "bad-case", "-");
                return;
            };
            let mut oracle_out = String::from("-");
            let obs = guarded(|| {
                let (obs, o) = run_case_command(subj.as_deref(), &items);
                oracle_out = o;
                obs
            });
            emit(case, &obs, &oracle_out);
        }
        _ => emit(case, "bad-case", "-"),
    }
}

fn main() {
    let opts = Opts::from_args();
    quiet_panics();
    let (fixed, only) = opts.fixed_cases();
    let mut memo = None;
    for c in &fixed {
        run_case(c, &mut memo);
    }
    if only {
        return;
    }
    let thorough = opts.thorough();
    let (si, sn) = opts.shard;
    // sharding is by running *pattern group* index (consecutive cases with the same second and third
    // token), so that one shard sees all texts of a pattern and the compile memo stays effective
    let mut idx = 0usize;
    let mut last_group = String::new();
    let mut go = |case: String| {
        let group: String = case.split(' ').take(3).collect::<Vec<_>>().join(" ");
        if group != last_group {
            idx += 1;
            last_group = group;
        }
        if idx % sn == si {
            run_case(&case, &mut memo);
        }
    };
    let mcase = |esc: bool, p: &str, t: &str| format!("m {} {} {}", if esc { "e" } else { "n" }, enc_str(p), enc_str(t));

    // 1. punctuation sweep (both tiers)
    for (esc, p, t) in punct_sweep() {
        go(mcase(esc, &p, &t));
    }

    // 1b. UTF-8 leg (both tiers): texts over characters of 1, 2, 3 and 4 bytes (two non-BMP ones) so that
    // match starts and `rfind`'s "next char boundary" step land on every encoded length
    let wide: [char; 5] = ['a', 'é', 'あ', '𝄞', '😀'];
    let wtexts = all_strings(&wide, 3);
    for p in [
        "?", "*", "??", "*?", "?*", "a*", "*a", "?a", "[!a]", "[!a]*", "*[!a]", "𝄞", "𝄞*", "*𝄞", "*😀", "😀?",
        "[😀-😂]", "[!😀]", "*[𝄞😀]", "[[.𝄞.]]*", "*[![.😀.]]", "?😀*", "*あ", "é*",
    ] {
        for t in &wtexts {
            go(mcase(false, p, t));
        }
    }

    // 2. exhaustive small scope
    let mut r = Rng::new(opts.seed ^ 0xC04);
    let (pmax, tmax) = if thorough { (3, 3) } else { (2, 3) };
    let texts = all_strings(&TXT_ALPHA, tmax);
    for p in all_strings(&PAT_ALPHA, pmax) {
        for t in &texts {
            for esc in [false, true] {
                if esc && !p.contains('\\') {
                    continue; // identical to `n`
                }
                go(mcase(esc, &p, t));
            }
        }
    }
    // longer patterns by enumeration with a stride, sampled texts:
    //   quick:    length 3 all x 4 texts, length 4 every 8th x 4 texts (texts of length <= 3)
    //   thorough: length 4 all x 12 texts (<= 4), length 5 every 4th x 4 texts (<= 4),
    //             length 6 every 40th x 3 texts (<= 5)
    let plan: Vec<(usize, usize, usize, usize)> = if thorough {
        vec![(4, 1, 12, 4), (5, 4, 4, 4), (6, 40, 3, 5)]
    } else {
        vec![(3, 1, 4, 3), (4, 8, 4, 3)]
    };
    for (len, stride, per, tlen) in plan {
        let pool = all_strings(&TXT_ALPHA, tlen);
        let total = PAT_ALPHA.len().pow(len as u32);
        let mut k = r.below(stride);
        while k < total {
            let mut p = String::new();
            let mut x = k;
            for _ in 0..len {
                p.push(PAT_ALPHA[x % PAT_ALPHA.len()]);
                x /= PAT_ALPHA.len();
            }
            let esc = p.contains('\\') && r.chance(1, 2);
            for _ in 0..per {
                let t = r.pick(&pool).clone();
                go(mcase(esc, &p, &t));
            }
            k += stride;
        }
    }

    // 3. random structured patterns
    let nrand = if thorough { 200_000 } else { 6_000 };
    for _ in 0..nrand {
        let esc = r.chance(1, 2);
        let p = rand_pattern(&mut r, esc);
        for _ in 0..2 {
            let t = rand_text(&mut r, &p);
            go(mcase(esc, &p, &t));
        }
    }

    // 3b. long texts (12..=28 characters, non-ASCII included) against structured patterns with at most two `*`
    // (the backtracking model and the brute-force Spec are polynomial in the text with the number of stars as the
    // exponent): many match starts, long runs for rfind's boundary stepping, trims that remove long parts
    let nlong = if thorough { 6_000 } else { 300 };
    let mut rl = Rng::new(opts.seed ^ 0x10_46);
    let mut made = 0;
    while made < nlong {
        let esc = rl.chance(1, 2);
        let p = rand_pattern(&mut rl, esc);
        if p.matches('*').count() > 2 {
            continue;
        }
        let pool: Vec<char> = p.chars().filter(|c| !"*?[]\\".contains(*c)).chain(['a', 'b', 'a', '.', 'é', '𝄞']).collect();
        let n = 12 + rl.below(17);
        let t: String = (0..n).map(|_| *rl.pick(&pool)).collect();
        go(mcase(esc, &p, &t));
        made += 1;
    }

    // 6. hand-built syntax trees through `from_ast` / `from_ast_and_config`
    let nast = if thorough { 40_000 } else { 3_000 };
    let mut ra = Rng::new(opts.seed ^ 0xA57);
    for _ in 0..nast {
        go(rand_ast_case(&mut ra));
    }

    // 5. shell leg 2: whole `case` commands
    let ncase = if thorough { 20_000 } else { 1_500 };
    let mut rk = Rng::new(opts.seed ^ 0xCA5E);
    for _ in 0..ncase {
        go(rand_case(&mut rk));
    }

    // 3c. the regex search from EVERY start offset (configurations without `\A`): random structured patterns x
    // texts of up to 9 characters
    let nfind = if thorough { 40_000 } else { 2_500 };
    let mut rf = Rng::new(opts.seed ^ 0xF1AD);
    for _ in 0..nfind {
        let esc = rf.chance(1, 2);
        let p = rand_pattern(&mut rf, esc);
        let pool: Vec<char> = p.chars().filter(|c| !"*?[]\\".contains(*c)).chain(['a', 'b', '.', 'é', '𝄞']).collect();
        let t: String = (0..rf.below(10)).map(|_| *rf.pick(&pool)).collect();
        go(format!("f {} {} {}", if esc { "e" } else { "n" }, enc_str(&p), enc_str(&t)));
    }

    // 3d. long subjects against `*a*a…*b`: small sizes (where the driver runs the real model) and sizes of
    // thousands of characters (closed form), each under a CPU-time bound
    for (k, n) in [(1, 3), (2, 5), (3, 6), (3, 2), (2, 1000), (4, 1000), (8, 1500), (12, 2000), (20, 3000), (6, 5000)] {
        for tail in ["b", "", "ba"] {
            go(format!("t {k} {n} {}", enc_str(tail)));
        }
    }

    // 5b. shell leg 3: pattern words (every quoting mechanism, nested) in `case` and the four trims
    let nword = if thorough { 30_000 } else { 2_000 };
    let mut rw = Rng::new(opts.seed ^ 0x30BD);
    for _ in 0..nword {
        go(rand_word_case(&mut rw));
    }

    // 4b. variable match length without `*` (both the crate and the shell): multi-character collating
    // elements, ASCII and multi-byte, against every subject over the same characters
    for (x, y) in [('c', 'h'), ('a', 'b'), ('é', 'a'), ('𝄞', 'あ')] {
        let subjects = all_strings(&[x, y, 'a'], if thorough { 4 } else { 3 });
        for p in variable_length_patterns(x, y) {
            for t in &subjects {
                go(mcase(false, &p, t));
            }
            for t in &subjects {
                go(format!("s {} - {} - {}", enc_str(t), enc_str(&p), enc_str("?")));
            }
        }
    }

    // 4. shell leg
    let nshell = if thorough { 4_000 } else { 300 };
    for _ in 0..nshell {
        let p1 = rand_pattern(&mut r, true).replace('\0', "");
        let p2 = rand_pattern(&mut r, true);
        let q1 = if r.chance(1, 3) { rand_text(&mut r, "*?[a]\\") } else { String::new() };
        let q2 = if r.chance(1, 4) { rand_text(&mut r, "*?[") } else { String::new() };
        let subj = rand_text(&mut r, &format!("{q1}{p1}"));
        go(format!(
            "s {} {} {} {} {}",
            enc_str(&subj),
            enc_str(&q1),
            enc_str(&p1),
            enc_str(&q2),
            enc_str(&p2)
        ));
    }
}
