//! C09 — redirections: generated redirection lists on every command kind, run by the real shell on the
//! virtual system; the shell process's descriptor table is read before, during and after the command.
//!
//! Case line (see /verif/lean/YashModel/Redir/Main.lean):
//!   `<noclobber 0|1> <limit N|-> <pre|-> | <kind> | <fd> <op> <operand>; …`
//! Observation: `B=<table before> D=<table seen by the command body>|w<write to fd 1 ok>|r<read from fd 0>`
//!   ` A=<$?>:<table after> F=<table at the end> files=<contents> exit=<status>`
//!   table entry = `fd:file:access:=<lowest descriptor sharing the open file description>:@offset:c|-`.
//! Oracle (no model involved): table after == table before (identity of the open file descriptions and
//!   CLOEXEC flags) unless a successful `exec`; nothing ≥ 10 left open; descriptors that appeared
//!   during the command and are not redirection targets are ≥ 10 and CLOEXEC.

use futures_util::FutureExt as _;
use std::cell::RefCell;
use std::ffi::CString;
use std::io::SeekFrom;
use std::rc::Rc;
use yash_env::builtin::{Builtin, Type};
use yash_env::io::Fd;
use yash_env::option::{Option as ShellOption, State};
use yash_env::semantics::{ExitStatus, Field};
use yash_env::system::concurrency::WriteAll as _;
use yash_env::system::resource::{INFINITY, LimitPair, Resource, SetRlimit as _};
use yash_env::system::r#virtual::{FileBody, Inode, SystemState};
use yash_env::system::{Close as _, Dup as _, Fcntl as _, FdFlag, Mode, OfdAccess, Open as _, Read as _};
use yverif::proto::{Opts, emit, guarded, quiet_panics};
use yverif::rng::Rng;
use yverif::shell::{BuiltinFuture, Config, Outcome, VEnv, VSys, probe_builtins, read_file, run_with};

thread_local! {
    static STATE: RefCell<Option<Rc<RefCell<SystemState>>>> = const { RefCell::new(None) };
    static LOG: RefCell<Vec<(String, String, Vec<Entry>)>> = const { RefCell::new(Vec::new()) };
    /// inodes that have received an error message at some point of the run (sticky)
    static TAINT: RefCell<Vec<Rc<RefCell<Inode>>>> = const { RefCell::new(Vec::new()) };
    /// shell text of the redirection lists the `rg` built-in hands to its own `RedirGuard`
    /// (indexed by the built-in's operand), and whether it ends with `preserve_redirs`
    static GUARD_LISTS: RefCell<Vec<(String, bool)>> = const { RefCell::new(Vec::new()) };
}

/// (fd, identity of the open file description, cloexec)
type Entry = (i32, usize, bool);

const PATHS: [(&str, &str); 11] = [
    ("s", "/tmp/s"),
    ("t", "/tmp/t"),
    ("in", "/dev/stdin"),
    ("out", "/dev/stdout"),
    ("err", "/dev/stderr"),
    ("a", "/tmp/a"),
    ("b", "/tmp/b"),
    ("m", "/tmp/m"),
    ("n", "/tmp/x/n"),
    ("d", "/tmp/d"),
    ("p", "/tmp/p"),
];

fn harness_byte(b: u8) -> bool {
    b <= 8 || b == 10
}

/// A file that received an error message (anything but harness bytes) has unknown content, and
/// the offsets of the descriptions on it are unknown from then on (also after a truncation).
fn tainted(name: &str, inode: &Rc<RefCell<Inode>>) -> bool {
    // /dev/stderr receives messages; /tmp/s is shell text (the script the `.` built-in reads)
    if name == "err" || name == "s" {
        return true;
    }
    // strong references: a freed inode's address must not be mistaken for a new file
    if TAINT.with(|t| t.borrow().iter().any(|i| Rc::ptr_eq(i, inode))) {
        return true;
    }
    let now = match &inode.borrow().body {
        FileBody::Regular { content, .. } | FileBody::Terminal { content } => {
            !content.iter().all(|b| harness_byte(*b))
        }
        _ => false,
    };
    if now {
        TAINT.with(|t| t.borrow_mut().push(Rc::clone(inode)));
    }
    now
}

/// Every snapshot first looks at all named files, so that a message is noticed before a later
/// command can truncate the file (a message is always followed by a `mark` or the end of the run).
fn scan_taint(state: &SystemState) {
    for (name, path) in PATHS {
        if let Ok(i) = state.file_system.get(path) {
            tainted(name, &i);
        }
    }
}

fn file_name(state: &SystemState, inode: &Rc<RefCell<Inode>>) -> &'static str {
    for (name, path) in PATHS {
        if let Ok(i) = state.file_system.get(path) {
            if Rc::ptr_eq(&i, inode) {
                return name;
            }
        }
    }
    "tmp"
}

fn hex(b: &[u8]) -> String {
    yverif::proto::enc_bytes(b)
}

fn snapshot(state: &SystemState, pid: yash_env::job::Pid) -> (String, Vec<Entry>) {
    scan_taint(state);
    let p = &state.processes[&pid];
    let mut out = vec![];
    let mut entries = vec![];
    let ids: Vec<(i32, usize)> = p
        .fds()
        .iter()
        .map(|(fd, b)| (fd.0, Rc::as_ptr(&b.open_file_description) as usize))
        .collect();
    for (fd, body) in p.fds() {
        let id = Rc::as_ptr(&body.open_file_description) as usize;
        let low = ids.iter().find(|(_, i)| *i == id).map(|x| x.0).unwrap_or(fd.0);
        let mut ofd = body.open_file_description.borrow_mut();
        let inode = Rc::clone(ofd.inode());
        let name = file_name(state, &inode);
        let acc = match (ofd.is_readable(), ofd.is_writable()) {
            (true, true) => "b",
            (true, false) => "r",
            (false, true) => "w",
            (false, false) => "n",
        };
        let off = if tainted(name, &inode) {
            "T".to_string()
        } else {
            match ofd.seek(SeekFrom::Current(0)) {
                Ok(n) => n.to_string(),
                Err(_) => "?".to_string(),
            }
        };
        let c = body.flags.contains(FdFlag::CloseOnExec);
        out.push(format!("{}:{}:{}:={}:@{}:{}", fd.0, name, acc, low, off, if c { "c" } else { "-" }));
        entries.push((fd.0, id, c));
    }
    (if out.is_empty() { "-".into() } else { out.join(",") }, entries)
}

fn snap_now(env: &VEnv) -> (String, Vec<Entry>) {
    STATE.with(|s| {
        let s = s.borrow();
        let st = s.as_ref().expect("state").borrow();
        snapshot(&st, env.main_pid)
    })
}

/// `mark`: records `$?` and the table; preserves `$?`.
fn mark_main(env: &mut VEnv, _args: Vec<Field>) -> BuiltinFuture<'_> {
    let st = env.exit_status.0;
    let (s, e) = snap_now(env);
    LOG.with(|l| l.borrow_mut().push(("mark".into(), format!("{st}:{s}"), e)));
    Box::pin(async move { ExitStatus(st).into() })
}

/// `imark`: the same from inside a compound command or function body (nested family)
fn imark_main(env: &mut VEnv, _args: Vec<Field>) -> BuiltinFuture<'_> {
    let st = env.exit_status.0;
    let (s, e) = snap_now(env);
    LOG.with(|l| l.borrow_mut().push(("imark".into(), format!("{st}:{s}"), e)));
    Box::pin(async move { ExitStatus(st).into() })
}

/// `fds` / `sfds`: records the table as the command body sees it, then writes one byte to
/// descriptor 1 and reads up to two bytes from descriptor 0.
fn fds_main(env: &mut VEnv, _args: Vec<Field>) -> BuiltinFuture<'_> {
    let (s, e) = snap_now(env);
    Box::pin(async move {
        let wrote = env.system.write_all(Fd::STDOUT, &[8u8]).await.is_ok();
        // taint of the file behind descriptor 0 (before reading)
        let t0 = STATE.with(|s| {
            let s = s.borrow();
            let st = s.as_ref().unwrap().borrow();
            st.processes[&env.main_pid].get_fd(Fd::STDIN).map(|b| {
                let ofd = b.open_file_description.borrow();
                let inode = Rc::clone(ofd.inode());
                let name = file_name(&st, &inode);
                tainted(name, &inode)
            })
        });
        let mut buf = [0u8; 2];
        let r = match env.system.read(Fd::STDIN, &mut buf).await {
            Err(_) => "e".to_string(),
            Ok(n) => {
                if t0 == Some(true) {
                    "T".to_string()
                } else {
                    hex(&buf[..n])
                }
            }
        };
        LOG.with(|l| l.borrow_mut().push(("fds".into(), format!("{s}|w{}|r{r}", wrote as u8), e)));
        ExitStatus::SUCCESS.into()
    })
}

/// `put FD B`: writes the one byte B through descriptor FD; `get FD N`: reads up to N bytes through FD.  Both
/// record the table they see first, then what happened (`p1`/`p0`, `g<hex>`/`ge`/`gT`); exit status 0 / 1.
fn io_main(env: &mut VEnv, args: Vec<Field>, put: bool) -> BuiltinFuture<'_> {
    let (s, e) = snap_now(env);
    Box::pin(async move {
        let fd = Fd(args.first().and_then(|f| f.value.parse().ok()).unwrap_or(-1));
        let arg: usize = args.get(1).and_then(|f| f.value.parse().ok()).unwrap_or(0);
        let (text, ok) = if put {
            let ok = env.system.write_all(fd, &[arg as u8]).await.is_ok();
            (format!("p{}", ok as u8), ok)
        } else {
            let t0 = STATE.with(|s| {
                let s = s.borrow();
                let st = s.as_ref().unwrap().borrow();
                st.processes[&env.main_pid].get_fd(fd).map(|b| {
                    let ofd = b.open_file_description.borrow();
                    let inode = Rc::clone(ofd.inode());
                    let name = file_name(&st, &inode);
                    tainted(name, &inode)
                })
            });
            let mut buf = vec![0u8; arg];
            match env.system.read(fd, &mut buf).await {
                Err(_) => ("ge".to_string(), false),
                Ok(n) => (if t0 == Some(true) { "gT".to_string() } else { format!("g{}", hex(&buf[..n])) }, true),
            }
        };
        LOG.with(|l| l.borrow_mut().push(("fds".into(), format!("{s}|{text}"), e)));
        ExitStatus(if ok { 0 } else { 1 }).into()
    })
}
fn put_main(env: &mut VEnv, args: Vec<Field>) -> BuiltinFuture<'_> {
    io_main(env, args, true)
}
fn get_main(env: &mut VEnv, args: Vec<Field>) -> BuiltinFuture<'_> {
    io_main(env, args, false)
}

fn errno_name(e: yash_env::system::Errno) -> String {
    use yash_env::system::Errno;
    for (v, n) in [
        (Errno::EBADF, "EBADF"),
        (Errno::EMFILE, "EMFILE"),
        (Errno::EEXIST, "EEXIST"),
        (Errno::ENOENT, "ENOENT"),
        (Errno::ENOTDIR, "ENOTDIR"),
        (Errno::EISDIR, "EISDIR"),
        (Errno::EACCES, "EACCES"),
        (Errno::EIO, "EIO"),
    ] {
        if e == v {
            return n.into();
        }
    }
    format!("E{}", e.0)
}

/// class of a `redir::ErrorCause`: variant, descriptor, errno — no message, no pathname
fn cause_class(c: &yash_semantics::redir::ErrorCause) -> String {
    use yash_semantics::redir::ErrorCause as C;
    match c {
        C::Expansion(_) => "exp".into(),
        C::NulByte(_) => "nul".into(),
        C::FdNotOverwritten(fd, e) => format!("fno:{}:{}", fd.0, errno_name(*e)),
        C::ReservedFd(fd) => format!("rsv:{}", fd.0),
        C::OpenFile(_, e) => format!("open:{}", errno_name(*e)),
        C::MalformedFd(_, _) => "mal".into(),
        C::UnreadableFd(fd) => format!("unr:{}", fd.0),
        C::UnwritableFd(fd) => format!("unw:{}", fd.0),
        C::TemporaryFileUnavailable(e) => format!("tmp:{}", errno_name(*e)),
        C::UnsupportedPipeRedirection | C::UnsupportedHereString => "uns".into(),
        _ => "other".into(),
    }
}

/// the redirections of the first simple command of `text` (here-document contents filled in)
fn redirs_of(text: &str) -> Option<Rc<Vec<yash_syntax::syntax::Redir>>> {
    use yash_syntax::syntax::{Command, List};
    let list: List = text.parse().ok()?;
    let item = list.0.first()?;
    match &**item.and_or.first.commands.first()? {
        Command::Simple(sc) => Some(Rc::clone(&sc.redirs)),
        _ => None,
    }
}

/// `rg N`: drives `RedirGuard` directly on list N — `perform_redir` item by item as `perform_redirs`
/// does, recording the process table after every call and the cause of the failing one; then
/// `preserve_redirs` (list marked so and no failure) or `undo_redirs`.  Prints nothing.
fn rg_main(env: &mut VEnv, args: Vec<Field>) -> BuiltinFuture<'_> {
    Box::pin(async move {
        let idx: usize = args.first().and_then(|f| f.value.parse().ok()).unwrap_or(usize::MAX);
        let Some((text, keep)) = GUARD_LISTS.with(|g| g.borrow().get(idx).cloned()) else {
            LOG.with(|l| l.borrow_mut().push(("rg".into(), "NO-LIST".into(), vec![])));
            return ExitStatus(99).into();
        };
        let Some(redirs) = redirs_of(&text) else {
            LOG.with(|l| l.borrow_mut().push(("rg".into(), "NO-PARSE".into(), vec![])));
            return ExitStatus(98).into();
        };
        let mut guard = yash_semantics::redir::RedirGuard::new(env);
        let mut steps = vec![];
        let mut cause = "-".to_string();
        // `perform_redirs`' accumulation of the exit statuses of command substitutions in operands
        let mut cs: Option<i32> = None;
        for r in redirs.iter() {
            let res = guard.perform_redir(r, None).await;
            if let Ok(st) = &res {
                cs = st.map(|s| s.0).or(cs);
            }
            let (s, e) = snap_now(&guard);
            LOG.with(|l| l.borrow_mut().push(("gstep".into(), s.clone(), e)));
            steps.push(s);
            if let Err(e) = res {
                cause = cause_class(&e.cause);
                break;
            }
        }
        let failed = cause != "-";
        if keep && !failed {
            guard.preserve_redirs();
        } else {
            guard.undo_redirs();
        }
        drop(guard);
        LOG.with(|l| l.borrow_mut().push(("rg".into(), format!("G:{}|e{cause}|x{}", steps.join("/"), cs.map(|c| c.to_string()).unwrap_or_else(|| "-".into())), vec![])));
        ExitStatus(if failed { 2 } else { 0 }).into()
    })
}

fn c09_builtins() -> Vec<(&'static str, Builtin<VSys>)> {
    vec![
        ("rg", Builtin::new(Type::Mandatory, rg_main)),
        ("mark", Builtin::new(Type::Mandatory, mark_main)),
        ("imark", Builtin::new(Type::Mandatory, imark_main)),
        ("put", Builtin::new(Type::Mandatory, put_main)),
        ("get", Builtin::new(Type::Mandatory, get_main)),
        ("fds", Builtin::new(Type::Mandatory, fds_main)),
        ("sfds", Builtin::new(Type::Special, fds_main)),
        // the same probe under every other built-in type `execute_builtin` distinguishes
        ("efds", Builtin::new(Type::Elective, fds_main)),
        ("xfds", Builtin::new(Type::Extension, fds_main)),
        ("ufds", Builtin::new(Type::Substitutive, fds_main)),
    ]
}

type RedirSpec = (i32, String, String);

/// The tail of `yash_cli::run_as_shell_process` for an interactive shell.
async fn eval_interactive(env: &mut VEnv, source: &yash_cli::startup::args::Source) -> i32 {
    use std::ops::ControlFlow::{Break, Continue};
    use yash_env::semantics::Divert;
    let ref_env = RefCell::new(env);
    let lexer = match yash_cli::startup::input::prepare_input(&ref_env, source).await {
        Ok(lexer) => lexer,
        Err(_) => return 127,
    };
    let result = yash_semantics::interactive_read_eval_loop(&ref_env, &mut { lexer }).await;
    let env = ref_env.into_inner();
    env.apply_result(result);
    match result {
        Continue(())
        | Break(Divert::Continue { .. })
        | Break(Divert::Break { .. })
        | Break(Divert::Return(_))
        | Break(Divert::Interrupt(_))
        | Break(Divert::Exit(_)) => yash_semantics::trap::run_exit_trap(env).await,
        Break(Divert::Abort(_)) => (),
    }
    env.exit_status.0
}

/// `yverif::shell::run_with` for an *interactive* shell: same wiring (it cannot be parametrised from
/// here), but the `Interactive` option is switched on after `configure_environment` (as `yash -i`
/// without job control) and the script is run by `interactive_read_eval_loop`, as
/// `yash_cli::run_as_shell_process` does for an interactive shell: a `Divert::Interrupt` (error in a
/// special built-in) returns to the loop instead of ending the shell.
fn run_interactive<Su, Fi, T>(config: Config, setup: Su, finish: Fi) -> (Outcome, Option<T>)
where
    Su: FnOnce(&mut VEnv, &Rc<RefCell<SystemState>>) + 'static,
    Fi: FnOnce(&mut VEnv, &Rc<RefCell<SystemState>>) -> T + 'static,
    T: 'static,
{
    use std::cell::Cell;
    use yash_cli::startup::args::{InitFile, Run, Source, Work};
    use yash_cli::startup::configure_environment;
    use yash_env::Env;
    use yash_env::system::Concurrent;
    use yash_env::system::r#virtual::VirtualSystem;

    let system = VirtualSystem::new();
    let state = Rc::clone(&system.state);
    let executor = yash_executor::Executor::new();
    state.borrow_mut().executor = Some(Rc::new(executor.spawner()));
    let max_rounds = config.max_rounds;
    let env = Env::with_system(Rc::new(Concurrent::new(system)));
    let concurrent = Rc::clone(&env.system);
    let result: Rc<Cell<Option<(i32, T)>>> = Rc::new(Cell::new(None));
    let result2 = Rc::clone(&result);
    let state2 = Rc::clone(&state);
    let main = async move {
        let mut env = env;
        let run = Run {
            work: Work {
                source: Source::String(config.script.clone()),
                profile: InitFile::None,
                rcfile: InitFile::None,
            },
            options: config.options.clone(),
            arg0: config.arg0.clone(),
            positional_params: config.positional_params.clone(),
        };
        let work = configure_environment(&mut env, run).await;
        env.builtins.extend(probe_builtins());
        setup(&mut env, &state2);
        env.options.set(ShellOption::Interactive, State::On);
        let status = eval_interactive(&mut env, &work.source).await;
        let t = finish(&mut env, &state2);
        result2.set(Some((status, t)));
    };
    let runner = async move { concurrent.run_virtual(main).await };
    // SAFETY: single-threaded, as in yash_env::test_helper::in_virtual_system and yverif::shell
    unsafe { executor.spawn_pinned(Box::pin(runner)) };
    let mut rounds = 0usize;
    let mut stuck = false;
    let mut out: Option<(i32, T)> = None;
    loop {
        executor.run_until_stalled();
        if let Some(r) = result.take() {
            out = Some(r);
            break;
        }
        rounds += 1;
        let mut st = state.borrow_mut();
        if let Some(next) = st.scheduled_wakers.next_wake_time() {
            st.advance_time(next);
        }
        drop(st);
        if executor.wake_count() == 0 || rounds > max_rounds {
            stuck = true;
            break;
        }
    }
    let stdout = read_file(&state, "/dev/stdout").unwrap_or_default();
    let stderr = read_file(&state, "/dev/stderr").unwrap_or_default();
    let (exit_status, t) = match out {
        Some((s, t)) => (s, Some(t)),
        None => (-1, None),
    };
    (Outcome { stdout, stderr, exit_status, stuck }, t)
}

struct Case {
    noclobber: bool,
    limit: Option<u64>,
    pre: Vec<(i32, char)>,
    /// the shell is interactive (4th header token `i`)
    interactive: bool,
    /// (kind, redirections) of each command of the script
    commands: Vec<(String, Vec<RedirSpec>)>,
}

fn parse_redirs(text: &str) -> Option<Vec<RedirSpec>> {
    let mut redirs = vec![];
    for r in text.split(';').map(|s| s.trim()).filter(|s| !s.is_empty()) {
        let w: Vec<&str> = r.split_whitespace().collect();
        if w.len() != 3 {
            return None;
        }
        let fd: i32 = w[0].parse().ok()?;
        let ok_operand = match w[1] {
            "in" | "out" | "clob" | "app" | "rw" => FILE_OPERANDS.contains(&w[2]),
            "dupin" | "dupout" => ["-", "z", "E", "big", "neg"].contains(&w[2]) || w[2].parse::<u32>().is_ok(),
            "here" => true,
            "pipe" | "hstr" => true,
            // `0 nest -`: separates the outer list from the inner list of a nested command
            "nest" => true,
            _ => false,
        };
        if !ok_operand {
            return None;
        }
        redirs.push((fd, w[1].to_string(), w[2].to_string()));
    }
    Some(redirs)
}

fn parse_case(case: &str) -> Option<Case> {
    let parts: Vec<&str> = case.split('|').map(|s| s.trim()).collect();
    if parts.len() < 3 || parts.len() % 2 != 1 {
        return None;
    }
    let h: Vec<&str> = parts[0].split_whitespace().collect();
    if h.len() != 3 && !(h.len() == 4 && h[3] == "i") {
        return None;
    }
    let interactive = h.len() == 4;
    let noclobber = h[0].parse::<u32>().ok()? != 0;
    let limit = if h[1] == "-" { None } else { Some(h[1].parse::<u64>().ok()?) };
    let mut pre = vec![];
    if h[2] != "-" {
        for p in h[2].split(',') {
            let (n, m) = p.split_at(p.len().checked_sub(1)?);
            let m = m.chars().next()?;
            if !"rwbcxRW".contains(m) {
                return None;
            }
            pre.push((n.parse().ok()?, m));
        }
    }
    let mut commands = vec![];
    for pair in parts[1..].chunks(2) {
        let redirs = parse_redirs(pair[1])?;
        let markers = redirs.iter().filter(|r| r.1 == "nest").count();
        if NEST_KINDS.contains(&pair[0]) {
            if markers != 1 {
                return None;
            }
        } else if !(KINDS.contains(&pair[0]) || io_kind(pair[0]).is_some()) || markers != 0 {
            return None;
        }
        commands.push((pair[0].to_string(), redirs));
    }
    Some(Case { noclobber, limit, pre, interactive, commands })
}

fn operand_text(o: &str) -> String {
    match o {
        "a" => "/tmp/a".into(),
        "b" => "/tmp/b".into(),
        "m" => "/tmp/m".into(),
        "n" => "/tmp/x/n".into(),
        "d" => "/tmp/d".into(),
        "e" => "/tmp/a/e".into(),
        "E" => "${u?}".into(),
        "t" => "/tmp/t".into(),
        // a pathname with a trailing slash whose last component does not exist (nothing creates /tmp/q):
        // `resolve_file` says EISDIR when asked to create it, ENOENT otherwise
        "qs" => "/tmp/q/".into(),
        // a pathname with a NUL byte, a pathname out of a command substitution
        "N" => "$'/tmp/a\\0b'".into(),
        "ca" => "$(echo /tmp/a)".into(),
        "cm" => "$(echo /tmp/m)".into(),
        // the same with a non-zero exit status of the substitution (`perform_redir`'s `Option<ExitStatus>`)
        "c3" => "$(echo /tmp/a; exit 3)".into(),
        "c5m" => "$(echo /tmp/m; exit 5)".into(),
        // descriptor operands that do not fit / are negative
        "big" => "99999999999".into(),
        "neg" => "-1".into(),
        other => other.to_string(),
    }
}

/// shell text of a list: the words and the here-document bodies that follow the line
fn redir_words(redirs: &[RedirSpec], salt: u64) -> (Vec<String>, String) {
    let mut words = vec![];
    let mut bodies = String::new();
    for (i, (fd, op, operand)) in redirs.iter().enumerate() {
        let (sym, default) = match op.as_str() {
            "in" => ("<", 0),
            "out" => (">", 1),
            "clob" => (">|", 1),
            "app" => (">>", 1),
            "rw" => ("<>", 0),
            "dupin" => ("<&", 0),
            "dupout" => (">&", 1),
            "here" => ("<<", 0),
            "pipe" => (">>|", 1),
            _ => ("<<<", 0),
        };
        // the default descriptor is left implicit in half of the cases
        let implicit = *fd == default && ((salt >> (i % 32)) & 1) == 1;
        let n = if implicit { String::new() } else { fd.to_string() };
        if op == "here" {
            words.push(format!("{n}<<E"));
            bodies.push_str("\u{5}\u{6}\nE\n");
        } else if op == "pipe" || op == "hstr" {
            words.push(format!("{n}{sym}/tmp/a"));
        } else {
            words.push(format!("{n}{sym}{}", operand_text(operand)));
        }
    }
    (words, bodies)
}

/// `{ imark; CMD inner…; imark; } outer…` — or the same as a function body, the outer list on the call
fn nested_text(kind: &str, redirs: &[RedirSpec], salt: u64) -> String {
    let at = redirs.iter().position(|r| r.1 == "nest").unwrap_or(redirs.len());
    let (ow, ob) = redir_words(&redirs[..at], salt);
    let (iw, ib) = redir_words(&redirs[(at + 1).min(redirs.len())..], salt.rotate_left(17));
    let cmd = match kind {
        "nestsp" => "sfds",
        "nestexec" => "exec",
        "nestnf" => "nosuchcmd",
        "nestcolon" => ":",
        "nestexecnf" => "exec nosuchcmd",
        _ => "fds",
    };
    let body = format!("imark; {cmd} {}; imark", iw.join(" "));
    if kind == "nestfn" {
        format!("h() {{ {body}; }}\n{ib}h {}\n{ob}mark\n", ow.join(" "))
    } else if kind == "nestfor" {
        format!("for i in 1; do {body}; done {}\n{ib}{ob}mark\n", ow.join(" "))
    } else if kind == "nestif" {
        format!("if :; then {body}; fi {}\n{ib}{ob}mark\n", ow.join(" "))
    } else if kind == "nestcase" {
        format!("case x in x) {body};; esac {}\n{ib}{ob}mark\n", ow.join(" "))
    } else {
        // here-document bodies follow the line in the order of the operators on it: inner first
        format!("{{ imark; {cmd} {}; imark; }} {}\n{ib}{ob}mark\n", iw.join(" "), ow.join(" "))
    }
}

/// `put<fd>.<byte>` / `get<fd>.<count>`
fn io_kind(kind: &str) -> Option<(bool, i32, usize)> {
    let put = kind.starts_with("put");
    if !put && !kind.starts_with("get") {
        return None;
    }
    let (a, b) = kind[3..].split_once('.')?;
    Some((put, a.parse().ok()?, b.parse().ok()?))
}

fn command_text(kind: &str, redirs: &[RedirSpec], salt: u64) -> String {
    if NEST_KINDS.contains(&kind) {
        return nested_text(kind, redirs, salt);
    }
    let (words, bodies) = redir_words(redirs, salt);
    if let Some((put, fd, arg)) = io_kind(kind) {
        return format!("{} {fd} {arg} {}\n{}mark\n", if put { "put" } else { "get" }, words.join(" "), bodies);
    }
    if kind == "guard" || kind == "guardkeep" {
        // the list goes to the built-in's own guard, not to the command
        let idx = GUARD_LISTS.with(|g| {
            let mut g = g.borrow_mut();
            g.push((format!("x {}\n{}", words.join(" "), bodies), kind == "guardkeep"));
            g.len() - 1
        });
        return format!("rg {idx}\nmark\n");
    }
    let cmd = match kind {
        "special" => "sfds",
        "colon" => ":",
        "regular" => "fds",
        "func" => "f",
        "brace" => "{ fds; }",
        "notfound" => "nosuchcmd",
        "empty" => "",
        "paren" => "( fds )",
        "cmdexec" => "command exec",
        "elective" => "efds",
        "extension" => "xfds",
        "substitutive" => "ufds",
        // found when the command is looked up, lost after the assignment to PATH: `resolve_builtin` fails
        "substlost" => "PATH=/nonexistent ufds",
        "funcret" => "g",
        "assign" => "v=2",
        "ext" => "ext",
        "extp" => "/tmp/bin/ext",
        "execbad" => "exec --no-such-option",
        "forloop" => "for i in 1; do fds; done",
        "whileloop" => "while :; do fds; break; done",
        "untilloop" => "until fds; do :; done",
        "ifcmd" => "if fds; then :; fi",
        "casecmd" => "case x in x) fds;; esac",
        "execnf" => "exec nosuchcmd",
        "execne" => "exec /tmp/a",
        "cmdexecnf" => "command exec nosuchcmd",
        "dot" => ". /tmp/s",
        "dotx" => ". /tmp/a/e",
        _ => "exec",
    };
    // half of the simple commands carry an assignment before the command word
    let simple = !["brace", "paren", "empty", "assign", "substlost", "forloop", "whileloop", "untilloop", "ifcmd", "casecmd"]
        .contains(&kind);
    let prefix = if simple && (salt >> 40) & 1 == 1 { "v=1 " } else { "" };
    format!("{}{} {}\n{}mark\n", prefix, cmd, words.join(" "), bodies)
}

fn script_of(c: &Case, salt: u64) -> String {
    let mut s = String::from("f() { fds; }\ng() { fds; return 3; }\nPATH=/tmp/bin\nmark\n");
    for (i, (kind, redirs)) in c.commands.iter().enumerate() {
        s.push_str(&command_text(kind, redirs, salt.rotate_left(7 * i as u32)));
    }
    s
}

fn setup_system(env: &mut VEnv, state: &Rc<RefCell<SystemState>>, pre: &[(i32, char)], limit: Option<u64>) {
    let reg = |path: &str, content: &[u8]| {
        let inode = Rc::new(RefCell::new(Inode::new(content.to_vec())));
        state.borrow_mut().file_system.save(path, inode).unwrap();
    };
    reg("/tmp/a", &[1, 2]);
    reg("/tmp/b", &[3, 4]);
    reg("/tmp/p", &[5, 6]);
    reg("/tmp/s", b"fds\n");
    // a terminal device file: exists, is not regular, reads and writes like a regular file
    let tty = Rc::new(RefCell::new(Inode {
        body: FileBody::Terminal { content: vec![7] },
        permissions: Mode::ALL_9,
    }));
    state.borrow_mut().file_system.save("/tmp/t", tty).unwrap();
    // an executable file (the simulator's execve fails with ENOSYS in the child)
    let mut exe = Inode::new(b"x".to_vec());
    exe.permissions = Mode::ALL_9;
    state.borrow_mut().file_system.save("/tmp/bin/ext", Rc::new(RefCell::new(exe))).unwrap();
    // the external counterpart a substitutive built-in needs in PATH
    let mut exe = Inode::new(b"x".to_vec());
    exe.permissions = Mode::ALL_9;
    state.borrow_mut().file_system.save("/tmp/bin/ufds", Rc::new(RefCell::new(exe))).unwrap();
    let dir = Rc::new(RefCell::new(Inode {
        body: FileBody::Directory { files: Default::default() },
        permissions: Mode::ALL_9,
    }));
    state.borrow_mut().file_system.save("/tmp/d", dir).unwrap();
    env.builtins.extend(c09_builtins());
    let path = CString::new("/tmp/p").unwrap();
    for (fd, m) in pre.iter().filter(|p| p.1 != 'x') {
        // `R` / `W`: read-only / write-only AND close-on-exec (tells the order of `copy_fd`'s checks)
        let acc = match m {
            'r' | 'R' => OfdAccess::ReadOnly,
            'w' | 'W' => OfdAccess::WriteOnly,
            _ => OfdAccess::ReadWrite,
        };
        let got = env
            .system
            .open(&path, acc, Default::default(), Mode::empty())
            .now_or_never()
            .expect("open ready")
            .expect("open /tmp/p");
        if got != Fd(*fd) {
            env.system.dup2(got, Fd(*fd)).expect("dup2");
            env.system.close(got).expect("close");
        }
        if matches!(*m, 'c' | 'R' | 'W') {
            env.system.fcntl_setfd(Fd(*fd), FdFlag::CloseOnExec.into()).expect("setfd");
        }
    }
    for (fd, _) in pre.iter().filter(|p| p.1 == 'x') {
        env.system.close(Fd(*fd)).expect("close");
    }
    if let Some(l) = limit {
        env.system
            .setrlimit(Resource::NOFILE, LimitPair { soft: l as _, hard: INFINITY })
            .expect("setrlimit");
    }
    STATE.with(|s| *s.borrow_mut() = Some(Rc::clone(state)));
}

fn same_table(a: &[Entry], b: &[Entry]) -> bool {
    a == b
}

fn run_case(case: &str) -> (String, String) {
    let Some(c) = parse_case(case) else {
        return ("bad-case".into(), "-".into());
    };
    let salt = case.bytes().fold(0xcbf29ce484222325u64, |h, b| (h ^ b as u64).wrapping_mul(0x100000001b3));
    LOG.with(|l| l.borrow_mut().clear());
    TAINT.with(|t| t.borrow_mut().clear());
    GUARD_LISTS.with(|g| g.borrow_mut().clear());
    let script = script_of(&c, salt);
    let mut config = Config::new(&script);
    if c.noclobber {
        config.options.push((ShellOption::Clobber, State::Off));
    }
    config.max_rounds = 20_000;
    let pre = c.pre.clone();
    let limit = c.limit;
    let setup = move |env: &mut VEnv, state: &Rc<RefCell<SystemState>>| setup_system(env, state, &pre, limit);
    let finish = |env: &mut VEnv, state: &Rc<RefCell<SystemState>>| {
            let st = state.borrow();
            let (s, e) = snapshot(&st, env.main_pid);
            let mut files = vec![];
            for name in ["in", "out", "a", "b", "m", "n", "p", "t"] {
                let path = PATHS.iter().find(|p| p.0 == name).unwrap().1;
                let text = match st.file_system.get(path) {
                    Err(_) => "x".to_string(),
                    Ok(inode_rc) => {
                        let is_tainted = tainted(name, &inode_rc);
                        let inode = inode_rc.borrow();
                        match &inode.body {
                            FileBody::Regular { content, .. } | FileBody::Terminal { content } => {
                                if is_tainted {
                                    "T".to_string()
                                } else {
                                    hex(content)
                                }
                            }
                            FileBody::Directory { .. } => "dir".to_string(),
                            _ => "other".to_string(),
                        }
                    }
                };
                files.push(format!("{name}:{text}"));
            }
            (s, e, files.join(","))
    };
    let (outcome, fin) =
        if c.interactive { run_interactive(config, setup, finish) } else { run_with(config, setup, finish) };
    STATE.with(|s| *s.borrow_mut() = None);
    let log: Vec<(String, String, Vec<Entry>)> = LOG.with(|l| l.borrow_mut().drain(..).collect());
    let Some((f_text, f_entries, files)) = fin else {
        return (if outcome.stuck { "STUCK".into() } else { "NO-RESULT".into() }, "FAIL:stuck".into());
    };
    // the log is: mark, then per command that ran to its end: [fds] mark
    if log.first().map(|e| e.0 != "mark").unwrap_or(true) {
        return ("NO-BEFORE".into(), "FAIL:no-before".into());
    }
    let b_text = log[0].1.split_once(':').map(|x| x.1).unwrap_or("").to_string();
    let mut parts = vec![format!("B={b_text}")];
    let mut verdict = "ok".to_string();
    let mut pos = 1usize;
    let mut base: Vec<Entry> = log[0].2.clone();
    for (kind, redirs) in &c.commands {
        let mut during: Vec<&(String, String, Vec<Entry>)> = vec![];
        // tables after each `perform_redir` of the `rg` built-in, and its summary
        let mut gsteps: Vec<&(String, String, Vec<Entry>)> = vec![];
        let mut gsummary: Option<&(String, String, Vec<Entry>)> = None;
        // nested family: the tables at the two `imark`s inside the outer command
        let mut imarks: Vec<&(String, String, Vec<Entry>)> = vec![];
        while pos < log.len() && ["fds", "gstep", "rg", "imark"].contains(&log[pos].0.as_str()) {
            match log[pos].0.as_str() {
                "fds" => during.push(&log[pos]),
                "gstep" => gsteps.push(&log[pos]),
                "imark" => imarks.push(&log[pos]),
                _ => gsummary = Some(&log[pos]),
            }
            pos += 1;
        }
        let nested = NEST_KINDS.contains(&kind.as_str());
        let after = if pos < log.len() { Some(&log[pos]) } else { None };
        pos += 1;
        let mut d_text = gsummary
            .map(|g| g.1.clone())
            .or_else(|| during.first().map(|d| d.1.clone()))
            .unwrap_or_else(|| "-".into());
        if nested && !imarks.is_empty() {
            // table at the first `imark` (outer list applied) ~ what the inner body saw ~ `$?` and table
            // at the second `imark` (inner list undone, or persisted for `exec`)
            let first = imarks[0].1.split_once(':').map(|x| x.1).unwrap_or("");
            let second = imarks.get(1).map(|m| m.1.as_str()).unwrap_or("-");
            d_text = format!("N:{first}~{d_text}~{second}");
        }
        let a_text = after.map(|a| a.1.clone()).unwrap_or_else(|| "-".into());
        parts.push(format!("D={d_text} A={a_text}"));

        // ---- the property statement on the real run of this command
        let targets: Vec<i32> = redirs.iter().filter(|r| r.1 != "nest").map(|r| r.0).collect();
        // `$?` after the command, or the status the shell ended with at this command
        let status: i32 = after
            .and_then(|a| a.1.split_once(':').and_then(|x| x.0.parse().ok()))
            .unwrap_or(outcome.exit_status);
        // redirections on `exec` persist when they all succeeded (a redirection error gives 2),
        // whether or not a utility named as operand could be invoked (then 127 / 126)
        // (nested family: an inner `exec` persists past the inner command; what it did to a target of the
        // outer list goes away with the outer list)
        let persists =
            (EXEC_FAMILY.contains(&kind.as_str()) || kind == "nestexec" || kind == "nestexecnf") && status != 2;
        if nested && imarks.len() == 2 && !persists && !same_table(&imarks[0].2, &imarks[1].2) {
            verdict = "FAIL:inner-table-not-restored".into();
        }
        if imarks.len() > 2 {
            verdict = "FAIL:body-ran-twice".into();
        }
        if during.len() > 1 {
            verdict = "FAIL:body-ran-twice".into();
        }
        // the table this command leaves: the next mark, or the final table when the shell exited
        let left: &Vec<Entry> = after.map(|a| &a.2).unwrap_or(&f_entries);
        if !persists && !same_table(&base, left) {
            verdict = "FAIL:table-not-restored".into();
        }
        for (fd, _, _) in left {
            let was = base.iter().any(|e| e.0 == *fd);
            if *fd >= 10 && !was && !(persists && targets.contains(fd)) {
                verdict = format!("FAIL:descriptor-{fd}-left-open");
            }
        }
        // "redirections on `exec` persist": what the last redirection asked for is there afterwards
        if persists && !nested {
            if let Some((fd, op, operand)) = redirs.last() {
                let entry = left.iter().find(|e| e.0 == *fd);
                let want_file = matches!(op.as_str(), "in" | "out" | "clob" | "app" | "rw")
                    && ["a", "b", "m", "n"].contains(&operand.as_str());
                let closes = (op == "dupin" || op == "dupout") && operand == "-";
                let was_there = base.iter().find(|e| e.0 == *fd);
                if want_file && (entry.is_none() || entry == was_there || entry.map(|e| e.2).unwrap_or(true)) {
                    verdict = format!("FAIL:exec-redirection-of-{fd}-did-not-persist");
                }
                if op == "here" && (entry.is_none() || entry == was_there) {
                    verdict = format!("FAIL:exec-redirection-of-{fd}-did-not-persist");
                }
                if closes && entry.is_some() {
                    verdict = format!("FAIL:exec-close-of-{fd}-did-not-persist");
                }
            }
        }
        // no CLOEXEC descriptor below 10 is ever visible or left that was not there before
        let mut seen: Vec<(&str, &Vec<Entry>)> = vec![("left", left)];
        seen.extend(during.first().map(|d| ("visible", &d.2)));
        seen.extend(gsteps.iter().map(|g| ("after-a-step", &g.2)));
        seen.extend(imarks.iter().map(|g| ("inside", &g.2)));
        for (what, table) in seen {
            for e in table {
                if e.0 < 10 && e.2 && !base.contains(e) {
                    verdict = format!("FAIL:cloexec-descriptor-{}-{what}", e.0);
                }
            }
        }
        // what the body of the command sees, and what the process table is after every step of the
        // guard driven directly: anything new that is not a target is the guard's, >= 10 and CLOEXEC
        for d in during.first().into_iter().chain(gsteps.iter()).chain(imarks.iter()) {
            for e in &d.2 {
                let unchanged = base.contains(e);
                if !unchanged && !targets.contains(&e.0) && !(e.0 >= 10 && e.2) {
                    verdict = format!("FAIL:internal-descriptor-{}", e.0);
                }
            }
        }
        match after {
            Some(a) => base = a.2.clone(),
            None => {
                // the shell ended at this command; what a persisting `exec` left is the new base
                if persists {
                    base = left.clone();
                }
                break;
            }
        }
    }
    // commands after the one at which the shell exited did not run
    while parts.len() < c.commands.len() + 1 {
        parts.push("D=- A=-".into());
    }
    if !same_table(&base, &f_entries) && verdict == "ok" {
        // `base` is the table after the last command that ran to its end (or the one before the
        // command at which the shell exited, which must have restored it)
        verdict = "FAIL:final-table-differs".into();
    }
    let obs = format!("{} F={f_text} files={files} exit={}", parts.join(" "), outcome.exit_status);
    (obs, verdict)
}

fn run_guarded(case: &str) -> (String, String) {
    let mut out = (String::new(), String::new());
    let o = guarded(|| {
        out = run_case(case);
        out.0.clone()
    });
    if o.starts_with("PANIC") { (o.clone(), format!("FAIL:{o}")) } else { out }
}

const KINDS: [&str; 31] = [
    "guard", "guardkeep", "elective", "extension", "substitutive", "substlost",
    "special", "colon", "regular", "func", "brace", "notfound", "empty", "exec", "paren", "cmdexec", "dot", "dotx",
    "execnf", "execne", "cmdexecnf", "funcret", "assign", "ext", "extp", "execbad", "forloop", "whileloop",
    "untilloop", "ifcmd", "casecmd",
];
/// nested family: `{ imark; CMD inner…; imark; } outer…` with CMD = `fds` (`nest`; `nestfn`: the same as the
/// body of a function, the outer list on the call), `sfds`, `exec`, `nosuchcmd`, `:`, `exec nosuchcmd`; the
/// list is `outer…; 0 nest -; inner…`
/// (`nestfor` / `nestif` / `nestcase`: the outer command is a `for` / `if` / `case` instead of `{ }`)
const NEST_KINDS: [&str; 10] =
    ["nest", "nestfn", "nestsp", "nestexec", "nestnf", "nestcolon", "nestexecnf", "nestfor", "nestif", "nestcase"];
/// kinds whose built-in asks to retain the redirections (`should_retain_redirs`)
const EXEC_FAMILY: [&str; 6] = ["exec", "cmdexec", "execnf", "execne", "cmdexecnf", "guardkeep"];
const FILE_OPS: [&str; 5] = ["in", "out", "clob", "app", "rw"];
const FILE_OPERANDS: [&str; 14] = ["a", "b", "m", "n", "d", "e", "E", "t", "N", "ca", "cm", "c3", "c5m", "qs"];

fn gen_redir(r: &mut Rng) -> String {
    let fd = match r.below(10) {
        0..=5 => r.below(4),
        6..=8 => 4 + r.below(6),
        _ => 10 + r.below(3),
    };
    match r.below(12) {
        0..=5 => {
            let operand = if r.chance(3, 5) { *r.pick(&["a", "b", "m", "n"]) } else { *r.pick(&FILE_OPERANDS) };
            format!("{fd} {} {}", r.pick(&FILE_OPS), operand)
        }
        6..=8 => {
            let op = r.pick(&["dupin", "dupout"]);
            let src = match r.below(10) {
                0 => "-".to_string(),
                1 => r.pick(&["z", "big", "neg", "4000"]).to_string(),
                2 => "E".to_string(),
                3..=6 => r.below(4).to_string(),
                7 => (4 + r.below(6)).to_string(),
                _ => (10 + r.below(3)).to_string(),
            };
            format!("{fd} {op} {src}")
        }
        9 | 10 => format!("{fd} here -"),
        _ => format!("{fd} {} a", r.pick(&["pipe", "hstr"])),
    }
}

fn gen_pre(r: &mut Rng) -> (String, i32) {
    let mut v = vec![];
    let mut max_open = 2;
    for fd in 3..10 {
        if r.chance(1, 5) {
            v.push(format!("{fd}{}", r.pick(&["r", "w", "b"])));
            max_open = fd;
        }
    }
    for fd in 10..13 {
        if r.chance(1, 6) {
            v.push(format!("{fd}{}", r.pick(&["c", "c", "b", "R", "W"])));
            max_open = fd;
        }
    }
    for fd in 0..3 {
        if r.chance(1, 10) {
            v.push(format!("{fd}x"));
        }
    }
    (if v.is_empty() { "-".into() } else { v.join(",") }, max_open)
}

fn gen_case(r: &mut Rng) -> String {
    let nc = r.below(2);
    let (pre, max_open) = gen_pre(r);
    // the limit stays above every open descriptor (hypothesis `WF` of the theorems)
    let lim = if r.chance(1, 2) {
        "-".to_string()
    } else {
        let lo = (max_open + 1).max(3) as usize;
        (lo + r.below(15usize.saturating_sub(lo).max(1))).to_string()
    };
    // one command in two thirds of the cases, otherwise a script of 2-3 commands (the first often `exec`)
    let ncmd = if r.chance(2, 3) { 1 } else { 2 + r.below(2) };
    let mut cmds = vec![];
    let mut has_nested = false;
    for i in 0..ncmd {
        // one command in eight is a nested one (outer list; marker; inner list)
        if r.chance(1, 8) {
            has_nested = true;
            let kind = *r.pick(&NEST_KINDS);
            let mut rs: Vec<String> = (0..r.below(3)).map(|_| gen_redir(r)).collect();
            rs.push("0 nest -".into());
            rs.extend((0..r.below(3)).map(|_| gen_redir(r)));
            cmds.push(format!("{kind} | {}", rs.join("; ")));
            continue;
        }
        let kind = if ncmd > 1 && i == 0 && r.chance(1, 2) { *r.pick(&["exec", "cmdexec"]) } else { *r.pick(&KINDS) };
        let n = match r.below(10) {
            0 => 0,
            1..=4 => 1,
            5..=7 => 2,
            8 => 3,
            _ => 4,
        };
        let rs: Vec<String> = (0..n).map(|_| gen_redir(r)).collect();
        cmds.push(format!("{kind} | {}", rs.join("; ")));
    }
    let _ = has_nested;
    let inter = if r.chance(1, 3) { " i" } else { "" };
    format!("{nc} {lim} {pre}{inter} | {}", cmds.join(" | "))
}

/// every operator × operand on each kind; failing second redirection after a successful first
fn systematic(thorough: bool) -> Vec<String> {
    let mut v = vec![];
    let mut singles = vec![];
    for op in FILE_OPS {
        for o in FILE_OPERANDS {
            singles.push(format!("{op} {o}"));
        }
    }
    for op in ["dupin", "dupout"] {
        for o in ["-", "z", "0", "1", "2", "3", "5", "10", "11", "big", "neg", "4000"] {
            singles.push(format!("{op} {o}"));
        }
    }
    singles.push("here -".into());
    singles.push("pipe a".into());
    singles.push("hstr a".into());
    let pres = ["-", "3r,5w,11c", "3b,10b,1x"];
    for kind in KINDS {
        for s in &singles {
            for (i, pre) in pres.iter().enumerate() {
                for fd in [0, 1, 2, 3, 5, 10, 11] {
                    if !thorough && (i + fd as usize) % 3 != 0 {
                        continue;
                    }
                    for nc in [0, 1] {
                        if nc == 1 && !s.starts_with("out") {
                            continue;
                        }
                        v.push(format!("{nc} - {pre} | {kind} | {fd} {s}"));
                    }
                }
            }
        }
    }
    // the order example and failures part-way
    for kind in KINDS {
        for pre in ["-", "3b"] {
            v.push(format!("0 - {pre} | {kind} | 2 dupout 1; 1 out m"));
            v.push(format!("0 - {pre} | {kind} | 1 out m; 2 dupout 1"));
            v.push(format!("0 - {pre} | {kind} | 1 out a; 0 in m"));
            v.push(format!("0 - {pre} | {kind} | 3 out a; 4 in m; 5 out b"));
            v.push(format!("1 - {pre} | {kind} | 1 out m; 1 out m"));
            v.push(format!("0 - {pre} | {kind} | 0 here -; 1 dupout 0; 3 dupin 0"));
        }
    }
    v
}

/// every ordered pair of a set of single redirections (a failing or succeeding second after a
/// failing or succeeding first; same and different targets)
fn pairs(thorough: bool) -> Vec<String> {
    let singles = [
        "1 out a", "1 out m", "1 app b", "1 out e", "1 clob a", "0 in a", "0 in m", "0 rw n", "0 here -",
        "2 dupout 1", "1 dupout 2", "1 dupout -", "0 dupin -", "3 out m", "3 dupout 1", "3 dupin 0",
        "1 dupout 3", "0 dupin 3", "3 dupout -", "2 out m", "10 out m", "1 dupout 10", "5 here -",
        "1 dupout 5", "1 out E", "1 pipe a", "0 dupin z", "2 dupout 7", "1 out d", "4 in d",
    ];
    let mut v = vec![];
    let mut k = 0usize;
    for a in singles {
        for b in singles {
            for (i, kind) in KINDS.iter().enumerate() {
                k += 1;
                if !thorough && (k + i) % 7 != 0 {
                    continue;
                }
                let pre = if k % 2 == 0 { "-" } else { "3b" };
                let nc = (k / 2) % 2;
                v.push(format!("{nc} - {pre} | {kind} | {a}; {b}"));
            }
        }
    }
    v
}

/// every position at which allocation fails: each limit on lists that allocate several times
fn exhaustion(thorough: bool) -> Vec<String> {
    let lists = [
        "1 out a",
        "1 out a; 2 dupout 1",
        "0 in a; 1 out b; 2 app m",
        "0 here -; 1 out a",
        "3 out a; 4 out b",
        "1 out m; 1 out m",
        "5 dupout 1; 1 dupout -; 0 here -",
        "1 out a; 2 out b; 0 in a; 3 rw m",
    ];
    let pres = ["-", "3b", "3b,4r", "3r,4w,5b", "10b", "10c,11b", "0x", "3b,1x"];
    let mut v = vec![];
    for (i, l) in lists.iter().enumerate() {
        for (j, pre) in pres.iter().enumerate() {
            let max_open = pre
                .split(',')
                .filter(|p| !p.ends_with('x') && *p != "-")
                .filter_map(|p| p[..p.len() - 1].parse::<i32>().ok())
                .max()
                .unwrap_or(2)
                .max(2);
            for lim in (max_open + 1)..=15 {
                for (k, kind) in KINDS.iter().enumerate() {
                    if !thorough && (i + j + k + lim as usize) % 5 != 0 {
                        continue;
                    }
                    for nc in [0, 1] {
                        if nc == 1 && !thorough {
                            continue;
                        }
                        v.push(format!("{nc} {lim} {pre} | {kind} | {l}"));
                    }
                }
            }
        }
    }
    v
}

/// the `.` built-in (open + `move_fd_internal`, run, close) under every limit, alone and with
/// redirections whose saved copies occupy the first internal slots while it runs
fn dot_cases() -> Vec<String> {
    let pres = ["-", "3b", "3b,4r", "10b", "10c,11b", "0x", "3b,1x", "3r,4w,5b,6b,7b,8b,9b"];
    let lists = ["", "1 out m; 2 dupout 1", "1 out a", "0 here -; 1 app b", "3 out m", "10 out m"];
    let mut v = vec![];
    for pre in pres {
        let max_open = pre
            .split(',')
            .filter(|p| !p.ends_with('x') && *p != "-")
            .filter_map(|p| p[..p.len() - 1].parse::<i32>().ok())
            .max()
            .unwrap_or(2)
            .max(2);
        for lim in (max_open + 1)..=15 {
            for l in lists {
                for kind in ["dot", "dotx"] {
                    v.push(format!("0 {lim} {pre} | {kind} | {l}"));
                }
            }
        }
        for l in lists {
            v.push(format!("0 - {pre} | dot | {l}"));
            v.push(format!("0 - {pre} | dot | {l} | regular | 1 out m"));
        }
    }
    v
}

/// every path through `execute_builtin` on which `should_retain_redirs` decides between keep and
/// undo: the `exec` family (no operand / operand not found / not executable, directly and through
/// `command`), in interactive and non-interactive shells, followed by a command that inspects the
/// table; and every other kind in an interactive shell (errors of special built-ins do not end it)
fn exec_cases(thorough: bool) -> Vec<String> {
    let lists = [
        "", "4 out b", "4 out b; 2 out m", "1 out m; 2 dupout 1", "0 here -", "3 dupout 1; 1 dupout -",
        "1 out a; 0 in m", "4 out e", "1 app b; 5 rw n", "0 in a; 0 dupin -", "10 out m", "1 dupout 11",
    ];
    let mut v = vec![];
    for inter in ["", " i"] {
        for kind in EXEC_FAMILY {
            for l in lists {
                for pre in ["-", "3b,11c"] {
                    for nc in [0, 1] {
                        if nc == 1 && !l.contains(" out ") {
                            continue;
                        }
                        v.push(format!("{nc} - {pre}{inter} | {kind} | {l} | regular | "));
                        v.push(format!("{nc} - {pre}{inter} | {kind} | {l} | regular | 1 out m | exec | 4 dupout -"));
                    }
                    for lim in [4, 10, 11, 12] {
                        v.push(format!("0 {lim} -{inter} | {kind} | {l} | special | "));
                    }
                }
            }
        }
    }
    let singles = ["1 out a", "1 out e", "0 in m", "2 dupout 1; 1 out m", "1 out m; 0 in e", "0 here -", "3 dupout 7"];
    for (i, kind) in KINDS.iter().enumerate() {
        for (j, l) in singles.iter().enumerate() {
            if !thorough && (i + j) % 2 != 0 {
                continue;
            }
            v.push(format!("0 - - i | {kind} | {l} | regular | 1 out b"));
            v.push(format!("0 11 3b i | {kind} | {l} | special | "));
        }
    }
    v
}

/// an operand whose expansion fails (`${u?}`, or a command substitution that cannot get its pipe under a
/// low limit) at every position of a list, after redirections that succeeded and hold saved copies, on
/// every kind, in interactive and non-interactive shells, followed by a command that shows whether the
/// shell went on (`Handle for redir::Error` delegates the `Expansion` cause: the command is abandoned
/// and the shell interrupted whatever the kind)
fn expansion_cases(thorough: bool) -> Vec<String> {
    let lists = [
        "0 in E",
        "1 out a; 0 in E",
        "1 out a; 2 dupout 1; 0 in E",
        "3 out m; 4 dupout E",
        "0 here -; 1 out E; 2 out b",
        "1 out E; 1 out a",
        "5 rw n; 0 dupin E; 1 out b",
        "1 app b; 1 out ca",
    ];
    let mut v = vec![];
    for (i, kind) in KINDS.iter().enumerate() {
        for (j, l) in lists.iter().enumerate() {
            for inter in ["", " i"] {
                for pre in ["-", "3b,11c"] {
                    if !thorough && (i + j) % 2 != 0 && pre != "-" {
                        continue;
                    }
                    v.push(format!("0 - {pre}{inter} | {kind} | {l} | regular | 1 out m"));
                }
                // the substitution's pipe needs two free descriptors: limits around the boundary
                if l.ends_with("ca") {
                    for lim in [4, 5, 6, 12, 13] {
                        v.push(format!("0 {lim} -{inter} | {kind} | {l} | special | "));
                    }
                }
            }
        }
    }
    v
}

/// the guard driven directly (`rg` built-in): every single redirection, and lists with a failure at
/// every position, under every limit; the table is looked at after each `perform_redir`
fn guard_cases(thorough: bool) -> Vec<String> {
    let lists = [
        "1 out a; 2 dupout 1; 0 in m",
        "1 out a; 1 app b; 1 dupout -",
        "0 here -; 3 dupin 0; 0 dupin -; 3 in a",
        "3 out m; 3 dupout -; 3 in m",
        "1 dupout 7; 1 out a",
        "2 out d; 1 out a",
        "1 out a; 10 out m; 1 dupout 10",
        "5 rw n; 5 dupout neg",
        "0 dupin 4000; 0 in a",
        "1 out N; 1 out a",
        "1 pipe a",
        "1 out ca; 2 out cm",
    ];
    let mut v = vec![];
    for kind in ["guard", "guardkeep"] {
        for (i, l) in lists.iter().enumerate() {
            for pre in ["-", "3b,11c", "0x,1x", "10b"] {
                for nc in [0, 1] {
                    v.push(format!("{nc} - {pre} | {kind} | {l} | regular | "));
                }
                let lo = if pre == "10b" || pre == "3b,11c" { 12 } else { 3 };
                for lim in lo..=15 {
                    if !thorough && (i + lim) % 3 != 0 {
                        continue;
                    }
                    v.push(format!("0 {lim} {pre} | {kind} | {l} | {kind} | 1 out m; 0 in e"));
                }
            }
        }
    }
    v
}

/// the order of `copy_fd`'s checks (access mode first, then CLOEXEC): sources that are close-on-exec AND
/// lack the access the operator needs (`R` read-only, `W` write-only), at and above 10 and below it
fn copy_order_cases(thorough: bool) -> Vec<String> {
    let mut v = vec![];
    for pre in ["11R,12W", "5R,6W", "10W,11c,12R", "4W,10R"] {
        let fds: Vec<&str> = pre.split(',').map(|p| &p[..p.len() - 1]).collect();
        for (i, kind) in KINDS.iter().enumerate() {
            for (j, op) in ["dupin", "dupout"].iter().enumerate() {
                for (k, src) in fds.iter().enumerate() {
                    for target in [0, 1, 3] {
                        if !thorough && (i + j + k + target) % 3 != 0 && !kind.starts_with("guard") {
                            continue;
                        }
                        v.push(format!("0 - {pre} | {kind} | {target} {op} {src}"));
                        v.push(format!("0 - {pre} | {kind} | 1 out a; {target} {op} {src} | regular | "));
                    }
                }
            }
        }
    }
    v
}

/// two guards alive at once: an outer list on a compound command / function call, an inner list on a command
/// in its body; failures at every position of either list, shared targets, saved copies of the outer list
/// in the way of the inner one, lowered limits, an inner `exec`
fn nested_cases(thorough: bool) -> Vec<String> {
    let outers = [
        "", "1 out a", "1 out m; 2 dupout 1", "0 here -", "3 out b; 1 dupout 3", "1 dupout -", "0 in m", "1 out a; 0 in e",
        "10 out m", "5 rw n; 0 dupin 5",
    ];
    let inners = [
        "", "1 out b", "1 out a", "0 in a; 1 dupout 2", "2 out m; 1 dupout 2", "0 here -", "1 dupout 10", "10 out m",
        "3 dupout 1; 1 dupout -", "0 in m", "1 out b; 0 in e", "4 out E", "1 dupout -", "12 dupout 1",
    ];
    let mut v = vec![];
    for (k, kind) in NEST_KINDS.iter().enumerate() {
        for (i, o) in outers.iter().enumerate() {
            for (j, inn) in inners.iter().enumerate() {
                for (p, pre) in ["-", "3b,11c", "10b", "0x"].iter().enumerate() {
                    if !thorough && (i + j + k + p) % 4 != 0 {
                        continue;
                    }
                    let sep = if o.is_empty() { "" } else { "; " };
                    let list = format!("{o}{sep}0 nest -; {inn}");
                    v.push(format!("0 - {pre} | {kind} | {list} | regular | 1 out m"));
                    // interactive: an interrupted inner command skips the rest of the outer body
                    if (i + j + k) % 3 == 0 {
                        v.push(format!("0 - {pre} i | {kind} | {list} | regular | 1 out m"));
                    }
                    let lo = if *pre == "-" || *pre == "0x" { 3 } else { 12 };
                    for lim in lo..=14 {
                        if (i + j + lim) % (if thorough { 2 } else { 7 }) == 0 {
                            v.push(format!("{} {lim} {pre} | {kind} | {list} | special | ", (i + j) % 2));
                        }
                    }
                }
            }
        }
    }
    v
}

/// the exit status of a command substitution in an operand: `perform_redir` hands it back, `perform_redirs`
/// keeps the last one, a command without a command word (`empty`, `assign`) exits with it
fn cs_status_cases() -> Vec<String> {
    let lists = [
        "1 out c3", "1 out c3; 2 out c5m", "1 out c5m; 2 app ca", "1 out c3; 0 in m", "0 in m; 1 out c3", "1 out a; 2 app c3",
        "1 out c3; 2 out b", "0 in c3; 0 dupin -", "1 out c5m; 1 out c3; 1 out cm",
    ];
    let mut v = vec![];
    for kind in ["empty", "assign", "guard", "guardkeep", "regular", "special", "exec", "func", "brace", "notfound"] {
        for l in lists {
            for nc in [0, 1] {
                v.push(format!("{nc} - - | {kind} | {l} | regular | "));
            }
            for lim in [4, 5, 6, 12] {
                v.push(format!("0 {lim} - | {kind} | {l} | regular | "));
            }
            v.push(format!("0 - 3b,11c i | {kind} | {l} | special | "));
        }
    }
    v
}

/// a pathname with a trailing slash (`/tmp/q/`, nothing named /tmp/q): every operator, noclobber on and off, on
/// the kinds that show the error cause / the table / whether the shell goes on, after a redirection that
/// succeeded and before one that would
fn slash_cases() -> Vec<String> {
    let mut v = vec![];
    for kind in ["guard", "guardkeep", "regular", "special", "exec", "empty", "func", "brace", "notfound", "nest"] {
        for op in FILE_OPS {
            for nc in [0, 1] {
                let sep = if kind == "nest" { "0 nest -; " } else { "" };
                v.push(format!("{nc} - - | {kind} | {sep}1 {op} qs | regular | "));
                v.push(format!("{nc} - 3b,11c | {kind} | {sep}2 out a; 0 {op} qs; 1 out m | regular | 1 out b"));
                v.push(format!("{nc} 4 - | {kind} | {sep}1 {op} qs | special | "));
                v.push(format!("{nc} - - i | {kind} | {sep}3 {op} qs | regular | "));
            }
        }
    }
    v
}

/// file CONTENTS and offsets through arbitrary descriptors (`put` / `get`): sharing of one open file description
/// after `n>&m` vs two descriptions after two opens, `>>` at every write, `<>` reading and writing through one
/// offset without truncating, `>|` / noclobber, an earlier `>` not undone by a later failing item, here-document
/// contents read once from the start
fn content_cases() -> Vec<String> {
    let mut v: Vec<String> = [
        // shared offset: concatenated; two opens: overwritten
        "0 - - | exec | 3 out m; 4 dupout 3 | put3.1 | | put4.2 | | put3.3 | | regular | ",
        "0 - - | exec | 3 out m; 4 out m | put3.1 | | put3.2 | | put4.3 | | regular | ",
        "0 - - | exec | 3 out a; 4 dupout 3; 5 rw a | put4.1 | | put3.2 | | get5.4 | | get5.1 | ",
        // `>>` appends at every write, also after another descriptor extended the file
        "0 - - | exec | 3 app a; 4 app a; 5 out b | put3.1 | | put4.2 | | put3.3 | | put5.4 | | put5.5 | ",
        "0 - - | exec | 3 app a; 4 rw a | put4.7 | | put3.1 | | put4.6 | | put3.2 | | get4.9 | ",
        // `<>`: neither truncates nor creates exclusively; one offset for reading and writing
        "0 - - | exec | 3 rw a | get3.1 | | put3.5 | | get3.1 | | put3.6 | ",
        "0 - - | exec | 3 rw m | get3.1 | | put3.5 | | get3.1 | ",
        "1 - - | exec | 3 rw a; 4 rw a | put3.5 | | get4.2 | ",
        // `>|` and noclobber
        "1 - - | put1.5 | 1 out a | get0.2 | 0 in a | regular | ",
        "1 - - | put1.5 | 1 clob a | get0.2 | 0 in a | ",
        "1 - - | put1.5 | 1 out m | get0.2 | 0 in m | ",
        "1 - - | put1.5 | 1 out t | get0.2 | 0 in t | ",
        "0 - - | put1.5 | 1 out a | get0.2 | 0 in a | ",
        // an earlier `>` is not undone by a later failing item of the same command
        "0 - - | put1.5 | 1 out a; 0 in m | get0.2 | 0 in a | ",
        "0 - - | put3.5 | 3 out b; 1 dupout 7 | get0.2 | 0 in b | ",
        "0 11 - | regular | 12 out a | get0.2 | 0 in a | ",
        "0 11 - | put1.5 | 1 out b; 12 out a | get0.2 | 0 in a | get0.2 | 0 in b | ",
        // here-document: readable once from the start
        "0 - - | exec | 3 here - | get3.2 | | get3.2 | | get3.2 | ",
        "0 - - | get0.3 | 0 here - | get0.3 | 0 here - | ",
        "0 - - | exec | 3 here -; 4 dupin 3 | get3.1 | | get4.1 | | get3.5 | ",
        // errors of the built-ins themselves: closed / wrong access
        "0 - - | put7.1 | | get7.1 | | put0.1 | 0 in a | get1.1 | 1 out m | ",
    ]
    .iter()
    .map(|s| s.to_string())
    .collect();
    // every operator pair on one file through two descriptors, two writes each and a read-back
    for a in FILE_OPS {
        for b in FILE_OPS {
            for nc in [0, 1] {
                for f in ["a", "m"] {
                    v.push(format!(
                        "{nc} - - | exec | 3 {a} {f}; 4 {b} {f} | put3.1 | | put4.2 | | put3.3 | | get4.2 | | get0.4 | 0 in {f} | "
                    ));
                }
            }
        }
    }
    for lim in 5..=8 {
        v.push(format!("0 {lim} - | exec | 3 out m; 4 dupout 3; 5 app m | put3.1 | 1 out b | put5.2 | | put4.3 | | get0.4 | 0 in m | "));
    }
    // a case is header | kind | list | kind | list …: drop the separator after a last, non-empty list
    for c in v.iter_mut() {
        if c.split('|').count() % 2 == 0 {
            *c = c.trim_end().trim_end_matches('|').trim_end().to_string();
        }
        assert!(parse_case(c).is_some(), "malformed fixed case: {c}");
    }
    v
}

fn main() {
    quiet_panics();
    let o = Opts::from_args();
    let (fixed, only) = o.fixed_cases();
    for c in &fixed {
        let (obs, oracle) = run_guarded(c);
        emit(c, &obs, &oracle);
    }
    if only {
        return;
    }
    let mut index = 0usize;
    let mut all = systematic(o.thorough());
    all.extend(exhaustion(o.thorough()));
    all.extend(pairs(o.thorough()));
    all.extend(dot_cases());
    all.extend(exec_cases(o.thorough()));
    all.extend(expansion_cases(o.thorough()));
    all.extend(guard_cases(o.thorough()));
    all.extend(copy_order_cases(o.thorough()));
    all.extend(nested_cases(o.thorough()));
    all.extend(cs_status_cases());
    all.extend(slash_cases());
    all.extend(content_cases());
    for c in &all {
        if index % o.shard.1 == o.shard.0 {
            let (obs, oracle) = run_guarded(c);
            emit(c, &obs, &oracle);
        }
        index += 1;
    }
    let mut rng = Rng::new(o.seed ^ 0xC09);
    let n = if o.thorough() { 1_000_000 } else { 6_000 };
    for k in 0..n {
        let mut r = rng.fork();
        if k % o.shard.1 != o.shard.0 {
            continue;
        }
        let c = gen_case(&mut r);
        let (obs, oracle) = run_guarded(&c);
        emit(&c, &obs, &oracle);
    }
}
