//! C01 — word expansion and field splitting against the real parser, expansion and `read`.
//!
//! Case lines (see /verif/lean/YashModel/Expansion/Main.lean for the grammar):
//!   `W <state>* | <word tokens>`   the word is rendered to shell source and run as `probe <word>`
//!                                  (with `set -f`) in a whole shell on the virtual system
//!   `R <state>* raw=<0|1> n=<k> | <stdin hex>`   `read [-r] v1 … vk` on that standard input
//!   `WS`                           white-space code points according to `char::is_whitespace`
//!
//! Observation of `W`: the exact fields received by `probe` (or the error class), and the values
//! of x y e u r afterwards.  Oracle (independent of the Lean model):
//!   * the rendered source parses (real parser) to exactly the word of the case line;
//!   * the fields equal  quote-removal(recursive POSIX splitter(initial expansion))  where the
//!     initial expansion is obtained from the real `Word::expand` on a clone of the environment
//!     and the splitter is a direct recursive implementation of XCU 2.6.5 in this file;
//!   * the shell fails iff the direct expansion fails.
//! Oracle of `R`: XCU `read` evaluated with the same recursive splitter.

use futures_util::FutureExt as _;
use std::cell::RefCell;
use std::rc::Rc;
use yash_env::option::{Option as ShellOption, State};
use yash_env::job::Pid;
use yash_env::semantics::ExitStatus;
use yash_env::semantics::expansion::attr::{AttrChar, AttrField, Origin};
use yash_env::semantics::expansion::attr_strip::Strip as _;
use yash_env::semantics::expansion::quote_removal::remove_quotes;
use yash_env::semantics::expansion::split::{Class, Ifs};
use yash_env::source::Location;
use yash_env::system::r#virtual::FileBody;
use yash_env::variable::{Context, IFS, PositionalParams, Scope, Value};
use yash_semantics::expansion::initial::{Env as InitialEnv, Expand as _, Vacancy};
use yash_semantics::expansion::phrase::Phrase;
use yash_semantics::expansion::{Error as ExpError, ErrorCause};
use yash_syntax::syntax as sx;
use yash_syntax::syntax::Unquote as _;
use yverif::proto::{Opts, dec_str, emit, enc_str, guarded, quiet_panics};
use yverif::rng::Rng;
use yverif::shell::{Config, VEnv, run_with};

// ------------------------------------------------------------------------------------------
// word AST (subset of yash_syntax::syntax) and its token form

#[derive(Clone, Debug, PartialEq)]
enum Mo {
    None,
    Len,
    Sw { colon: bool, act: char, w: Vec<WU> },
    Tr { side: char, long: bool, w: Vec<WU> },
}

#[derive(Clone, Debug, PartialEq)]
enum TU {
    Lit(char),
    Bs(char),
    Par { braced: bool, p: String, m: Mo },
    /// `$((…))`
    Arith(Vec<TU>),
    /// `$(command)` / `` `command` `` (command text after unquoting)
    Cmd { backquote: bool, cmd: String },
}

#[derive(Clone, Debug, PartialEq)]
enum WU {
    Unq(TU),
    Sq(String),
    /// `$'…'`, content already unquoted
    Dsq(String),
    Dq(Vec<TU>),
    /// tilde prefix `~name`, as `Word::parse_tilde_front` makes it (slash = followed by `/`)
    Tilde { name: String, slash: bool },
}

fn tok_char(c: char) -> String {
    enc_str(&c.to_string())
}

fn tu_tokens(u: &TU, out: &mut Vec<String>) {
    match u {
        TU::Lit(c) => out.push(format!("L{}", tok_char(*c))),
        TU::Bs(c) => out.push(format!("B{}", tok_char(*c))),
        TU::Cmd { backquote, cmd } => out.push(format!("K{}{}", if *backquote { "b" } else { "" }, enc_str(cmd))),
        TU::Arith(ts) => {
            out.push("A[".into());
            for t in ts {
                tu_tokens(t, out);
            }
            out.push("]".into());
        }
        TU::Par { braced: false, p, .. } => out.push(format!("${p}")),
        TU::Par { braced: true, p, m } => {
            out.push(format!("{{{p}"));
            match m {
                Mo::None => {}
                Mo::Len => out.push("len".into()),
                Mo::Sw { colon, act, w } => {
                    out.push(format!("sw{}{}", if *colon { ":" } else { "" }, act));
                    word_tokens(w, out);
                }
                Mo::Tr { side, long, w } => {
                    let s = side.to_string();
                    out.push(format!("tr{}{}", s, if *long { s.as_str() } else { "" }));
                    word_tokens(w, out);
                }
            }
            out.push("}".into());
        }
    }
}

fn word_tokens(w: &[WU], out: &mut Vec<String>) {
    for u in w {
        match u {
            WU::Unq(t) => tu_tokens(t, out),
            WU::Sq(s) => out.push(format!("S{}", enc_str(s))),
            WU::Dsq(s) => out.push(format!("Q{}", enc_str(s))),
            WU::Tilde { name, slash } => out.push(format!("T{}{}", if *slash { "/" } else { "" }, enc_str(name))),
            WU::Dq(ts) => {
                out.push("D[".into());
                for t in ts {
                    tu_tokens(t, out);
                }
                out.push("]".into());
            }
        }
    }
}

fn word_string(w: &[WU]) -> String {
    let mut v = vec![];
    word_tokens(w, &mut v);
    v.join(" ")
}

fn one_char(t: &str) -> Option<char> {
    let s = dec_str(t)?;
    let mut it = s.chars();
    let c = it.next()?;
    if it.next().is_some() { None } else { Some(c) }
}

fn parse_tu<'a>(tok: &'a str, rest: &mut std::slice::Iter<'a, &'a str>) -> Option<TU> {
    if let Some(h) = tok.strip_prefix('L') {
        return Some(TU::Lit(one_char(h)?));
    }
    if let Some(h) = tok.strip_prefix('B') {
        return Some(TU::Bs(one_char(h)?));
    }
    if let Some(h) = tok.strip_prefix("Kb") {
        return Some(TU::Cmd { backquote: true, cmd: dec_str(h)? });
    }
    if let Some(h) = tok.strip_prefix('K') {
        return Some(TU::Cmd { backquote: false, cmd: dec_str(h)? });
    }
    if tok == "A[" {
        let mut ts = vec![];
        loop {
            match rest.next().copied() {
                Some("]") => return Some(TU::Arith(ts)),
                None | Some("}") => return None,
                Some(t) => ts.push(parse_tu(t, rest)?),
            }
        }
    }
    if let Some(p) = tok.strip_prefix('$') {
        return Some(TU::Par { braced: false, p: p.to_string(), m: Mo::None });
    }
    if let Some(p) = tok.strip_prefix('{') {
        let p = p.to_string();
        let mut look = rest.clone();
        let m = match look.next().copied() {
            Some("}") => {
                rest.next();
                return Some(TU::Par { braced: true, p, m: Mo::None });
            }
            Some("len") => {
                rest.next();
                Mo::Len
            }
            Some(m) if m.starts_with("sw") => {
                rest.next();
                let body = &m[2..];
                let (colon, a) = match body.strip_prefix(':') {
                    Some(a) => (true, a),
                    None => (false, body),
                };
                let act = a.chars().next()?;
                if a.len() != 1 || !"-=?+".contains(act) {
                    return None;
                }
                Mo::Sw { colon, act, w: parse_units(rest)? }
            }
            Some(m) if m.starts_with("tr") => {
                rest.next();
                let (side, long) = match &m[2..] {
                    "#" => ('#', false),
                    "##" => ('#', true),
                    "%" => ('%', false),
                    "%%" => ('%', true),
                    _ => return None,
                };
                Mo::Tr { side, long, w: parse_units(rest)? }
            }
            _ => return None,
        };
        if rest.next().copied() != Some("}") {
            return None;
        }
        return Some(TU::Par { braced: true, p, m });
    }
    None
}

fn parse_units<'a>(rest: &mut std::slice::Iter<'a, &'a str>) -> Option<Vec<WU>> {
    let mut out = vec![];
    loop {
        let mut look = rest.clone();
        match look.next().copied() {
            None | Some("}") | Some("]") => return Some(out),
            Some("D[") => {
                rest.next();
                let mut ts = vec![];
                loop {
                    let mut l2 = rest.clone();
                    match l2.next().copied() {
                        Some("]") => {
                            rest.next();
                            break;
                        }
                        None | Some("}") => return None,
                        Some(t) => {
                            rest.next();
                            ts.push(parse_tu(t, rest)?);
                        }
                    }
                }
                out.push(WU::Dq(ts));
            }
            Some(t) if t.starts_with('S') => {
                rest.next();
                out.push(WU::Sq(dec_str(&t[1..])?));
            }
            Some(t) if t.starts_with('Q') => {
                rest.next();
                out.push(WU::Dsq(dec_str(&t[1..])?));
            }
            Some(t) if t.starts_with("T/") => {
                rest.next();
                out.push(WU::Tilde { name: dec_str(&t[2..])?, slash: true });
            }
            Some(t) if t.starts_with('T') => {
                rest.next();
                out.push(WU::Tilde { name: dec_str(&t[1..])?, slash: false });
            }
            Some(t) => {
                rest.next();
                out.push(WU::Unq(parse_tu(t, rest)?));
            }
        }
    }
}

fn parse_word(text: &str) -> Option<Vec<WU>> {
    let toks: Vec<&str> = text.split_whitespace().collect();
    let mut it = toks.iter();
    let w = parse_units(&mut it)?;
    if it.next().is_some() { None } else { Some(w) }
}

/// several words separated by the token `;;`
fn parse_words(text: &str) -> Option<Vec<Vec<WU>>> {
    let toks: Vec<&str> = text.split_whitespace().collect();
    toks.split(|t| *t == ";;").map(|ws| parse_word(&ws.join(" "))).collect()
}

// ------------------------------------------------------------------------------------------
// rendering to shell source (context-aware) and conversion of the real parser's result

#[derive(Clone, Copy, PartialEq, Debug)]
enum Ctx {
    /// a word of a simple command
    Top,
    /// word of a modifier inside `${…}` lexed in word context
    BraceW,
    /// text inside double quotes
    Dq,
    /// word of a switch inside `"${…}"` (text context, delimiter `}`)
    BraceT,
    /// here-document content
    Here,
    /// content of `$((…))`: text up to the balanced `))`, escapable `$` `` ` `` `\`
    Arith,
}

fn lit_ok(c: char, ctx: Ctx) -> bool {
    match c {
        'a'..='z' | 'A'..='Z' | ':' | '*' | '\u{a0}' | '/' | '.' | ',' | '%' | '+' | '-' | '_' | '?' | '0'..='9' | '~' => true,
        '(' | ')' | '<' | '>' | '&' | '|' | '^' | '=' | '!' | ';' if ctx == Ctx::Arith => true,
        ' ' => ctx != Ctx::Top,
        // bracket expressions in the pattern of a trim (always lexed in word context inside `${…}`)
        '[' | ']' | '!' | '^' | '=' => ctx == Ctx::BraceW,
        '\'' => matches!(ctx, Ctx::Dq | Ctx::BraceT | Ctx::Here),
        '"' => ctx == Ctx::Here,
        _ => false,
    }
}

fn bs_ok(c: char, ctx: Ctx) -> bool {
    if c == '\n' {
        return false;
    }
    match ctx {
        Ctx::Top | Ctx::BraceW => true,
        Ctx::Dq => matches!(c, '$' | '`' | '"' | '\\'),
        Ctx::BraceT => matches!(c, '$' | '`' | '"' | '\\' | '}'),
        Ctx::Here | Ctx::Arith => matches!(c, '$' | '`' | '\\'),
    }
}

fn is_name_char(c: char) -> bool {
    c.is_ascii_alphanumeric() || c == '_'
}

/// Renders text units; `None` when the AST cannot be written in this context.
fn render_tus(ts: &[TU], ctx: Ctx, out: &mut String) -> Option<()> {
    for (i, t) in ts.iter().enumerate() {
        match t {
            TU::Cmd { backquote, cmd } => {
                // the commands of the correspondence run: `emit <hex>` (no character that needs quoting in any context)
                if !cmd.chars().all(|c| c.is_ascii_alphanumeric() || c == ' ' || c == '-') || cmd.is_empty() {
                    return None;
                }
                if *backquote {
                    out.push('`');
                    out.push_str(cmd);
                    out.push('`');
                } else {
                    out.push_str("$(");
                    out.push_str(cmd);
                    out.push(')');
                }
            }
            TU::Arith(content) => {
                // parentheses inside the content must balance (the lexer counts them)
                let mut depth = 0i32;
                for t in content {
                    match t {
                        TU::Lit('(') => depth += 1,
                        TU::Lit(')') => {
                            depth -= 1;
                            if depth < 0 {
                                return None;
                            }
                        }
                        _ => {}
                    }
                }
                if depth != 0 {
                    return None;
                }
                out.push_str("$((");
                render_tus(content, Ctx::Arith, out)?;
                out.push_str("))");
            }
            TU::Lit('\\') if matches!(ctx, Ctx::Dq | Ctx::BraceT) => {
                // a backslash that escapes nothing stays literal inside double quotes
                match ts.get(i + 1) {
                    Some(TU::Lit(n)) if *n != '\\' && lit_ok(*n, ctx) && !bs_ok(*n, ctx) => out.push('\\'),
                    _ => return None,
                }
            }
            TU::Lit(c) => {
                if !lit_ok(*c, ctx) {
                    return None;
                }
                out.push(*c)
            }
            TU::Bs(c) => {
                if !bs_ok(*c, ctx) {
                    return None;
                }
                out.push('\\');
                out.push(*c);
            }
            TU::Par { braced: false, p, m } => {
                if *m != Mo::None {
                    return None;
                }
                out.push('$');
                out.push_str(p);
                // the name must not run into what follows
                let next_starts_name = match ts.get(i + 1) {
                    Some(TU::Lit(n)) => is_name_char(*n),
                    _ => false,
                };
                let is_name = p.chars().all(is_name_char);
                if is_name && next_starts_name {
                    return None;
                }
                if p.chars().all(|c| c.is_ascii_digit()) && p.len() != 1 {
                    return None;
                }
            }
            TU::Par { braced: true, p, m } => {
                // `${#-}`, `${#?}`, `${##}` are read as the length of `$-`, `$?`, `$#`
                if p == "#" {
                    match m {
                        Mo::Sw { colon: false, act: '-' | '?', w } if w.is_empty() => return None,
                        Mo::Tr { side: '#', long: false, w } if w.is_empty() => return None,
                        _ => {}
                    }
                }
                out.push_str("${");
                let wctx = match ctx {
                    Ctx::Top | Ctx::BraceW => Ctx::BraceW,
                    Ctx::Dq | Ctx::BraceT | Ctx::Here | Ctx::Arith => Ctx::BraceT,
                };
                match m {
                    Mo::None => out.push_str(p),
                    Mo::Len => {
                        out.push('#');
                        out.push_str(p);
                    }
                    Mo::Sw { colon, act, w } => {
                        out.push_str(p);
                        if *colon {
                            out.push(':');
                        }
                        out.push(*act);
                        render_wus(w, wctx, out)?;
                    }
                    Mo::Tr { side, long, w } => {
                        out.push_str(p);
                        out.push(*side);
                        if *long {
                            out.push(*side);
                        }
                        // the pattern must not start with the trim symbol itself
                        let mut pat = String::new();
                        render_wus(w, Ctx::BraceW, &mut pat)?;
                        if pat.starts_with(*side) {
                            return None;
                        }
                        out.push_str(&pat);
                    }
                }
                out.push('}');
            }
        }
    }
    Some(())
}

thread_local! {
    /// the word being rendered is the value of an assignment (`v=…`, `export v=…`): the parser reads it with
    /// `parse_tilde_everywhere_after` — a tilde prefix also after every unquoted colon, its name ended by a colon too
    static ASG_MODE: std::cell::Cell<bool> = const { std::cell::Cell::new(false) };
}

/// in an assignment value: would the parser read the literal `~` at `i` as a tilde prefix?
fn asg_tilde_at(w: &[WU], i: usize) -> bool {
    if w.get(i) != Some(&lit('~')) || !(i == 0 || w[i - 1] == lit(':')) {
        return false;
    }
    for u in &w[i + 1..] {
        match u {
            WU::Unq(TU::Lit('/')) | WU::Unq(TU::Lit(':')) => return true,
            WU::Unq(TU::Lit(_)) => {}
            _ => return false,
        }
    }
    true
}

fn render_wus(w: &[WU], ctx: Ctx, out: &mut String) -> Option<()> {
    let asg = ctx == Ctx::Top && ASG_MODE.with(|m| m.get());
    if asg && (0..w.len()).any(|i| asg_tilde_at(w, i)) {
        return None;
    }
    // a leading unquoted `~` in a word context is a tilde prefix for the parser, never a literal
    if matches!(ctx, Ctx::Top | Ctx::BraceW) && w.first() == Some(&WU::Unq(TU::Lit('~'))) {
        // `parse_tilde`: the literals after `~` run to a `/` or to the end of the word → a tilde prefix;
        // any other unit before that → the `~` stays a literal
        for u in &w[1..] {
            match u {
                WU::Unq(TU::Lit('/')) => return None,
                WU::Unq(TU::Lit(_)) => {}
                _ => break,
            }
        }
        if w[1..].iter().all(|u| matches!(u, WU::Unq(TU::Lit(_)))) {
            return None;
        }
    }
    // group consecutive unquoted units so that `$x` followed by a literal is seen by render_tus
    let mut i = 0;
    while i < w.len() {
        match &w[i] {
            WU::Unq(_) => {
                let mut run = vec![];
                while let Some(WU::Unq(t)) = w.get(i) {
                    run.push(t.clone());
                    i += 1;
                }
                // a raw parameter at the end of the run followed by a quoted unit is fine
                render_tus(&run, if ctx == Ctx::Dq { return None } else { ctx }, out)?;
            }
            WU::Sq(s) => {
                if !matches!(ctx, Ctx::Top | Ctx::BraceW) || s.contains('\'') {
                    return None;
                }
                out.push('\'');
                out.push_str(s);
                out.push('\'');
                i += 1;
            }
            WU::Dsq(s) => {
                if !matches!(ctx, Ctx::Top | Ctx::BraceW) {
                    return None;
                }
                out.push_str("$'");
                for c in s.chars() {
                    match c {
                        '\'' => out.push_str("\\'"),
                        '\\' => out.push_str("\\\\"),
                        '\n' => out.push_str("\\n"),
                        '\t' => out.push_str("\\t"),
                        c if c.is_control() => return None,
                        c => out.push(c),
                    }
                }
                out.push('\'');
                i += 1;
            }
            WU::Tilde { name, slash } => {
                // only at the front of a word lexed in word context; the name is a run of unquoted literals that
                // ends at the first `/` or at the end of the word
                let after_colon = asg && i > 0 && w[i - 1] == lit(':');
                if !(i == 0 || after_colon) || !matches!(ctx, Ctx::Top | Ctx::BraceW) {
                    return None;
                }
                if !name.chars().all(|c| c != '/' && !(asg && c == ':') && lit_ok(c, ctx)) {
                    return None;
                }
                match (slash, w.get(i + 1)) {
                    (true, Some(WU::Unq(TU::Lit('/')))) | (false, None) => {}
                    // in an assignment value a colon ends the name as well
                    (false, Some(WU::Unq(TU::Lit(':')))) if asg => {}
                    _ => return None,
                }
                out.push('~');
                out.push_str(name);
                i += 1;
            }
            WU::Dq(ts) => {
                if ctx == Ctx::Dq {
                    return None;
                }
                out.push('"');
                render_tus(ts, Ctx::Dq, out)?;
                out.push('"');
                i += 1;
            }
        }
    }
    Some(())
}

fn render(w: &[WU]) -> Option<String> {
    if w.is_empty() {
        return None;
    }
    let mut s = String::new();
    render_wus(w, Ctx::Top, &mut s)?;
    Some(s)
}

fn from_text_unit(t: &sx::TextUnit) -> Option<TU> {
    Some(match t {
        sx::TextUnit::Literal(c) => TU::Lit(*c),
        sx::TextUnit::Backslashed(c) => TU::Bs(*c),
        sx::TextUnit::RawParam { param, .. } => TU::Par { braced: false, p: param.id.clone(), m: Mo::None },
        sx::TextUnit::BracedParam(bp) => {
            let m = match &bp.modifier {
                sx::Modifier::None => Mo::None,
                sx::Modifier::Length => Mo::Len,
                sx::Modifier::Switch(s) => Mo::Sw {
                    colon: s.condition == sx::SwitchCondition::UnsetOrEmpty,
                    act: match s.action {
                        sx::SwitchAction::Alter => '+',
                        sx::SwitchAction::Default => '-',
                        sx::SwitchAction::Assign => '=',
                        sx::SwitchAction::Error => '?',
                    },
                    w: from_word(&s.word)?,
                },
                sx::Modifier::Trim(t) => Mo::Tr {
                    side: match t.side {
                        sx::TrimSide::Prefix => '#',
                        sx::TrimSide::Suffix => '%',
                    },
                    long: t.length == sx::TrimLength::Longest,
                    w: from_word(&t.pattern)?,
                },
            };
            TU::Par { braced: true, p: bp.param.id.clone(), m }
        }
        sx::TextUnit::CommandSubst { content, .. } => TU::Cmd { backquote: false, cmd: content.to_string() },
        sx::TextUnit::Backquote { content, .. } => TU::Cmd { backquote: true, cmd: content.unquote().0 },
        sx::TextUnit::Arith { content, .. } => {
            TU::Arith(content.0.iter().map(from_text_unit).collect::<Option<Vec<_>>>()?)
        }
        #[allow(unreachable_patterns)]
        _ => return None,
    })
}

fn from_word(w: &sx::Word) -> Option<Vec<WU>> {
    w.units
        .iter()
        .map(|u| {
            Some(match u {
                sx::WordUnit::Unquoted(t) => WU::Unq(from_text_unit(t)?),
                sx::WordUnit::SingleQuote(s) => WU::Sq(s.clone()),
                sx::WordUnit::DoubleQuote(t) => WU::Dq(t.0.iter().map(from_text_unit).collect::<Option<Vec<_>>>()?),
                sx::WordUnit::DollarSingleQuote(es) => WU::Dsq(es.unquote().0),
                sx::WordUnit::Tilde { name, followed_by_slash } => {
                    WU::Tilde { name: name.clone(), slash: *followed_by_slash }
                }
                #[allow(unreachable_patterns)]
                _ => return None,
            })
        })
        .collect()
}

/// The value word the real parser sees in `v=<src>` (an assignment) or in `export v=<src>` (an operand of a declaration
/// utility, whose value part is read the same way).
fn parse_assign_value(src: &str, export: bool) -> Result<sx::Word, String> {
    let text = if export { format!("export v={src}") } else { format!("v={src}") };
    let cmd: sx::SimpleCommand = text.parse().map_err(|_| "syntax-error".to_string())?;
    if export {
        if cmd.words.len() != 2 || !cmd.assigns.is_empty() {
            return Err(format!("words={}", cmd.words.len()));
        }
        let mut w = cmd.words[1].0.clone();
        if w.units.len() < 2 || w.units[0] != sx::WordUnit::Unquoted(sx::TextUnit::Literal('v')) {
            return Err("export-operand".into());
        }
        w.units.drain(..2);
        Ok(w)
    } else {
        if cmd.assigns.len() != 1 || !cmd.words.is_empty() {
            return Err(format!("assigns={}", cmd.assigns.len()));
        }
        match &cmd.assigns[0].value {
            sx::Value::Scalar(w) => Ok(w.clone()),
            _ => Err("array".into()),
        }
    }
}

/// The word the real parser sees as the only argument of `probe <src>`.
fn parse_probe_arg(src: &str) -> Result<sx::Word, String> {
    let cmd: sx::SimpleCommand = format!("probe {src}").parse().map_err(|_| "syntax-error".to_string())?;
    if cmd.words.len() != 2 || !cmd.assigns.is_empty() || !cmd.redirs.is_empty() {
        return Err(format!("words={}", cmd.words.len()));
    }
    Ok(cmd.words[1].0.clone())
}

// ------------------------------------------------------------------------------------------
// state

#[derive(Clone, Debug, Default)]
struct ShState {
    /// (name, read-only, value)
    vars: Vec<(String, bool, Option<Value>)>,
    nounset: bool,
    status: i32,
    pos: Vec<String>,
    raw: bool,
    n: usize,
    /// further options in effect, by short name (subset of a C h b v)
    flags: String,
    pid: Option<i32>,
    bg: Option<i32>,
    ctx: String,
    portable: bool,
    /// variables every function call of a `fn` history declares local (`typeset`), with a scalar value or none
    locals: Vec<(String, Option<String>)>,
    /// `read -d c`: the logical line delimiter (one single-byte character)
    delim: Option<char>,
    /// the user database of the virtual system: login name, home directory
    homes: Vec<(String, String)>,
}

fn parse_list(v: &str) -> Option<Vec<String>> {
    let mut it = v.split(':');
    let n: usize = it.next()?.parse().ok()?;
    let vs: Vec<String> = it.map(dec_str).collect::<Option<_>>()?;
    if vs.len() == n { Some(vs) } else { None }
}

fn parse_state(toks: &[&str]) -> Option<ShState> {
    let mut st = ShState { n: 1, ctx: "arg".into(), ..Default::default() };
    for t in toks {
        let (k, v) = t.split_once('=')?;
        match k {
            "nu" => st.nounset = v == "1",
            "st" => st.status = v.parse().ok()?,
            "raw" => st.raw = v == "1",
            "n" => st.n = v.parse().ok()?,
            "d" => st.delim = Some(one_char(v).filter(|c| c.is_ascii() && *c != '\0')?),
            "pos" => st.pos = parse_list(v)?,
            "fl" => st.flags = v.to_string(),
            "pid" => st.pid = Some(v.parse().ok()?),
            "bg" => st.bg = Some(v.parse().ok()?),
            "ctx" => st.ctx = v.to_string(),
            "portable" => st.portable = v == "1",
            "pw" => {
                for e in v.split(',') {
                    let (n, d) = e.split_once(':')?;
                    st.homes.push((dec_str(n)?, dec_str(d)?));
                }
            }
            _ if k.starts_with('@') => {
                let val = if v == "U" {
                    None
                } else {
                    Some(dec_str(v.strip_prefix('s')?)?)
                };
                st.locals.push((k[1..].to_string(), val));
            }
            _ => {
                let (ro, name) = match k.strip_prefix('!') {
                    Some(n) => (true, n),
                    None => (false, k),
                };
                let val = if v == "U" {
                    None
                } else if let Some(h) = v.strip_prefix('s') {
                    Some(Value::Scalar(dec_str(h)?))
                } else if let Some(l) = v.strip_prefix('a') {
                    Some(Value::Array(parse_list(l)?))
                } else {
                    return None;
                };
                st.vars.push((name.to_string(), ro, val));
            }
        }
    }
    Some(st)
}

fn apply_state(env: &mut VEnv, st: &ShState) {
    for (name, ro, val) in &st.vars {
        if val.is_none() && !ro {
            let _ = env.variables.unset(name, Scope::Global);
            continue;
        }
        let mut var = env.variables.get_or_new(name.clone(), Scope::Global);
        if let Some(v) = val {
            let _ = var.assign(v.clone(), None);
        }
        if *ro {
            var.make_read_only(Location::dummy("ro"));
        }
    }
    env.exit_status = ExitStatus(st.status);
    if let Some(p) = st.pid {
        env.main_pid = Pid(p);
    }
    if let Some(p) = st.bg {
        env.jobs.set_last_async_pid(Pid(p));
    }
}

fn show_value(v: Option<&Value>) -> String {
    match v {
        None => "U".into(),
        Some(Value::Scalar(s)) => format!("s{}", enc_str(s)),
        Some(Value::Array(vs)) => {
            let mut s = format!("a{}", vs.len());
            for v in vs {
                s.push(':');
                s.push_str(&enc_str(v));
            }
            s
        }
    }
}

fn show_vars(env: &VEnv) -> String {
    ["x", "y", "e", "u", "r"]
        .iter()
        .map(|n| format!("{}:{}", n, show_value(env.variables.get(*n).and_then(|v| v.value.as_ref()))))
        .collect::<Vec<_>>()
        .join(",")
}

fn show_fields(fs: &[String]) -> String {
    format!(
        "n={} f={}",
        fs.len(),
        if fs.is_empty() { ".".to_string() } else { fs.iter().map(|f| enc_str(f)).collect::<Vec<_>>().join(",") }
    )
}

/// the initial expansion as attributed fields: `<code point hex><l|h|s><0..3>` per character (origin; bit 0 =
/// quoted, bit 1 = quoting) joined by `_`, fields by `,` (`-` = empty field, `.` = no field)
fn show_attr(fs: &[Vec<AttrChar>]) -> String {
    if fs.is_empty() {
        return ".".into();
    }
    fs.iter()
        .map(|f| {
            if f.is_empty() {
                "-".to_string()
            } else {
                f.iter()
                    .map(|c| {
                        let o = match c.origin {
                            Origin::Literal => 'l',
                            Origin::HardExpansion => 'h',
                            Origin::SoftExpansion => 's',
                        };
                        format!("{:x}{}{}", c.value as u32, o, (c.is_quoted as u8) + 2 * (c.is_quoting as u8))
                    })
                    .collect::<Vec<_>>()
                    .join("_")
            }
        })
        .collect::<Vec<_>>()
        .join(",")
}

fn vacancy_name(v: Vacancy) -> &'static str {
    match v {
        Vacancy::Unset => "unset",
        Vacancy::EmptyScalar => "empty",
        Vacancy::ValuelessArray => "noelems",
        Vacancy::EmptyValueArray => "emptyelem",
        _ => "other",
    }
}

fn error_class(e: &ExpError) -> String {
    match &e.cause {
        ErrorCause::UnsetParameter { .. } => "unset".into(),
        ErrorCause::VacantExpansion(v) => format!(
            "vacant:{}:{}",
            vacancy_name(v.vacancy),
            match &v.message {
                None => "default".to_string(),
                Some(m) => format!("m{}", enc_str(m)),
            }
        ),
        ErrorCause::NonassignableParameter(n) => format!("nonassignable:{}", vacancy_name(n.vacancy)),
        ErrorCause::ArithError(e) => {
            use yash_semantics::expansion::initial::ArithError as AE;
            let c = match e {
                AE::InvalidNumericConstant | AE::InvalidCharacter => "token",
                AE::IncompleteExpression => "incomplete",
                AE::MissingOperator => "missingop",
                AE::UnclosedParenthesis { .. } => "unclosedparen",
                AE::QuestionWithoutColon { .. } => "qnocolon",
                AE::ColonWithoutQuestion => "colonnoq",
                AE::InvalidOperator => "invalidop",
                AE::NonPortableIncrementDecrement => "nonportable",
                AE::InvalidVariableValue(_) => "badvalue",
                AE::Overflow => "overflow",
                AE::DivisionByZero => "divzero",
                AE::LeftShiftingNegative => "lshiftneg",
                AE::ReverseShifting => "revshift",
                AE::AssignmentToValue => "assignvalue",
                _ => "other",
            };
            format!("arith:{c}")
        }
        ErrorCause::AssignReadOnly(a) => {
            format!("readonly:{}", a.vacancy.map(vacancy_name).unwrap_or("none"))
        }
        _ => "other".into(),
    }
}

// ------------------------------------------------------------------------------------------
// the oracle's splitter: XCU 2.6.5 as a direct recursion on the characters

fn skip_ws<'a>(cs: &'a [AttrChar], ifs: &Ifs) -> &'a [AttrChar] {
    match cs.first() {
        Some(c) if ifs.classify_attr(*c) == Class::IfsWhitespace => skip_ws(&cs[1..], ifs),
        _ => cs,
    }
}

/// `cs` does not start with IFS white space
fn spec_fields(cs: &[AttrChar], ifs: &Ifs, out: &mut Vec<Vec<AttrChar>>) {
    if cs.is_empty() {
        return;
    }
    let n = cs.iter().take_while(|c| ifs.classify_attr(**c) == Class::NonIfs).count();
    out.push(cs[..n].to_vec());
    // one delimiter: ws* nws? ws*
    let mut rest = skip_ws(&cs[n..], ifs);
    if let Some(c) = rest.first() {
        if ifs.classify_attr(*c) == Class::IfsNonWhitespace {
            rest = skip_ws(&rest[1..], ifs);
        }
    }
    spec_fields(rest, ifs, out)
}

fn spec_split(cs: &[AttrChar], ifs: &Ifs) -> Vec<Vec<AttrChar>> {
    let mut out = vec![];
    spec_fields(skip_ws(cs, ifs), ifs, &mut out);
    out
}

fn unquote(cs: &[AttrChar]) -> String {
    cs.iter().filter(|c| !c.is_quoting).map(|c| c.value).collect()
}

// ------------------------------------------------------------------------------------------
// running one case

#[derive(Default)]
struct Direct {
    parse: Option<String>,
    /// expected fields by the oracle, or the error class
    expect: Option<Result<Vec<String>, String>>,
    /// `fn` histories: expected fields of the steps completed
    steps: Vec<Vec<String>>,
    /// the attributed initial expansion of every word expanded so far (observation `a=`), `!` after an error
    attrs: Vec<String>,
}

fn config(script: String, st: &ShState) -> Config {
    let mut c = Config::new(&script);
    c.options.push((ShellOption::Glob, State::Off));
    if st.nounset {
        c.options.push((ShellOption::Unset, State::Off));
    }
    for f in st.flags.chars() {
        let o = match f {
            'a' => (ShellOption::AllExport, State::On),
            'C' => (ShellOption::Clobber, State::Off),
            'h' => (ShellOption::HashOnDefinition, State::On),
            'b' => (ShellOption::Notify, State::On),
            'v' => (ShellOption::Verbose, State::On),
            _ => continue,
        };
        c.options.push(o);
    }
    c.positional_params = st.pos.clone();
    c.max_rounds = 10_000;
    c
}

/// the separator of `"$*"` / of joining in a non-splitting context, written out for the oracle
fn oracle_join(fields: &[Vec<AttrChar>], env: &VEnv) -> Vec<AttrChar> {
    oracle_join_vars(fields, &env.variables)
}

fn oracle_join_vars(fields: &[Vec<AttrChar>], vars: &yash_env::variable::VariableSet) -> Vec<AttrChar> {
    let sep: Option<char> = match vars.get(IFS).and_then(|v| v.value.as_ref()) {
        Some(Value::Scalar(s)) => s.chars().next(),
        Some(Value::Array(a)) => a.first().and_then(|s| s.chars().next()),
        None => Some(' '),
    };
    let mut out = vec![];
    for (i, f) in fields.iter().enumerate() {
        if i > 0 {
            if let Some(c) = sep {
                out.push(AttrChar { value: c, origin: Origin::SoftExpansion, is_quoted: false, is_quoting: false });
            }
        }
        out.extend(f.iter().copied());
    }
    out
}

/// direct API legs on one expanded field: `Strip for AttrField`/`&AttrField`, `remove_quotes`
fn strip_api_ok(chars: &[AttrChar]) -> bool {
    let af = AttrField { chars: chars.to_vec(), origin: Location::dummy("") };
    let plain: String = chars.iter().map(|c| c.value).collect();
    let a = (&af).strip().value == plain;
    let mut v = chars.to_vec();
    remove_quotes(&mut v);
    let b = v.iter().map(|c| c.value).collect::<String>() == unquote(chars);
    let c = af.clone().remove_quotes_and_strip().value == unquote(chars);
    a && b && c && af.strip().value == plain
}

/// `emit <hex>`: writes the decoded text to standard output as it is (no newline added) — the value source of the
/// command substitutions
fn emit_main(env: &mut VEnv, args: Vec<yash_env::semantics::Field>) -> yverif::shell::BuiltinFuture<'_> {
    let text = args.first().and_then(|f| dec_str(&f.value)).unwrap_or_default();
    Box::pin(async move {
        use yash_env::system::concurrency::WriteAll as _;
        match env.system.write_all(yash_env::io::Fd::STDOUT, text.as_bytes()).await {
            Ok(_) => ExitStatus::SUCCESS.into(),
            Err(_) => ExitStatus::FAILURE.into(),
        }
    })
}

fn script_for(ctx: &str, srcs: &[String], locals: &[(String, Option<String>)]) -> Option<String> {
    if ctx == "fn" {
        // words 1, 3, … inside a function call (locals declared first), words 2, 4, … at top level after the return
        let mut decl = String::new();
        for (n, v) in locals {
            match v {
                None => decl.push_str(&format!("typeset {n}; ")),
                Some(v) if !v.contains('\'') => decl.push_str(&format!("typeset {n}='{v}'; ")),
                _ => return None,
            }
        }
        let mut s = String::new();
        for (i, src) in srcs.iter().enumerate() {
            if i % 2 == 0 {
                s.push_str(&format!("f{i}() {{ {decl}probe {src}; }}\nf{i} \"$@\"\n"));
            } else {
                s.push_str(&format!("probe {src}\n"));
            }
        }
        return Some(s);
    }
    Some(match ctx {
        "arg" => format!("probe {}\n", srcs.join(" ")),
        "for" => format!("for v in {}; do probe \"$v\"; done\n", srcs.join(" ")),
        "arr" => format!("v=({})\n", srcs.join(" ")),
        "asg" if srcs.len() == 1 => format!("v={}\n", srcs[0]),
        "exp" if srcs.len() == 1 => format!("export v={}\n", srcs[0]),
        "here" if srcs.len() == 1 => format!("cat <<EOF_\n{}\nEOF_\n", srcs[0]),
        _ => return None,
    })
}

fn run_w(state_toks: &[&str], word_text: &str) -> (String, String) {
    let (Some(st), Some(words)) = (parse_state(state_toks), parse_words(word_text)) else {
        return ("bad-case".into(), "-".into());
    };
    let ctx = st.ctx.clone();
    let single = matches!(ctx.as_str(), "asg" | "exp" | "here");
    // in an assignment the parser looks for tilde prefixes after every unquoted colon as well
    // (`parse_tilde_everywhere_after`) and ends a name at a colon: the renderer and the parse oracle follow that reading
    let asg_mode = matches!(ctx.as_str(), "asg" | "exp");
    ASG_MODE.with(|m| m.set(asg_mode));
    struct ResetAsg;
    impl Drop for ResetAsg {
        fn drop(&mut self) {
            ASG_MODE.with(|m| m.set(false));
        }
    }
    let _reset = ResetAsg;
    let mut srcs = vec![];
    for w in &words {
        let src = if ctx == "here" {
            // text units only
            let ts: Option<Vec<TU>> = w.iter().map(|u| if let WU::Unq(t) = u { Some(t.clone()) } else { None }).collect();
            let mut s = String::new();
            match ts.and_then(|ts| render_tus(&ts, Ctx::Here, &mut s)) {
                Some(()) => Some(s),
                None => None,
            }
        } else if w.is_empty() && single {
            Some(String::new())
        } else {
            render(w)
        };
        match src {
            Some(s) => srcs.push(s),
            None => return ("unrenderable".into(), "-".into()),
        }
    }
    if ctx == "arg" && srcs.is_empty() {
        return ("unrenderable".into(), "-".into());
    }
    if ctx == "fn" && srcs.is_empty() {
        return ("unrenderable".into(), "-".into());
    }
    let Some(script) = script_for(&ctx, &srcs, &st.locals) else {
        return ("bad-case".into(), "-".into());
    };
    let direct = Rc::new(RefCell::new(Direct::default()));
    let direct2 = Rc::clone(&direct);
    let st2 = st.clone();
    let srcs2 = srcs.clone();
    let wants: Vec<String> = words.iter().map(|w| word_string(w)).collect();
    let ctx2 = ctx.clone();
    let words2 = words.clone();
    let has_cmd = word_text.split_whitespace().any(|t| t.starts_with('K'));
    let (outcome, fin) = run_with(
        config(script, &st),
        move |env, sys| {
            env.builtins.insert(
                "emit",
                yash_env::builtin::Builtin::new(yash_env::builtin::Type::Mandatory, emit_main),
            );
            apply_state(env, &st2);
            for (n, d) in &st2.homes {
                sys.borrow_mut().home_dirs.insert(n.clone(), yash_env::path::PathBuf::from(d.as_str()));
            }
            // the oracle works on a clone of the environment (same virtual system, own variables)
            let mut d = direct2.borrow_mut();
            let mut env2 = env.clone();
            if ctx2 == "fn" {
                // the function definition that precedes every step leaves `$?` = 0
                env2.exit_status = ExitStatus(0);
            }
            let mut fields: Vec<String> = vec![];
            for (step, (src, want)) in srcs2.iter().zip(&wants).enumerate() {
                let before = fields.len();
                // the real parser's view of the rendered source
                let parsed: Result<sx::Word, String> = if ctx2 == "here" {
                    src.parse::<sx::Text>()
                        .map(|t| sx::Word {
                            units: t.0.into_iter().map(sx::WordUnit::Unquoted).collect(),
                            location: Location::dummy(""),
                        })
                        .map_err(|_| "syntax-error".to_string())
                } else if src.is_empty() {
                    Ok(sx::Word { units: vec![], location: Location::dummy("") })
                } else {
                    if ctx2 == "asg" {
                        parse_assign_value(src, false)
                    } else if ctx2 == "exp" {
                        parse_assign_value(src, true)
                    } else {
                        parse_probe_arg(src)
                    }
                };
                let w = match parsed {
                    Err(e) => {
                        d.parse = Some(e);
                        return;
                    }
                    Ok(w) => w,
                };
                let got = from_word(&w).map(|w| word_string(&w)).unwrap_or_else(|| "unsupported".into());
                if &got != want {
                    d.parse = Some(got.replace(' ', "_"));
                }
                let tilde_here: Option<(String, bool, Option<String>)> = match words2[step].first() {
                    Some(WU::Tilde { name, slash }) => {
                        let dir = if name.is_empty() {
                            env2.variables.get_scalar("HOME").map(|s| s.to_string())
                        } else {
                            st2.homes.iter().find(|(n, _)| n == name).map(|(_, d)| d.clone())
                        };
                        Some((name.clone(), *slash, dir))
                    }
                    _ => None,
                };
                if has_cmd {
                    // a command substitution needs the executor (pipe, subshell): the direct expansion cannot complete
                    // inside this synchronous hook; only the parser round trip is checked for such words
                    continue;
                }
                let r = if ctx2 == "fn" && step % 2 == 0 {
                    // inside a function call: own variable context with the declared locals, same positional parameters
                    let pos = env2.variables.positional_params().values.clone();
                    let mut g = env2.push_context(Context::Regular {
                        positional_params: PositionalParams { values: pos, last_modified_location: None },
                    });
                    for (n, v) in &st2.locals {
                        let mut var = g.get_or_create_variable(n.clone(), Scope::Local);
                        if let Some(v) = v {
                            let _ = var.assign(v.clone(), None);
                        }
                    }
                    let mut ienv = InitialEnv::new(&mut *g);
                    w.expand(&mut ienv).now_or_never()
                } else {
                    let mut ienv = InitialEnv::new(&mut env2);
                    w.expand(&mut ienv).now_or_never()
                };
                match r {
                    None => {
                        d.expect = None;
                        return;
                    }
                    Some(Err(e)) => {
                        d.expect = Some(Err(error_class(&e)));
                        d.attrs.push("!".into());
                        return;
                    }
                    Some(Ok(phrase)) => {
                        // direct API legs on the phrase: denotation equality, emptiness, iteration both ways
                        let fs: Vec<Vec<AttrChar>> = phrase.clone().into_iter().collect();
                        // XCU 2.6.1 on a leading tilde prefix: the word's first field starts with the directory
                        // (HOME / user database as they were before this word), one trailing slash dropped before
                        // a slash, as unquoted hard-expansion characters; an empty directory leaves a quoting character
                        if let Some((name, slash, dir)) = &tilde_here {
                            if let Some(dir) = dir {
                                let dd: &str = if *slash { dir.strip_suffix('/').unwrap_or(dir) } else { dir };
                                let first = fs.first().cloned().unwrap_or_default();
                                let n = dd.chars().count();
                                let ok = if n == 0 {
                                    first.first().is_some_and(|c| c.is_quoting && !c.is_quoted)
                                } else {
                                    first.len() >= n
                                        && first[..n].iter().map(|c| c.value).collect::<String>() == dd
                                        && first[..n].iter().all(|c| {
                                            c.origin == Origin::HardExpansion && !c.is_quoted && !c.is_quoting
                                        })
                                };
                                if !ok {
                                    d.parse = Some(format!("tilde:{}:{}", enc_str(name), enc_str(dd)));
                                }
                            }
                        }
                        d.attrs.push(show_attr(&fs));
                        let mut back: Vec<Vec<AttrChar>> = phrase.clone().into_iter().rev().collect();
                        back.reverse();
                        let hint = phrase.clone().into_iter().size_hint();
                        if back != fs
                            || hint != (fs.len(), Some(fs.len()))
                            || phrase.is_zero_fields() != fs.is_empty()
                            || phrase != Phrase::Full(fs.clone())
                            || Phrase::Full(fs.clone()) != phrase
                            || (fs.len() == 1 && Phrase::Field(fs[0].clone()) != phrase)
                            || phrase.field_count() != fs.len()
                            || phrase.clone() != phrase
                        {
                            d.parse = Some("phrase-api".into());
                        }
                        if !fs.iter().all(|f| strip_api_ok(f)) {
                            d.parse = Some("strip-api".into());
                        }
                        if matches!(ctx2.as_str(), "asg" | "exp" | "here") {
                            fields.push(unquote(&oracle_join(&fs, &env2)));
                        } else {
                            let ifs_text = env2.variables.get_scalar(IFS).map(|s| s.to_string());
                            let ifs = ifs_text.as_deref().map(Ifs::new).unwrap_or_default();
                            let nws: String = ifs.chars().chars().filter(|c| !c.is_whitespace()).collect();
                            if ifs.non_whitespaces() != nws {
                                d.parse = Some("ifs-api".into());
                            }
                            for f in &fs {
                                for g in spec_split(f, &ifs) {
                                    fields.push(unquote(&g));
                                }
                            }
                        }
                    }
                }
                let this_step = fields[before..].to_vec();
                d.steps.push(this_step);
            }
            if !has_cmd {
                d.expect = Some(Ok(fields));
            }
        },
        |env, _| (show_vars(env), env.variables.get("v").and_then(|v| v.value.clone())),
    );
    if outcome.stuck {
        return ("TIMEOUT".into(), "FAIL:stuck".into());
    }
    let (vars, v_after) = fin.unwrap_or_else(|| ("?".into(), None));
    let d = direct.borrow();
    let out = outcome.stdout_str();
    let failed = outcome.exit_status == 2;
    let probe_fields = |line: &str| -> Vec<String> {
        let body = line.split_once(':').map(|x| x.1).unwrap_or("");
        if body.is_empty() {
            vec![]
        } else {
            body.split(',').map(|h| dec_str(h).unwrap_or_else(|| "?".into())).collect()
        }
    };
    if ctx == "fn" {
        // one probe line per completed step; then possibly the error that ended the history
        let got: Vec<Vec<String>> = out.lines().map(|l| probe_fields(l)).collect();
        let mut oracle = vec![];
        if let Some(p) = &d.parse {
            oracle.push(format!("parse:{p}"));
        }
        let mut parts: Vec<String> = got.iter().map(|fs| show_fields(fs)).collect();
        let complete = !failed && got.len() == srcs.len();
        if !complete {
            match &d.expect {
                Some(Err(c)) if failed && got.len() < srcs.len() => parts.push(format!("err={c}")),
                _ => {
                    oracle.push(format!("shell-failed:status={}:lines={}", outcome.exit_status, got.len()));
                    parts.push("err=?".into());
                }
            }
        } else if matches!(&d.expect, Some(Err(_)) | None) {
            oracle.push("shell-succeeded-direct-failed".into());
        }
        if d.steps.len() < got.len() || d.steps[..got.len()] != got[..] {
            oracle.push(format!("history:expected:{:?}", d.steps).replace([' ', '\t'], "_"));
        }
        let oracle = if oracle.is_empty() { "ok".to_string() } else { format!("FAIL:{}", oracle.join(";")) };
        return (format!("{} a={} v={vars}", parts.join(" | "), d.attrs.join("/")), oracle);
    }
    let observed: Result<Vec<String>, ()> = if failed {
        Err(())
    } else {
        match ctx.as_str() {
            "arg" if out.lines().count() == 1 => Ok(probe_fields(out.lines().next().unwrap())),
            "for" => Ok(out.lines().flat_map(|l| probe_fields(l)).collect()),
            "arr" => match &v_after {
                Some(Value::Array(a)) => Ok(a.clone()),
                _ => Err(()),
            },
            "asg" | "exp" => match &v_after {
                Some(Value::Scalar(s)) => Ok(vec![s.clone()]),
                _ => Err(()),
            },
            "here" => match out.strip_suffix('\n') {
                Some(s) => Ok(vec![s.to_string()]),
                None => Err(()),
            },
            _ => Err(()),
        }
    };
    let mut oracle = vec![];
    if let Some(p) = &d.parse {
        oracle.push(format!("parse:{p}"));
    }
    let obs = match &observed {
        Ok(fs) => {
            match &d.expect {
                Some(Ok(exp)) if exp == fs => {}
                Some(Ok(exp)) => oracle.push(format!("split:expected:{}", show_fields(exp).replace(' ', "_"))),
                Some(Err(c)) => oracle.push(format!("shell-succeeded-direct-failed:{c}")),
                None if has_cmd => {}
                None => oracle.push("direct-pending".into()),
            }
            show_fields(fs)
        }
        Err(()) => {
            let class = match &d.expect {
                Some(Err(c)) if failed && out.is_empty() => c.clone(),
                _ => {
                    oracle.push(format!("shell-failed:status={}:out={}", outcome.exit_status, enc_str(&out)));
                    "?".into()
                }
            };
            format!("err={class}")
        }
    };
    let oracle = if oracle.is_empty() { "ok".to_string() } else { format!("FAIL:{}", oracle.join(";")) };
    let attrs = if has_cmd { "~".to_string() } else { d.attrs.join("/") };
    (format!("{obs} a={attrs} v={vars}"), oracle)
}

/// `P [portable=1] | <hex of what follows "${">` : the real lexer on `probe ${<src>`
fn run_p(state_toks: &[&str], hex: &str) -> (String, String) {
    let (Some(st), Some(src)) = (parse_state(state_toks), dec_str(hex.trim())) else {
        return ("bad-case".into(), "-".into());
    };
    let code = format!("probe ${{{src}");
    let mut lexer = yash_syntax::parser::lex::Lexer::with_code(&code);
    let mut mode = yash_env::parser::Mode::default();
    mode.portable = st.portable;
    lexer.set_mode(mode);
    let mut parser = yash_syntax::parser::Parser::new(&mut lexer);
    let r = parser.simple_command().now_or_never();
    use yash_syntax::parser::{ErrorCause as PCause, Rec, SyntaxError as SE};
    let obs = match r {
        None => "pending".to_string(),
        Some(Ok(Rec::Parsed(Some(cmd)))) if cmd.words.len() == 2 => match from_word(&cmd.words[1].0) {
            Some(w) => format!("ok:{}", word_string(&w)),
            None => "ok:unsupported".into(),
        },
        Some(Ok(_)) => "ok:other".into(),
        Some(Err(e)) => match e.cause {
            PCause::Syntax(SE::EmptyParam) => "err:EmptyParam".into(),
            PCause::Syntax(SE::InvalidParam) => "err:InvalidParam".into(),
            PCause::Syntax(SE::UnclosedParam { .. }) => "err:UnclosedParam".into(),
            PCause::Syntax(SE::MultipleModifier) => "err:MultipleModifier".into(),
            PCause::Syntax(SE::InvalidModifier) => "err:InvalidModifier".into(),
            PCause::Syntax(SE::NonPortableParamModifier) => "err:NonPortableParamModifier".into(),
            _ => "err:other".into(),
        },
    };
    (obs, "-".into())
}

/// `read`'s input processing and XCU `read` assignment, for the oracle
fn oracle_read(input: &str, raw: bool, delim: char, ifs: &Ifs, n: usize) -> (bool, Vec<String>) {
    let plain = |value: char, q: bool, qq: bool| AttrChar { value, origin: Origin::SoftExpansion, is_quoted: q, is_quoting: qq };
    let mut text = vec![];
    let mut found = false;
    let mut it = input.chars();
    while let Some(c) = it.next() {
        if c == delim {
            found = true;
            break;
        }
        if c == '\\' && !raw {
            match it.next() {
                Some('\n') => continue,
                Some(d) => {
                    text.push(plain('\\', false, true));
                    text.push(plain(d, true, false));
                }
                None => {
                    text.push(plain('\\', false, true));
                    break;
                }
            }
        } else {
            text.push(plain(c, false, false));
        }
    }
    // fields with their start offsets: split, then locate by walking the same recursion with offsets
    let mut vals = vec![];
    let mut rest: &[AttrChar] = skip_ws(&text, ifs);
    for k in 0..n {
        if rest.is_empty() {
            vals.push(String::new());
            continue;
        }
        let len = rest.iter().take_while(|c| ifs.classify_attr(**c) == Class::NonIfs).count();
        let mut after = skip_ws(&rest[len..], ifs);
        if let Some(c) = after.first() {
            if ifs.classify_attr(*c) == Class::IfsNonWhitespace {
                after = skip_ws(&after[1..], ifs);
            }
        }
        if k + 1 == n && !after.is_empty() {
            // more fields follow: the rest of the line without trailing IFS white space
            let mut end = rest.len();
            while end > 0 && ifs.classify_attr(rest[end - 1]) == Class::IfsWhitespace {
                end -= 1;
            }
            vals.push(unquote(&rest[..end]));
        } else {
            vals.push(unquote(&rest[..len]));
        }
        rest = after;
    }
    (found, vals)
}

fn run_r(state_toks: &[&str], input_hex: &str) -> (String, String) {
    let (Some(st), Some(input)) = (parse_state(state_toks), dec_str(input_hex.trim())) else {
        return ("bad-case".into(), "-".into());
    };
    if st.n == 0 {
        return ("bad-case".into(), "-".into());
    }
    let names: Vec<String> = (1..=st.n).map(|k| format!("v{k}")).collect();
    let delim = st.delim.unwrap_or('\n');
    // the delimiter as a single-quoted (or, for a single quote, backslashed) argument of `-d`
    let dopt = match st.delim {
        None => String::new(),
        Some('\'') => "-d \\' ".to_string(),
        Some(c) => format!("-d '{c}' "),
    };
    let script = format!("read {}{}{}\n", if st.raw { "-r " } else { "" }, dopt, names.join(" "));
    let st2 = st.clone();
    let input2 = input.clone();
    let names2 = names.clone();
    let raw2 = st.raw;
    let (outcome, res) = run_with(
        config(script, &st),
        move |env, state| {
            apply_state(env, &st2);
            let inode = state.borrow().file_system.get("/dev/stdin").unwrap();
            if let FileBody::Regular { content, .. } = &mut inode.borrow_mut().body {
                *content = input2.as_bytes().to_vec();
            }
        },
        move |env, _| {
            let vals: Vec<Option<String>> = names2
                .iter()
                .map(|n| match env.variables.get(n.as_str()).and_then(|v| v.value.as_ref()) {
                    Some(Value::Scalar(s)) => Some(s.clone()),
                    _ => None,
                })
                .collect();
            let ifs = env.variables.get_scalar(IFS).map(|s| s.to_string());
            // the logical line as the real `input::read` returns it: rewind the standard input and read again
            use yash_env::system::Seek as _;
            let _ = env.system.lseek(yash_env::io::Fd::STDIN, std::io::SeekFrom::Start(0));
            let line = yash_builtin::read::input::read(env, delim as u8, raw2).now_or_never();
            (vals, ifs, line)
        },
    );
    if outcome.stuck {
        return ("TIMEOUT".into(), "FAIL:stuck".into());
    }
    let Some((vals, ifs_text, line)) = res else {
        return ("no-result".into(), "FAIL:no-result".into());
    };
    let (line_attr, line_found) = match line {
        Some(Ok((cs, found))) => (show_attr(&[cs]), Some(found)),
        Some(Err(_)) => ("err".to_string(), None),
        None => ("pending".to_string(), None),
    };
    let show = |st: i32, vals: &[Option<String>]| {
        format!(
            "st={} v={}",
            st,
            names
                .iter()
                .zip(vals)
                .map(|(n, v)| format!("{}:{}", n, v.as_ref().map(|v| enc_str(v)).unwrap_or_else(|| "U".into())))
                .collect::<Vec<_>>()
                .join(",")
        )
    };
    let obs = format!("{} a={}", show(outcome.exit_status, &vals), line_attr);
    let ifs = ifs_text.as_deref().map(Ifs::new).unwrap_or_default();
    let (found, exp) = oracle_read(&input, st.raw, delim, &ifs, st.n);
    // a read-only target keeps its value and makes the exit status 2
    let ro_value = |n: &String| -> Option<Option<String>> {
        st.vars.iter().find(|(m, ro, _)| m == n && *ro).map(|(_, _, v)| match v {
            Some(Value::Scalar(s)) => Some(s.clone()),
            _ => None,
        })
    };
    let any_ro = names.iter().any(|n| ro_value(n).is_some());
    let exp: Vec<Option<String>> =
        names.iter().zip(exp).map(|(n, v)| ro_value(n).unwrap_or(Some(v))).collect();
    let expected = show(if any_ro { 2 } else if found { 0 } else { 1 }, &exp);
    let oracle = if line_found != Some(found) {
        format!("FAIL:read:delimiter-found:{line_found:?}")
    } else if obs.starts_with(&format!("{expected} a=")) {
        "ok".to_string()
    } else {
        format!("FAIL:read:expected:{}", expected.replace(' ', "_"))
    };
    (obs, oracle)
}

// ------------------------------------------------------------------------------------------
// `H`: the `Phrase` API on phrases of explicit shape

fn parse_attr_char(t: &str) -> Option<AttrChar> {
    let mut cs: Vec<char> = t.chars().collect();
    let bits = cs.pop()?.to_digit(4)?;
    let origin = match cs.pop()? {
        'l' => Origin::Literal,
        'h' => Origin::HardExpansion,
        's' => Origin::SoftExpansion,
        _ => return None,
    };
    let hex: String = cs.into_iter().collect();
    let value = char::from_u32(u32::from_str_radix(&hex, 16).ok()?)?;
    Some(AttrChar { value, origin, is_quoted: bits & 1 == 1, is_quoting: bits & 2 == 2 })
}

fn parse_attr_field(t: &str) -> Option<Vec<AttrChar>> {
    if t == "-" { Some(vec![]) } else { t.split('_').map(parse_attr_char).collect() }
}

fn parse_phrase(t: &str) -> Option<Phrase> {
    if let Some(c) = t.strip_prefix('C') {
        Some(Phrase::Char(parse_attr_char(c)?))
    } else if let Some(f) = t.strip_prefix('f') {
        Some(Phrase::Field(parse_attr_field(f)?))
    } else if t == "F." {
        Some(Phrase::Full(vec![]))
    } else if let Some(fs) = t.strip_prefix('F') {
        Some(Phrase::Full(fs.split(',').map(parse_attr_field).collect::<Option<Vec<_>>>()?))
    } else {
        None
    }
}

/// the phrase WITH its representation
fn show_phrase(p: &Phrase) -> String {
    match p {
        Phrase::Char(c) => format!("C{}", show_attr(&[vec![*c]])),
        Phrase::Field(f) => format!("f{}", show_attr(&[f.clone()])),
        Phrase::Full(fs) => format!("F{}", show_attr(fs)),
    }
}

/// `H ctx=<op> <state>* | <phrase> [;; <phrase>]`; oracle: the operation on the denotations, written out here
fn run_h(state_toks: &[&str], text: &str) -> (String, String) {
    let Some(st) = parse_state(state_toks) else {
        return ("bad-case".into(), "-".into());
    };
    let Some(ps) = text.split(";;").map(|t| parse_phrase(t.trim())).collect::<Option<Vec<Phrase>>>() else {
        return ("bad-case".into(), "-".into());
    };
    let den = |p: &Phrase| -> Vec<Vec<AttrChar>> { p.clone().into_iter().collect() };
    let verdict = |ok: bool| if ok { "ok".to_string() } else { "FAIL:denotation".to_string() };
    match (st.ctx.as_str(), ps.as_slice()) {
        ("append", [a, b]) => {
            let mut r = a.clone();
            let mut other = b.clone();
            r.append(&mut other);
            // last field of the left glued to the first field of the right
            let (da, db) = (den(a), den(b));
            let expect: Vec<Vec<AttrChar>> = if da.is_empty() {
                db
            } else if db.is_empty() {
                da
            } else {
                let mut e = da[..da.len() - 1].to_vec();
                let mut glued = da[da.len() - 1].clone();
                glued.extend(db[0].iter().copied());
                e.push(glued);
                e.extend(db[1..].iter().cloned());
                e
            };
            let sum = a.clone() + b.clone();
            (show_phrase(&r), verdict(den(&r) == expect && sum == r))
        }
        ("soften", [a]) => {
            let mut r = a.clone();
            r.for_each_char_mut(|c| {
                if c.origin == Origin::Literal {
                    c.origin = Origin::SoftExpansion;
                }
            });
            let expect: Vec<Vec<AttrChar>> = den(a)
                .into_iter()
                .map(|f| {
                    f.into_iter()
                        .map(|mut c| {
                            if c.origin == Origin::Literal {
                                c.origin = Origin::SoftExpansion;
                            }
                            c
                        })
                        .collect()
                })
                .collect();
            (show_phrase(&r), verdict(den(&r) == expect))
        }
        ("join", [a]) => {
            let mut env = yash_env::Env::new_virtual();
            let _ = env.variables.get_or_new(IFS, Scope::Global).assign(" \t\n", None);
            for (name, _, val) in &st.vars {
                match val {
                    Some(v) => {
                        let _ = env.variables.get_or_new(name.clone(), Scope::Global).assign(v.clone(), None);
                    }
                    None => {
                        let _ = env.variables.unset(name, Scope::Global);
                    }
                }
            }
            let r = a.clone().ifs_join(&env.variables);
            let expect = oracle_join_vars(&den(a), &env.variables);
            (show_attr(&[r.clone()]), verdict(r == expect))
        }
        ("fields", [a]) => {
            let fs = den(a);
            let rq: Vec<String> = fs.iter().map(|f| unquote(f)).collect();
            let ok = a.field_count() == fs.len() && a.is_zero_fields() == fs.is_empty();
            (
                format!("n={} {} rq={}", fs.len(), show_attr(&fs), show_fields(&rq)),
                if ok { "-".to_string() } else { "FAIL:count".to_string() },
            )
        }
        _ => ("bad-case".into(), "-".into()),
    }
}

/// `T ctx=<front|every> n=<index> | <word>`: the word as lexed (`Word::from_str` parses no tilde), then the real
/// `parse_tilde_front` / `parse_tilde_everywhere_after(index)`; observation: the resulting word.  Oracle: the lexed word
/// is the word of the case, and the result re-rendered is the same source text (tilde parsing only regroups units).
fn run_t(state_toks: &[&str], text: &str) -> (String, String) {
    let (Some(st), Some(w)) = (parse_state(state_toks), parse_word(text)) else {
        return ("bad-case".into(), "-".into());
    };
    // render behind a sentinel so that a leading `~` is written as it stands
    let mut sentinel = vec![lit('a')];
    sentinel.extend(w.iter().cloned());
    let Some(src) = render(&sentinel).map(|s| s[1..].to_string()) else {
        return ("unrenderable".into(), "-".into());
    };
    let Ok(mut word) = src.parse::<sx::Word>() else {
        return ("syntax-error".into(), "FAIL:lex".into());
    };
    let mut oracle = vec![];
    if from_word(&word).map(|x| word_string(&x)) != Some(word_string(&w)) {
        oracle.push("parse".to_string());
    }
    let index = st.n.saturating_sub(0);
    if index > word.units.len() {
        return ("bad-case".into(), "-".into());
    }
    match st.ctx.as_str() {
        "front" => word.parse_tilde_front(),
        "every" => word.parse_tilde_everywhere_after(index),
        _ => return ("bad-case".into(), "-".into()),
    }
    if word.to_string() != src {
        oracle.push(format!("text:{}", enc_str(&word.to_string())));
    }
    let obs = from_word(&word).map(|x| word_string(&x)).unwrap_or_else(|| "unsupported".into());
    (obs, if oracle.is_empty() { "ok".into() } else { format!("FAIL:{}", oracle.join(";")) })
}

fn run_ws() -> (String, String) {
    let mut ranges: Vec<(u32, u32)> = vec![];
    for n in 0..=0x10FFFFu32 {
        if let Some(c) = char::from_u32(n) {
            if c.is_whitespace() {
                match ranges.last_mut() {
                    Some(r) if r.1 + 1 == n => r.1 = n,
                    _ => ranges.push((n, n)),
                }
            }
        }
    }
    (ranges.iter().map(|r| format!("{}-{}", r.0, r.1)).collect::<Vec<_>>().join(","), "-".into())
}

fn run_case(case: &str) -> (String, String) {
    if case == "WS" {
        return run_ws();
    }
    let Some((l, r)) = case.split_once('|') else {
        return ("bad-case".into(), "-".into());
    };
    let toks: Vec<&str> = l.split_whitespace().collect();
    match toks.split_first() {
        Some((&"W", st)) => run_w(st, r.trim()),
        Some((&"R", st)) => run_r(st, r.trim()),
        Some((&"P", st)) => run_p(st, r.trim()),
        Some((&"H", st)) => run_h(st, r.trim()),
        Some((&"T", st)) => run_t(st, r.trim()),
        _ => ("bad-case".into(), "-".into()),
    }
}

fn run_guarded(case: &str) -> (String, String) {
    let mut out = (String::new(), String::new());
    let o = guarded(|| {
        out = run_case(case);
        out.0.clone()
    });
    if o.starts_with("PANIC") { (o.clone(), format!("FAIL:{o}")) } else { out }
}

// ------------------------------------------------------------------------------------------
// generators

fn lit(c: char) -> WU {
    WU::Unq(TU::Lit(c))
}
fn raw(p: &str) -> TU {
    TU::Par { braced: false, p: p.into(), m: Mo::None }
}
fn braced(p: &str, m: Mo) -> TU {
    TU::Par { braced: true, p: p.into(), m }
}

const PARAMS: [&str; 8] = ["x", "y", "e", "u", "@", "*", "#", "1"];
/// every parameter kind of `resolve.rs`: variables, all special parameters, positional incl. `${00}`, `${10}`, overflow
const ALL_PARAMS: [&str; 20] = [
    "x", "y", "e", "u", "r", "@", "*", "#", "?", "-", "$", "!", "0", "1", "2", "00", "01", "10", "12",
    "99999999999999999999",
];
const SWITCHES: [(bool, char); 8] =
    [(false, '-'), (true, '-'), (false, '='), (true, '='), (false, '?'), (true, '?'), (false, '+'), (true, '+')];
const TRIMS: [(char, bool); 4] = [('#', false), ('#', true), ('%', false), ('%', true)];

/// small words used inside modifiers
fn inner_words() -> Vec<Vec<WU>> {
    vec![
        vec![],
        vec![lit('a')],
        vec![lit('a'), lit(' '), lit('b')],
        vec![WU::Sq("a b".into())],
        vec![WU::Dq(vec![TU::Lit('a'), TU::Lit(' '), TU::Lit(' '), TU::Lit('b')])],
        vec![WU::Unq(raw("y"))],
        vec![lit(':'), WU::Unq(raw("@"))],
        vec![WU::Dq(vec![raw("@")])],
        vec![WU::Unq(TU::Bs(' ')), lit('b')],
    ]
}

fn patterns() -> Vec<Vec<WU>> {
    vec![
        vec![lit('a')],
        vec![lit('*')],
        vec![lit('a'), lit('*')],
        vec![lit('*'), lit(':')],
        vec![lit('?')],
        vec![WU::Sq("*".into())],
        vec![WU::Unq(TU::Bs('*'))],
        vec![WU::Dq(vec![TU::Lit('a'), TU::Lit(' ')])],
        vec![lit(' '), lit('*')],
        vec![WU::Unq(raw("y"))],
        vec![],
    ]
}

fn lits(s: &str) -> Vec<WU> {
    s.chars().map(lit).collect()
}

/// patterns with bracket expressions (the yash-fnmatch model of C04 composed into this model): sets, ranges,
/// complements, classes, collating / equivalence symbols, `]` and `-` in special positions, unclosed brackets,
/// quoting inside brackets, expansions inside brackets, and patterns outside the defined notation (inverted
/// range, undefined class, class as range bound, empty symbol, multi-character collating element)
fn bracket_patterns() -> Vec<Vec<WU>> {
    let mut v: Vec<Vec<WU>> = [
        "[ab]", "[a-b]*", "*[!a]", "[^a]*", "[: ]*", "*[: ]", "?[:b]", "[!:]*", "*[!b ]", "[[:alpha:]]", "[[:alpha:]]*",
        "*[[:space:]]", "[[:space:]]*", "[[:punct:]]*", "*[![:alpha:]]", "[]a]*", "[a", "*[", "[a-]*", "[-a]", "[!]a]*", "[]",
        "[]]", "[[.a.]]*", "[[=a=]]*", "[[.-.]a]*", "[[.space.]]*", "[z-a]*", "[[:foo:]]*", "[[:alpha:]-z]", "[[..]]",
        "[[.ab.]b]*", "*[[.ab.]b]", "[a[.ab.]]*", "[a-b][: ]*", "[!a-b]?", "[a-a]", "*[a-b:]",
    ]
    .iter()
    .map(|s| lits(s))
    .collect();
    // quoting inside a bracket expression: a quoted character is always a plain member
    v.push(vec![lit('['), WU::Unq(TU::Bs('!')), lit('a'), lit(']'), lit('*')]);
    v.push(vec![lit('['), lit('a'), WU::Unq(TU::Bs('-')), lit('c'), lit(']')]);
    v.push(vec![lit('['), WU::Sq("a".into()), lit('-'), lit('b'), lit(']'), lit('*')]);
    v.push(vec![lit('['), WU::Dq(vec![TU::Lit(']')]), lit('a'), lit(']'), lit('*')]);
    v.push(vec![WU::Unq(TU::Bs('[')), lit('a'), lit(']')]);
    v.push(vec![WU::Sq("[".into()), lit('a'), lit(']'), lit('*')]);
    v.push(vec![lit('['), WU::Sq("a-b".into()), lit(']'), lit('*')]);
    // expansions inside the pattern: the value's characters are pattern characters (unquoted) or literals (quoted)
    v.push(vec![lit('['), WU::Unq(raw("y")), lit(']'), lit('*')]);
    v.push(vec![lit('['), WU::Dq(vec![raw("y")]), lit(']'), lit('*')]);
    v.push(vec![lit('['), lit('!'), WU::Unq(raw("y")), lit(']')]);
    v.push(vec![WU::Unq(raw("y")), lit('['), lit('a'), lit('b'), lit(']')]);
    v.push(vec![lit('['), WU::Unq(raw("@")), lit(']'), lit('*')]);
    v.push(vec![lit('['), WU::Dq(vec![raw("*")]), lit(']'), lit('*')]);
    v
}

/// a random pattern: a bracket expression over the characters of the states' values, with `*` / `?` around it
fn random_pattern(r: &mut Rng) -> Vec<WU> {
    let mut s = String::new();
    if r.chance(1, 4) {
        s.push(*r.pick(&['*', '?', 'a', ':']));
    }
    s.push('[');
    if r.chance(1, 3) {
        s.push(*r.pick(&['!', '^']));
    }
    for _ in 0..1 + r.below(3) {
        match r.below(8) {
            0 => s.push_str(r.pick(&["a-b", "a-c", "b-a", "0-9", " -:", "a-"])),
            1 => s.push_str(r.pick(&["[:alpha:]", "[:space:]", "[:punct:]", "[:digit:]", "[:blank:]", "[:x:]"])),
            2 => s.push_str(r.pick(&["[.a.]", "[=b=]", "[.-.]", "[.ab.]", "[.:.]"])),
            3 => s.push(']'),
            _ => s.push(*r.pick(&['a', 'b', ':', ' ', '-', '*', '?'])),
        }
    }
    if !r.chance(1, 8) {
        s.push(']');
    }
    if r.chance(1, 2) {
        s.push(*r.pick(&['*', '?', 'b', ' ']));
    }
    lits(&s)
}

/// text units usable inside double quotes
fn dq_units(full: bool) -> Vec<TU> {
    let mut v = vec![TU::Lit('a'), TU::Lit(' '), TU::Lit(':'), TU::Lit('*'), TU::Lit('\''), TU::Bs('\\'), TU::Bs('"'), TU::Bs('$')];
    for p in PARAMS {
        v.push(raw(p));
    }
    v.push(braced("x", Mo::None));
    v.push(braced("x", Mo::Len));
    v.push(braced("@", Mo::Len));
    if full {
        for p in ALL_PARAMS {
            v.push(braced(p, Mo::None));
            v.push(braced(p, Mo::Len));
        }
        for p in ["?", "-", "$", "!", "0", "2"] {
            v.push(raw(p));
        }
    }
    let ps: &[&str] = if full { &["x", "e", "u", "@", "*", "1", "#", "?", "!", "10", "00"] } else { &["u", "e", "@"] };
    for p in ps {
        for (colon, act) in SWITCHES {
            let ws = inner_words();
            let pick: Vec<usize> = if full { (0..ws.len()).collect() } else { vec![0, 2, 7] };
            for k in pick {
                // single quotes are not recognised in the word of a switch inside double quotes
                if ws[k].iter().any(|u| matches!(u, WU::Sq(_))) {
                    continue;
                }
                if ws[k].iter().any(|u| matches!(u, WU::Unq(TU::Bs(' ')))) {
                    continue;
                }
                v.push(braced(p, Mo::Sw { colon, act, w: ws[k].clone() }));
            }
        }
    }
    for (side, long) in TRIMS {
        v.push(braced("x", Mo::Tr { side, long, w: vec![lit('a'), lit('*')] }));
        if full {
            for w in patterns() {
                v.push(braced("x", Mo::Tr { side, long, w: w.clone() }));
                v.push(braced("@", Mo::Tr { side, long, w }));
            }
            for w in bracket_patterns() {
                v.push(braced("x", Mo::Tr { side, long, w: w.clone() }));
                v.push(braced("*", Mo::Tr { side, long, w }));
            }
        }
    }
    v
}

/// top-level word units; `full` = the wide alphabet (single units), otherwise the base alphabet
fn top_units(full: bool) -> Vec<WU> {
    let mut v = vec![lit('a'), lit('b'), lit(':'), lit('*')];
    for c in [' ', '\\', '\'', '"', 'a', ':'] {
        v.push(WU::Unq(TU::Bs(c)));
    }
    for s in ["", "a b", " ", ":", "*", "\\", "\""] {
        v.push(WU::Sq(s.into()));
    }
    v.push(WU::Dq(vec![]));
    for t in dq_units(full) {
        v.push(WU::Dq(vec![t]));
    }
    if full {
        v.push(WU::Dq(vec![TU::Lit('\\'), TU::Lit('a')]));
        v.push(WU::Dq(vec![TU::Lit('a'), raw("@"), TU::Lit('b')]));
        v.push(WU::Dq(vec![raw("@"), raw("@")]));
        v.push(WU::Dq(vec![raw("*"), raw("x")]));
        v.push(WU::Dq(vec![TU::Lit(' '), raw("x"), TU::Lit(' ')]));
    }
    for p in PARAMS {
        v.push(WU::Unq(raw(p)));
    }
    for p in ["?", "0", "2", "3", "-", "$", "!"] {
        if full {
            v.push(WU::Unq(raw(p)));
        }
    }
    if full {
        for q in ["", "a b", "'", "\\", " : ", "a\tb", "*"] {
            v.push(WU::Dsq(q.into()));
        }
        for p in ALL_PARAMS {
            v.push(WU::Unq(braced(p, Mo::None)));
            v.push(WU::Unq(braced(p, Mo::Len)));
        }
    }
    v.push(WU::Unq(braced("x", Mo::None)));
    v.push(WU::Unq(braced("@", Mo::None)));
    for p in ["x", "u", "e", "1", "@", "*", "#"] {
        if full || p == "x" || p == "@" {
            v.push(WU::Unq(braced(p, Mo::Len)));
        }
    }
    let ps: &[&str] = if full { &ALL_PARAMS } else { &["u", "e", "@"] };
    let ws = inner_words();
    for p in ps {
        for (colon, act) in SWITCHES {
            let pick: Vec<usize> = if full { (0..ws.len()).collect() } else { vec![0, 2, 7] };
            for k in pick {
                v.push(WU::Unq(braced(p, Mo::Sw { colon, act, w: ws[k].clone() })));
            }
        }
    }
    for (side, long) in TRIMS {
        v.push(WU::Unq(braced("x", Mo::Tr { side, long, w: vec![lit('a'), lit('*')] })));
        if full {
            for w in patterns() {
                for p in ["x", "@", "u", "y", "*", "#", "1", "?", "10"] {
                    v.push(WU::Unq(braced(p, Mo::Tr { side, long, w: w.clone() })));
                }
            }
            for w in bracket_patterns() {
                for p in ["x", "@", "y", "1", "10"] {
                    v.push(WU::Unq(braced(p, Mo::Tr { side, long, w: w.clone() })));
                }
            }
        }
    }
    v
}

const X_STATES: [&str; 10] = [
    "x=s612062",           // "a b"
    "x=s206120206220",     // " a  b "
    "x=s613a62",           // "a:b"
    "x=s3a3a",             // "::"
    "x=s-",                // ""
    "",                    // unset
    "x=s61c2a062",         // a NBSP b
    "x=s3a613a203a623a20", // ":a: :b: "
    "x=a3:612062:-:3a",    // array ("a b" "" ":")
    "x=a1:-",              // array ("")
];
const Y_STATES: [&str; 4] = ["", "y=s62", "y=s2a", "y=s6120203a62"];
const R_STATES: [&str; 3] = ["", "!r=U", "!r=s-"];
const POS_STATES: [&str; 7] = [
    "pos=0",
    "pos=1:-",
    "pos=1:612062",
    "pos=3:61:-:622063",
    "pos=2:3a:613a3a62",
    "pos=2:-:-",
    "pos=11:61:62:63:64:65:66:67:68:69:6a206b:6c",
];
const IFS_STATES: [&str; 11] = [
    "", "IFS=s3a", "IFS=s203a", "IFS=s-", "IFS=U", "IFS=s61", "IFS=sc2a0", "IFS=a2:3a:20", "IFS=s3a20", "IFS=s3a2061",
    "IFS=s2d093a",
];

fn state_text(r: &mut Rng) -> String {
    let mut parts: Vec<String> = vec![];
    for s in [*r.pick(&X_STATES), *r.pick(&Y_STATES), "e=s-", *r.pick(&R_STATES), *r.pick(&POS_STATES), *r.pick(&IFS_STATES)] {
        if !s.is_empty() {
            parts.push(s.to_string());
        }
    }
    if r.chance(1, 3) {
        parts.push("nu=1".into());
    }
    if r.chance(1, 4) {
        parts.push("st=3".into());
    }
    if r.chance(1, 4) {
        parts.push(format!("fl={}", r.pick(&["a", "C", "aC", "h", "bv", "aChbv", "v"])));
    }
    if r.chance(1, 6) {
        parts.push("pid=77".into());
    }
    if r.chance(1, 3) {
        parts.push(format!("bg={}", r.pick(&["41", "0", "7"])));
    }
    parts.join(" ")
}

/// places the word in one of the expansion contexts (simple-command argument, `for` list, array
/// assignment, scalar assignment, declaration utility, here-document), sometimes with further words
fn ctx_case(r: &mut Rng, state: &str, w: &[WU]) -> String {
    let here_ok = w.iter().all(|u| matches!(u, WU::Unq(_))) && {
        let ts: Vec<TU> = w.iter().filter_map(|u| if let WU::Unq(t) = u { Some(t.clone()) } else { None }).collect();
        render_tus(&ts, Ctx::Here, &mut String::new()).is_some()
    };
    if r.chance(1, 8) {
        // a history across function calls
        let mut words = vec![word_string(w)];
        for _ in 0..r.below(4) {
            loop {
                let extra = random_word(r, Ctx::Top, 1, 3);
                if renderable(&extra) {
                    words.push(word_string(&extra));
                    break;
                }
            }
        }
        let locals = *r.pick(&LOCAL_STATES);
        return format!("W ctx=fn {} {} | {}", locals, state, words.join(" ;; ")).replace("fn  ", "fn ");
    }
    let ctx = match r.below(20) {
        0..=9 => "arg",
        10 | 11 | 12 => "for",
        13 | 14 => "arr",
        15 | 16 => "asg",
        17 => "exp",
        _ => {
            if here_ok {
                "here"
            } else {
                "asg"
            }
        }
    };
    let mut words = vec![word_string(w)];
    if matches!(ctx, "arg" | "for" | "arr") && r.chance(1, 3) {
        for _ in 0..1 + r.below(2) {
            loop {
                let extra = random_word(r, Ctx::Top, 1, 3);
                if renderable(&extra) {
                    words.push(word_string(&extra));
                    break;
                }
            }
        }
    }
    format!("W ctx={} {} | {}", ctx, state, words.join(" ;; "))
}

const LOCAL_STATES: [&str; 8] = ["", "", "@x=U", "@u=U", "@e=s-", "@x=s61 @u=U", "@y=s612062", "@r=U @e=U"];

/// one word that assigns IFS (`${IFS=w}` / `${IFS:=w}`, separators as the word) and also contains other
/// unquoted expansions — before, after and nested — whose values hold old and new separators:
/// splitting must use the IFS in force AFTER the whole initial expansion
fn ifs_assign_family() -> Vec<Vec<WU>> {
    let seps: Vec<Vec<WU>> = vec![
        vec![lit(':')],
        vec![lit(' '), lit(':')],
        vec![lit('a')],
        vec![],
        vec![WU::Sq(": ".into())],
        vec![WU::Unq(raw("y"))],
        vec![lit('b'), lit(':')],
    ];
    let others: Vec<WU> = vec![
        WU::Unq(raw("x")),
        WU::Unq(raw("y")),
        WU::Unq(raw("@")),
        WU::Unq(raw("*")),
        WU::Unq(braced("x", Mo::None)),
        WU::Unq(braced("u", Mo::Sw { colon: false, act: '-', w: vec![lit('a'), lit(':'), lit('b'), lit(' '), lit('c')] })),
        WU::Dq(vec![raw("x")]),
        lit(':'),
    ];
    let mut out = vec![];
    for colon in [false, true] {
        for sep in &seps {
            let asg = WU::Unq(braced("IFS", Mo::Sw { colon, act: '=', w: sep.clone() }));
            for o in &others {
                out.push(vec![asg.clone(), o.clone()]);
                out.push(vec![o.clone(), asg.clone()]);
                out.push(vec![o.clone(), asg.clone(), o.clone()]);
                for p in &others {
                    out.push(vec![o.clone(), asg.clone(), p.clone()]);
                }
                // nested in another switch word
                out.push(vec![WU::Unq(braced("u", Mo::Sw { colon: false, act: '-', w: vec![asg.clone(), o.clone()] }))]);
                out.push(vec![
                    WU::Unq(braced("u", Mo::Sw { colon: false, act: '-', w: vec![asg.clone()] })),
                    o.clone(),
                ]);
                out.push(vec![WU::Dq(vec![braced("IFS", Mo::Sw { colon, act: '=', w: sep.clone() })]), o.clone()]);
            }
        }
    }
    out
}

const IFS_ASSIGN_STATES: [&str; 6] = ["IFS=U", "IFS=U", "IFS=s-", "IFS=s3a", "", "IFS=s20"];

/// histories around the assigning switches: `${p=w}` / `${p:=w}` inside a function call, then later
/// expansions of the same parameter after the return, in a second call, and at top level again
fn assign_history_family() -> Vec<Vec<Vec<WU>>> {
    let mut out = vec![];
    let inner: Vec<Vec<WU>> = vec![
        vec![lit('q')],
        vec![lit('a'), lit(' '), lit('b')],
        vec![WU::Dq(vec![raw("@")])],
        vec![],
    ];
    for p in ["x", "y", "e", "u", "r"] {
        for colon in [false, true] {
            for w in &inner {
                let first = vec![WU::Unq(braced(p, Mo::Sw { colon, act: '=', w: w.clone() }))];
                let later: Vec<Vec<WU>> = vec![
                    vec![WU::Unq(raw(p))],
                    vec![WU::Dq(vec![braced(p, Mo::Sw { colon: false, act: '-', w: vec![lit('U')] })])],
                    vec![WU::Unq(braced(p, Mo::Sw { colon, act: '=', w: vec![lit('z')] }))],
                    vec![WU::Unq(braced(p, Mo::Len))],
                    vec![WU::Unq(braced(p, Mo::Sw { colon: true, act: '?', w: vec![] }))],
                ];
                for (i, a) in later.iter().enumerate() {
                    out.push(vec![first.clone(), a.clone()]);
                    let b = &later[(i + 1) % later.len()];
                    out.push(vec![first.clone(), a.clone(), b.clone(), later[0].clone()]);
                    out.push(vec![vec![lit('k')], first.clone(), a.clone(), b.clone()]);
                }
            }
        }
    }
    out
}

/// the family around `will_split` save/restore: nested double quotes, switches and trims inside
/// double quotes, with `$*`/`$@`/`$x` before, inside-after and after them
fn will_split_family() -> Vec<Vec<WU>> {
    let dqw = |ts: Vec<TU>| vec![WU::Dq(ts)];
    let inner: Vec<Vec<WU>> = vec![
        dqw(vec![raw("*")]),
        vec![WU::Unq(raw("*"))],
        dqw(vec![raw("@")]),
        vec![WU::Unq(raw("@"))],
        dqw(vec![TU::Lit('a'), TU::Lit(' '), TU::Lit('b')]),
        vec![WU::Unq(braced("e", Mo::Sw { colon: true, act: '-', w: dqw(vec![raw("*")]) }))],
        vec![WU::Unq(braced("x", Mo::Tr { side: '#', long: false, w: dqw(vec![raw("y")]) }))],
        vec![WU::Unq(raw("x")), WU::Dq(vec![]), WU::Unq(raw("*"))],
    ];
    let mut bodies: Vec<Vec<TU>> = vec![vec![raw("*")], vec![raw("@")], vec![raw("x")], vec![]];
    for w in &inner {
        bodies.push(vec![braced("u", Mo::Sw { colon: false, act: '-', w: w.clone() })]);
        bodies.push(vec![braced("x", Mo::Sw { colon: true, act: '+', w: w.clone() })]);
        bodies.push(vec![braced("u", Mo::Sw { colon: true, act: '=', w: w.clone() })]);
    }
    for (side, long) in TRIMS {
        bodies.push(vec![braced("x", Mo::Tr { side, long, w: dqw(vec![raw("y")]) })]);
        bodies.push(vec![braced("*", Mo::Tr { side, long, w: dqw(vec![TU::Lit('a')]) })]);
        bodies.push(vec![braced("@", Mo::Tr { side, long, w: vec![WU::Unq(raw("y"))] })]);
    }
    let tails: Vec<Vec<TU>> = vec![
        vec![],
        vec![raw("*")],
        vec![raw("@")],
        vec![raw("x")],
        vec![braced("u", Mo::Sw { colon: false, act: '-', w: vec![WU::Unq(raw("*"))] })],
    ];
    let afters: Vec<Vec<WU>> = vec![
        vec![],
        vec![WU::Unq(raw("*"))],
        vec![WU::Unq(raw("x"))],
        vec![WU::Unq(braced("u", Mo::Sw { colon: false, act: '-', w: vec![WU::Unq(raw("*"))] }))],
        vec![WU::Unq(braced("*", Mo::Sw { colon: false, act: '+', w: vec![WU::Unq(raw("*"))] }))],
    ];
    let mut out = vec![];
    for b in &bodies {
        for t in &tails {
            for a in &afters {
                for before in [false, true] {
                    let mut w = vec![];
                    if before {
                        w.push(WU::Unq(raw("*")));
                    }
                    let mut body = b.clone();
                    body.extend(t.iter().cloned());
                    w.push(WU::Dq(body));
                    w.extend(a.iter().cloned());
                    out.push(w);
                }
            }
        }
    }
    out
}

/// the word reads the same as an assignment value and as a command word (no `:~`, no colon in a tilde name)
fn asg_ok(w: &[WU]) -> bool {
    let colon_tilde = w.windows(2).any(|p| p[0] == lit(':') && p[1] == lit('~'));
    let tilde_colon = w.iter().any(|u| matches!(u, WU::Tilde { name, .. } if name.contains(':')));
    !(colon_tilde || tilde_colon)
}

fn tilde(name: &str, slash: bool) -> WU {
    WU::Tilde { name: name.into(), slash }
}

/// tilde prefixes (`initial/tilde.rs`, `parse_tilde_front`): at the front of a command word, of a switch word and
/// of a trim pattern; known / unknown login names; followed by nothing, a slash, more text, expansions; and the
/// places where `~` is NOT a tilde prefix (quoted, inside double quotes, not at the front, before an expansion)
fn tilde_family() -> Vec<Vec<WU>> {
    let mut out: Vec<Vec<WU>> = vec![];
    let tails: Vec<Vec<WU>> = vec![
        vec![],
        vec![lit('/')],
        vec![lit('/'), lit('b')],
        vec![lit('/'), lit('b'), lit(':'), lit('c')],
        vec![lit('/'), WU::Unq(raw("x"))],
        vec![lit('/'), WU::Dq(vec![raw("x")])],
        vec![lit('/'), lit('*')],
        vec![lit('/'), WU::Unq(raw("@"))],
        vec![lit('/'), lit('/'), lit('a')],
    ];
    for name in ["", "a", "root", "zz", "a:b", "~", "A.b-c_9"] {
        for t in &tails {
            let mut w = vec![tilde(name, !t.is_empty())];
            w.extend(t.iter().cloned());
            out.push(w);
        }
    }
    // inside modifiers: the word of a switch (word context only) and the pattern of a trim (always)
    let inner: Vec<Vec<WU>> = vec![
        vec![tilde("", false)],
        vec![tilde("a", false)],
        vec![tilde("", true), lit('/'), lit('b')],
        vec![tilde("zz", true), lit('/')],
        vec![tilde("a", true), lit('/'), lit('*')],
    ];
    for w in &inner {
        for (colon, act) in SWITCHES {
            for p in ["u", "e", "x", "@"] {
                let sw = braced(p, Mo::Sw { colon, act, w: w.clone() });
                out.push(vec![WU::Unq(sw.clone())]);
                out.push(vec![lit('a'), WU::Unq(sw.clone()), lit('b')]);
            }
        }
        for (side, long) in TRIMS {
            for p in ["x", "h", "@"] {
                let tr = braced(p, Mo::Tr { side, long, w: w.clone() });
                out.push(vec![WU::Unq(tr.clone())]);
                out.push(vec![WU::Dq(vec![tr.clone()])]);
            }
        }
    }
    // `~` that is not a tilde prefix
    out.push(vec![WU::Dq(vec![TU::Lit('~')])]);
    out.push(vec![WU::Dq(vec![TU::Lit('~'), TU::Lit('/'), TU::Lit('a')])]);
    out.push(vec![WU::Sq("~".into())]);
    out.push(vec![WU::Unq(TU::Bs('~'))]);
    out.push(vec![lit('a'), lit('~')]);
    out.push(vec![lit('a'), lit(':'), lit('~'), lit('/')]);
    out.push(vec![lit('~'), WU::Unq(raw("x"))]);
    out.push(vec![lit('~'), lit('a'), WU::Dq(vec![TU::Lit('b')]), lit('/')]);
    out.push(vec![lit('~'), WU::Sq("".into()), lit('/')]);
    out.push(vec![WU::Dq(vec![braced("u", Mo::Sw { colon: false, act: '-', w: vec![lit('~')] })])]);
    out.push(vec![WU::Dq(vec![braced("u", Mo::Sw { colon: false, act: '-', w: vec![lit('~'), lit('/'), lit('a')] })])]);
    out.push(vec![WU::Unq(raw("h"))]);
    out
}

/// assignment values whose reading differs from that of a command word (`parse_tilde_everywhere_after`): tilde prefixes
/// after unquoted colons, names ended by a colon; and the `~` after a colon that stays literal
fn asg_tilde_family() -> Vec<Vec<WU>> {
    vec![
        vec![lit('a'), lit(':'), tilde("", false)],
        vec![tilde("", false), lit(':'), tilde("a", true), lit('/'), lit('x')],
        vec![tilde("", false), lit(':'), tilde("", false), lit(':'), lit('b')],
        vec![tilde("", true), lit('/'), lit(':'), tilde("", true), lit('/'), lit('c')],
        vec![lit(':'), tilde("", false)],
        vec![tilde("", false), lit(':')],
        vec![tilde("a", false), lit(':'), lit('b')],
        vec![tilde("", false), lit(':'), tilde("zz", false)],
        vec![tilde("root", false), lit(':'), tilde("zz", true), lit('/'), lit(':'), tilde("a", false)],
        vec![WU::Unq(braced("u", Mo::Sw { colon: true, act: '-', w: vec![tilde("", false)] }))],
        vec![WU::Unq(braced("u", Mo::Sw { colon: true, act: '-', w: vec![lit('a'), lit(':'), lit('~')] }))],
        vec![lit('a'), lit(':'), lit('~'), WU::Unq(raw("x"))],
        vec![lit('a'), lit(':'), WU::Sq("~".into())],
        vec![lit('a'), lit(':'), WU::Dq(vec![TU::Lit('~')]), lit(':'), tilde("", false)],
        vec![WU::Unq(raw("x")), lit(':'), tilde("", false)],
        vec![WU::Dq(vec![TU::Lit('a')]), lit(':'), tilde("", true), lit('/'), WU::Unq(raw("x"))],
        vec![lit('a'), lit('b'), lit(':'), tilde("a", false), lit(':'), lit(':'), tilde("", true), lit('/')],
    ]
}

const HOME_STATES: [&str; 10] = [
    "HOME=U", "HOME=s-", "HOME=s2f", "HOME=s2f68", "HOME=s2f682f", "HOME=s2f612062", "HOME=s2f683a78", "HOME=a1:2f78",
    "HOME=s2f2f", "HOME=s2f2a",
];
/// user databases: none; a → /home/a; a → / and root → "" (empty directory); a → "/u v/" and root → /root
const PW_STATES: [&str; 4] = ["", "pw=61:2f686f6d652f61", "pw=61:2f,726f6f74:-", "pw=61:2f7520762f,726f6f74:2f726f6f74"];
const TILDE_IFS_STATES: [&str; 7] = ["", "IFS=s2f", "IFS=s3a", "IFS=s202f", "IFS=s-", "IFS=U", "IFS=s2f3a68"];
/// `h` holds a value that looks like an expanded home directory (for the trims)
const H_STATES: [&str; 3] = ["", "h=s2f682f61", "h=s2f686f6d652f612f62"];

fn tilde_state(r: &mut Rng) -> String {
    let mut parts: Vec<String> = vec![];
    for s in [
        *r.pick(&HOME_STATES),
        *r.pick(&PW_STATES),
        *r.pick(&TILDE_IFS_STATES),
        *r.pick(&H_STATES),
        *r.pick(&X_STATES),
        "e=s-",
        *r.pick(&POS_STATES),
    ] {
        if !s.is_empty() {
            parts.push(s.to_string());
        }
    }
    if r.chance(1, 4) {
        parts.push("nu=1".into());
    }
    parts.join(" ")
}

/// the content of `$((…))` from source-like text: `$x`, `${x}`, `${u:-4}` become parameter units, the rest literals
fn arith_content(src: &str) -> Vec<TU> {
    let mut out = vec![];
    let cs: Vec<char> = src.chars().collect();
    let mut i = 0;
    while i < cs.len() {
        if cs[i] == '$' && i + 1 < cs.len() && cs[i + 1] == '{' {
            let j = (i..cs.len()).find(|&k| cs[k] == '}').unwrap();
            let body: String = cs[i + 2..j].iter().collect();
            match body.split_once(":-") {
                Some((p, w)) => out.push(braced(p, Mo::Sw { colon: true, act: '-', w: lits(w) })),
                None => out.push(braced(&body, Mo::None)),
            }
            i = j + 1;
        } else if cs[i] == '$' && i + 1 < cs.len() && (cs[i + 1].is_ascii_alphabetic() || cs[i + 1] == '#') {
            out.push(raw(&cs[i + 1].to_string()));
            i += 2;
        } else if cs[i] == '@' {
            // nested arithmetic expansion `$((1+1))`
            out.push(TU::Arith(vec![TU::Lit('1'), TU::Lit('+'), TU::Lit('1')]));
            i += 1;
        } else {
            out.push(TU::Lit(cs[i]));
            i += 1;
        }
    }
    out
}

/// arithmetic expansions (`initial/arith.rs` composed with the yash-arith model of C03): values, assignments that later
/// units of the same word see, every error class (an erroring expression assigns nothing before the error), results
/// that contain IFS characters, and the places an expansion can stand in
const ARITH_EXPRS: [&str; 58] = [
    "1+2", "x+1", "x*x", "x=5", "x+=2", "x++", "++x", "x--", "y=x", "r=2", "u", "u+1", "-x", "~x", "!x", "x<<2", "x>>1",
    "x<3", "x==3", "x?1:2", "x&&u", "x||(y=4)", "(x+1)*2", "1/0", "1%0", "x/0", "100", "-5", "0-5", "010", "0x10", "08",
    "1 +", "1 2", "1?2", "1:2", "", " ", "9223372036854775807+1", "1<<63", "-1<<1", "1<<-1", "1=2", "x=y=3", "1,2",
    "$x+1", "${x}*2", "$y", "${u:-4}*2", "@*3", "x=@", " x + 1 ", "10-20", "101*1", "y+x", "e", "e+1", "$#+$#",
];

fn arith_family() -> Vec<Vec<WU>> {
    let mut out = vec![];
    for e in ARITH_EXPRS {
        let a = WU::Unq(TU::Arith(arith_content(e)));
        out.push(vec![a.clone()]);
        out.push(vec![a.clone(), WU::Unq(raw("x"))]);
        out.push(vec![WU::Unq(raw("x")), a.clone(), WU::Unq(raw("x")), WU::Unq(raw("y"))]);
        out.push(vec![lit('a'), a.clone(), lit('b')]);
        out.push(vec![WU::Dq(vec![TU::Arith(arith_content(e))])]);
        out.push(vec![WU::Dq(vec![TU::Arith(arith_content(e)), raw("x")]), WU::Unq(raw("x"))]);
        out.push(vec![a.clone(), lit('-'), WU::Unq(TU::Arith(arith_content("x")))]);
        out.push(vec![WU::Unq(braced("u", Mo::Sw { colon: false, act: '-', w: vec![a.clone()] })), WU::Unq(raw("x"))]);
        out.push(vec![WU::Unq(braced("x", Mo::Tr { side: '#', long: false, w: vec![a.clone()] }))]);
    }
    out
}

const ARITH_X: [&str; 11] = [
    "x=s37", "x=s33", "x=s2d32", "x=s30", "x=s303130", "x=s61", "x=s-", "", "x=a2:31:32", "x=s2035", "x=s3130313031",
];
const ARITH_Y: [&str; 3] = ["", "y=s34", "y=s78"];
const ARITH_IFS: [&str; 7] = ["", "IFS=s30", "IFS=s2d", "IFS=s31", "IFS=s-", "IFS=U", "IFS=s2d30"];

fn arith_state(r: &mut Rng) -> String {
    let mut parts: Vec<String> = vec![];
    for s in [*r.pick(&ARITH_X), *r.pick(&ARITH_Y), "e=s-", *r.pick(&ARITH_IFS), *r.pick(&["", "", "!r=s31", "!r=U"]), *r.pick(&POS_STATES)] {
        if !s.is_empty() {
            parts.push(s.to_string());
        }
    }
    if r.chance(1, 4) {
        parts.push("nu=1".into());
    }
    parts.join(" ")
}

fn cmd_unit(output: &str, backquote: bool) -> TU {
    TU::Cmd { backquote, cmd: format!("emit {}", enc_str(output)) }
}

/// command substitutions as value sources: outputs with blanks, IFS characters, trailing / inner / only newlines,
/// pattern characters, multi-byte text; `$(…)` and backquotes; bare, in double quotes, between literals, two in a row,
/// as switch word, as trim pattern (no case here fails: the direct leg is not available for these words)
fn cmdsubst_family() -> Vec<Vec<WU>> {
    let outputs = [
        "", "a", "a b", " a  b ", "a:b", "a\n", "a\n\n\n", "\n", "\n\n", "a\nb\n", ":a::b:", "*", "a b\n c\n", "\u{e9} \u{65e5}\n",
        "a*", "\\a",
    ];
    let mut out = vec![];
    for o in outputs {
        for bq in [false, true] {
            let k = cmd_unit(o, bq);
            out.push(vec![WU::Unq(k.clone())]);
            out.push(vec![WU::Dq(vec![k.clone()])]);
            out.push(vec![WU::Dq(vec![k.clone(), raw("x")]), WU::Unq(raw("x"))]);
            out.push(vec![lit('x'), WU::Unq(k.clone()), lit('y')]);
            out.push(vec![WU::Unq(k.clone()), WU::Unq(cmd_unit("b c\n", !bq))]);
            out.push(vec![WU::Unq(braced("u", Mo::Sw { colon: false, act: '-', w: vec![WU::Unq(k.clone())] }))]);
            out.push(vec![WU::Dq(vec![braced("u", Mo::Sw { colon: true, act: '-', w: vec![WU::Unq(k.clone())] })])]);
            out.push(vec![WU::Unq(braced("e", Mo::Sw { colon: true, act: '=', w: vec![WU::Unq(k.clone())] })), WU::Unq(raw("e"))]);
            out.push(vec![WU::Unq(braced("x", Mo::Tr { side: '#', long: false, w: vec![WU::Unq(k.clone())] }))]);
            out.push(vec![WU::Unq(braced("x", Mo::Tr { side: '%', long: true, w: vec![WU::Dq(vec![k.clone()])] }))]);
        }
    }
    out
}

fn w_case(state: &str, w: &[WU]) -> String {
    format!("W {} | {}", state, word_string(w))
}

fn random_tu(r: &mut Rng, ctx: Ctx, depth: usize) -> TU {
    loop {
        let t = match r.below(10) {
            0 | 1 | 2 => TU::Lit(*r.pick(&['a', 'b', ' ', ':', '*', '\'', '\\'])),
            3 => TU::Bs(*r.pick(&['a', ' ', ':', '*', '\\', '\'', '"', '$', '}'])),
            4 | 5 => raw(r.pick(&["x", "y", "e", "u", "@", "*", "#", "1", "2", "?", "0", "r", "-", "$", "!"])),
            _ => {
                let p = if r.chance(1, 12) { "IFS" } else { *r.pick(&ALL_PARAMS) };
                let m = match r.below(8) {
                    0 => Mo::None,
                    1 => Mo::Len,
                    2 | 3 | 4 | 5 if depth > 0 => {
                        let (colon, act) = *r.pick(&SWITCHES);
                        let wctx = if matches!(ctx, Ctx::Dq | Ctx::BraceT) { Ctx::BraceT } else { Ctx::BraceW };
                        Mo::Sw { colon, act, w: random_word(r, wctx, depth - 1, 3) }
                    }
                    6 | 7 if depth > 0 => {
                        let (side, long) = *r.pick(&TRIMS);
                        let w = match r.below(4) {
                            0 => r.pick(&bracket_patterns()).clone(),
                            1 => random_pattern(r),
                            _ => random_word(r, Ctx::BraceW, 0, 3),
                        };
                        Mo::Tr { side, long, w }
                    }
                    _ => Mo::None,
                };
                braced(p, m)
            }
        };
        match &t {
            TU::Lit(c) if !(lit_ok(*c, ctx) || (*c == '\\' && matches!(ctx, Ctx::Dq | Ctx::BraceT))) => continue,
            TU::Bs(c) if !bs_ok(*c, ctx) => continue,
            _ => return t,
        }
    }
}

fn random_word(r: &mut Rng, ctx: Ctx, depth: usize, max: usize) -> Vec<WU> {
    let n = if ctx == Ctx::Top { 1 + r.below(max) } else { r.below(max + 1) };
    let mut w = vec![];
    for _ in 0..n {
        let u = match r.below(8) {
            0 if matches!(ctx, Ctx::Top | Ctx::BraceW) => {
                WU::Sq(r.pick(&["", "a b", " ", ":", "*", "\\", "a", " : "]).to_string())
            }
            1 | 2 => {
                let k = r.below(4);
                WU::Dq((0..k).map(|_| random_tu(r, Ctx::Dq, depth)).collect())
            }
            3 if matches!(ctx, Ctx::Top | Ctx::BraceW) && r.chance(1, 3) => {
                WU::Dsq(r.pick(&["", "a b", "'", "\\", " : ", "*"]).to_string())
            }
            _ => WU::Unq(random_tu(r, ctx, depth)),
        };
        w.push(u);
    }
    w
}

fn renderable(w: &[WU]) -> bool {
    render(w).is_some()
}

fn main() {
    quiet_panics();
    let o = Opts::from_args();
    let (fixed, only) = o.fixed_cases();
    for c in &fixed {
        let (obs, oracle) = run_guarded(c);
        emit(c, &obs, &oracle);
    }
    if only {
        return;
    }
    let mut idx = 0usize;
    let mut out = |case: String| {
        if idx % o.shard.1 == o.shard.0 {
            let (obs, oracle) = run_guarded(&case);
            emit(&case, &obs, &oracle);
        }
        idx += 1;
    };
    out("WS".into());

    let thorough = o.thorough();
    let mut rng = Rng::new(o.seed ^ 0xC01);

    // 1. every single unit of the wide alphabet, several states each
    let wide = top_units(true);
    let k1 = if thorough { 60 } else { 6 };
    for u in &wide {
        let w = vec![u.clone()];
        if !renderable(&w) {
            continue;
        }
        for k in 0..k1 {
            let st = state_text(&mut rng);
            if k % 2 == 0 {
                out(w_case(&st, &w));
            } else {
                out(ctx_case(&mut rng, &st, &w));
            }
        }
    }
    // 1b. the will_split family, exhaustively, in every context
    let kf = if thorough { 12 } else { 2 };
    for w in will_split_family() {
        if !renderable(&w) {
            continue;
        }
        for _ in 0..kf {
            let st = state_text(&mut rng);
            out(ctx_case(&mut rng, &st, &w));
        }
    }
    // 1d. IFS assigned inside the word that is being split
    let ki = if thorough { 4 } else { 1 };
    for w in ifs_assign_family() {
        if !renderable(&w) {
            continue;
        }
        for ifs in IFS_ASSIGN_STATES {
            for _ in 0..ki {
                let st = state_text(&mut rng);
                // replace the sampled IFS state by the one of this profile
                let st: Vec<&str> = st.split(' ').filter(|t| !t.starts_with("IFS=")).collect();
                let st = format!("{} {}", st.join(" "), ifs);
                if rng.chance(1, 3) {
                    out(ctx_case(&mut rng, st.trim(), &w));
                } else {
                    out(w_case(st.trim(), &w));
                }
            }
        }
    }
    // 1c. assign-default histories across function calls, with every local-declaration profile
    let kh = if thorough { 6 } else { 1 };
    for hist in assign_history_family() {
        if !hist.iter().all(|w| renderable(w)) {
            continue;
        }
        let words: Vec<String> = hist.iter().map(|w| word_string(w)).collect();
        for locals in LOCAL_STATES {
            for _ in 0..kh {
                let st = state_text(&mut rng);
                out(format!("W ctx=fn {} {} | {}", locals, st, words.join(" ;; ")).replace("fn  ", "fn "));
            }
        }
    }
    // 2. all pairs (thorough: also triples) over the base alphabet
    let base = top_units(false);
    let k2 = if thorough { 10 } else { 1 };
    for a in &base {
        for b in &base {
            let w = vec![a.clone(), b.clone()];
            if !renderable(&w) {
                continue;
            }
            for _ in 0..k2 {
                out(w_case(&state_text(&mut rng), &w));
            }
        }
    }
    if thorough {
        let small: Vec<WU> = base.iter().enumerate().filter(|(i, _)| i % 2 == 0).map(|(_, u)| u.clone()).collect();
        for a in &small {
            for b in &small {
                for c in &small {
                    let w = vec![a.clone(), b.clone(), c.clone()];
                    if renderable(&w) {
                        out(w_case(&state_text(&mut rng), &w));
                    }
                }
            }
        }
    }
    // 3. random words up to 6 units, nesting depth 2
    let n3 = if thorough { 1_000_000 } else { 14_000 };
    let mut made = 0;
    while made < n3 {
        let w = random_word(&mut rng, Ctx::Top, 2, 6);
        if !renderable(&w) {
            continue;
        }
        made += 1;
        let st = state_text(&mut rng);
        if made % 2 == 0 {
            out(w_case(&st, &w));
        } else {
            out(ctx_case(&mut rng, &st, &w));
        }
    }
    // 3a. tilde prefixes (own generator stream: the families above keep their cases)
    {
        let mut trng = Rng::new(o.seed ^ 0xC01_71DE);
        let kt = if thorough { 120 } else { 12 };
        for w in tilde_family() {
            if !renderable(&w) {
                continue;
            }
            for k in 0..kt {
                let st = tilde_state(&mut trng);
                if k % 3 == 0 && asg_ok(&w) {
                    out(ctx_case(&mut trng, &st, &w));
                } else {
                    out(w_case(&st, &w));
                }
            }
        }
        // assignment values read by `parse_tilde_everywhere_after`
        let kasg = if thorough { 60 } else { 8 };
        for w in asg_tilde_family() {
            for k in 0..kasg {
                let st = tilde_state(&mut trng);
                let ctx = if k % 3 == 0 { "exp" } else { "asg" };
                out(format!("W ctx={} {} | {}", ctx, st, word_string(&w)));
            }
        }
        // a tilde prefix in front of a random word
        let nt = if thorough { 60_000 } else { 2_000 };
        let mut made = 0;
        while made < nt {
            let name = *trng.pick(&["", "", "a", "root", "zz"]);
            let mut tail = random_word(&mut trng, Ctx::Top, 2, 4);
            let mut w = vec![];
            if trng.chance(1, 5) {
                tail.clear();
            }
            w.push(tilde(name, !tail.is_empty()));
            if !tail.is_empty() {
                w.push(lit('/'));
            }
            w.extend(tail);
            if !renderable(&w) {
                continue;
            }
            made += 1;
            let st = tilde_state(&mut trng);
            if made % 2 == 0 || !asg_ok(&w) {
                out(w_case(&st, &w));
            } else {
                out(ctx_case(&mut trng, &st, &w));
            }
        }
    }
    // 3a'. shapes of text nobody generated before: multi-byte characters (also as IFS), a very long value,
    // values that start with `-`; with the forms whose result depends on characters vs bytes
    {
        let mut xrng = Rng::new(o.seed ^ 0xC01_7E87);
        let long: String = "ab :\u{e9}".chars().cycle().take(300).collect();
        let xs: Vec<String> = vec![
            "x=s2d6e2061".into(),                    // "-n a"
            "x=s2d".into(),                          // "-"
            "x=s2d2d20c3a9".into(),                  // "-- é"
            "x=sc3a9e697a5e69cac20f09f9880".into(),  // "é日本 😀"
            "x=se697a5c3a9e697a5".into(),            // "日é日"
            format!("x=s{}", enc_str(&long)),
            format!("x=a2:{}:2d", enc_str(&long)),
        ];
        let ifss = ["", "IFS=sc3a9", "IFS=se697a5", "IFS=s3a", "IFS=s20c3a9", "IFS=s-", "IFS=sf09f9880"];
        let poss = ["pos=0", "pos=2:2d6e:c3a9e697a5", "pos=1:e697a5c3a9e697a5"];
        let mut words: Vec<Vec<WU>> = vec![
            vec![WU::Unq(raw("x"))],
            vec![WU::Dq(vec![raw("x")])],
            vec![WU::Unq(braced("x", Mo::Len))],
            vec![WU::Unq(raw("@"))],
            vec![WU::Unq(raw("*"))],
            vec![WU::Dq(vec![raw("*")])],
            vec![WU::Unq(braced("1", Mo::Len))],
            vec![WU::Unq(braced("@", Mo::Len))],
            vec![WU::Unq(braced("u", Mo::Sw { colon: true, act: '-', w: vec![WU::Unq(raw("x"))] }))],
            vec![lit('-'), WU::Unq(raw("x"))],
        ];
        for (side, long) in TRIMS {
            for pat in [vec![lit('?')], vec![lit('*'), lit(' ')], vec![lit('-'), lit('*')], vec![lit('?'), lit('?')], vec![lit('['), lit('!'), lit('a'), lit(']')]] {
                words.push(vec![WU::Unq(braced("x", Mo::Tr { side, long, w: pat.clone() }))]);
                words.push(vec![WU::Dq(vec![braced("1", Mo::Tr { side, long, w: pat })])]);
            }
        }
        let kx = if thorough { 8 } else { 1 };
        for w in &words {
            if !renderable(w) {
                continue;
            }
            for x in &xs {
                for ifs in ifss {
                    for _ in 0..kx {
                        let pos = *xrng.pick(&poss);
                        let nu = if xrng.chance(1, 4) { " nu=1" } else { "" };
                        let st = format!("{x} {pos} {ifs}{nu}").replace("  ", " ");
                        if xrng.chance(1, 3) {
                            out(ctx_case(&mut xrng, st.trim(), w));
                        } else {
                            out(w_case(st.trim(), w));
                        }
                    }
                }
            }
        }
        // … and for `read`
        let lines = ["\u{e9}a\u{e9}\u{e9}b \u{65e5}\n", "-n \u{e9} b\n", "\u{65e5}\\\u{e9}\u{65e5}\u{e9}\n", "a\u{1f600}b\u{1f600}\n", "\u{e9}\n"];
        for l in lines {
            for ifs in ifss {
                for n in 1..=3 {
                    for raw in [0, 1] {
                        out(format!("R {ifs} raw={raw} n={n} | {}", enc_str(l)).replace("R  ", "R "));
                    }
                }
            }
        }
        let long_line: String = format!("{}\n", "ab :\u{e9}\\ ".chars().cycle().take(400).collect::<String>());
        for ifs in ifss {
            out(format!("R {ifs} raw=0 n=3 | {}", enc_str(&long_line)).replace("R  ", "R "));
        }
    }
    // 3a*. command substitutions as value sources (own generator stream)
    {
        let mut krng = Rng::new(o.seed ^ 0xC01_C5B5);
        let kk = if thorough { 30 } else { 3 };
        let ifss = ["", "IFS=s3a", "IFS=s203a", "IFS=s-", "IFS=U", "IFS=s61", "IFS=s0a", "IFS=s2a"];
        for w in cmdsubst_family() {
            if !renderable(&w) {
                continue;
            }
            for k in 0..kk {
                let mut parts: Vec<&str> = vec![*krng.pick(&X_STATES), "e=s-", *krng.pick(&ifss), *krng.pick(&POS_STATES)];
                parts.retain(|p| !p.is_empty());
                let st = parts.join(" ");
                if k % 3 == 2 {
                    // (function-call histories have their own oracle, which needs the direct leg)
                    let c = ctx_case(&mut krng, &st, &w);
                    out(if c.starts_with("W ctx=fn") || c.contains(" ;; ") { w_case(&st, &w) } else { c });
                } else {
                    out(w_case(&st, &w));
                }
            }
        }
    }
    // 3a+. arithmetic expansions (own generator stream)
    {
        let mut arng = Rng::new(o.seed ^ 0xC01_A817);
        let ka = if thorough { 40 } else { 4 };
        for w in arith_family() {
            if !renderable(&w) {
                continue;
            }
            for k in 0..ka {
                let st = arith_state(&mut arng);
                if k % 4 == 3 {
                    out(ctx_case(&mut arng, &st, &w));
                } else {
                    out(w_case(&st, &w));
                }
            }
        }
        // random token soups without assignment operators (an error then leaves the variables as they were)
        let toks = ["1", "2", "10", "x", "u", "y", "+", "-", "*", "/", "%", "(", ")", "<<", "<", "?", ":", "&&", "!", "~", "$x", "${u:-3}", "0"];
        let ns = if thorough { 40_000 } else { 1_500 };
        let mut made = 0;
        while made < ns {
            let n = 1 + arng.below(6);
            let src: Vec<&str> = (0..n).map(|_| *arng.pick(&toks)).collect();
            let a = WU::Unq(TU::Arith(arith_content(&src.join(" "))));
            let w = if arng.chance(1, 2) { vec![a] } else { vec![WU::Unq(raw("x")), a, lit(':'), WU::Unq(raw("y"))] };
            if !renderable(&w) {
                continue;
            }
            made += 1;
            let st = arith_state(&mut arng);
            out(w_case(&st, &w));
        }
    }
    // 3a-. tilde-prefix parsing on lexed words: every word of <= 5 units over a small alphabet, both functions,
    // every start index
    {
        let alpha: Vec<WU> = vec![
            lit('~'), lit('a'), lit('/'), lit(':'), WU::Sq("a".into()), WU::Unq(raw("x")), WU::Dq(vec![TU::Lit('~')]),
            WU::Unq(TU::Bs('~')),
        ];
        let maxlen = if thorough { 5 } else { 4 };
        let mut tcount = 0usize;
        let mut frontier: Vec<Vec<WU>> = vec![vec![]];
        for _ in 0..maxlen {
            let mut next = vec![];
            for w in &frontier {
                for u in &alpha {
                    let mut v = w.clone();
                    v.push(u.clone());
                    next.push(v);
                }
            }
            for w in &next {
                // only words with a tilde are interesting; keep one in nine of the others
                let has = w.contains(&lit('~'));
                tcount += 1;
                if !has && tcount % 9 != 0 {
                    continue;
                }
                // quick tier: a third of the four-unit words
                if !thorough && w.len() == 4 && tcount % 3 != 0 {
                    continue;
                }
                let mut sentinel = vec![lit('a')];
                sentinel.extend(w.iter().cloned());
                if !renderable(&sentinel) {
                    continue;
                }
                out(format!("T ctx=front n=0 | {}", word_string(w)));
                for i in 0..=w.len().min(3) {
                    out(format!("T ctx=every n={i} | {}", word_string(w)));
                }
            }
            frontier = next;
        }
    }
    // 3a''. the `Phrase` API on every constructor shape: a single Char, one Field (empty, one, several characters),
    // Full with no / one / several fields (also empty ones) — append on all pairs, the re-attribution, `$*` joining under
    // several IFS values, conversion to fields and quote removal
    {
        let shapes = [
            "C61l0", "C20s0", "C22l2", "f-", "f61l0", "f61l0_20s0", "f22l2_62l1_22l2", "f2fh0_5cl2_61l1", "F.", "F-", "F61l0",
            "F61l0_3as0", "F61l0,20s0", "F-,-", "F61l0_20s0,62l1,-", "F22l2_61l1_22l2,22l2_22l2",
        ];
        for a in shapes {
            for b in shapes {
                out(format!("H ctx=append | {a} ;; {b}"));
            }
            out(format!("H ctx=soften | {a}"));
            out(format!("H ctx=fields | {a}"));
            for ifs in ["", "IFS=U", "IFS=s-", "IFS=s3a20", "IFS=a2:2d:3a", "IFS=a0", "IFS=sc3a9"] {
                out(format!("H ctx=join {ifs} | {a}").replace("join  |", "join |"));
            }
        }
    }
    // 3b. the braced-parameter lexer: everything that can follow `${`, up to 4 (thorough 5) characters
    let palpha = ['#', 'x', '1', '0', '-', ':', '?', '%', '@', '}', 'a', '=', '+', '!', '*'];
    let pmax = if thorough { 5 } else { 4 };
    let mut pfront = vec![String::new()];
    out("P | -".into());
    for _ in 0..pmax {
        let mut next = vec![];
        for l in &pfront {
            for c in palpha {
                next.push(format!("{l}{c}"));
            }
        }
        for l in &next {
            if rng.chance(1, 3) {
                out(format!("P portable=1 | {}", enc_str(l)));
            } else {
                out(format!("P | {}", enc_str(l)));
            }
        }
        pfront = next;
    }
    // 4. `read`: all lines up to 3 (thorough 4) characters over a small alphabet, then random longer ones
    let alpha = ['a', ' ', ':', '\\', 'b', '\t', '\n'];
    let maxlen = if thorough { 5 } else { 4 };
    let mut lines: Vec<String> = vec![String::new()];
    let mut frontier = vec![String::new()];
    for _ in 0..maxlen {
        let mut next = vec![];
        for l in &frontier {
            for c in alpha {
                next.push(format!("{l}{c}"));
            }
        }
        lines.extend(next.iter().cloned());
        frontier = next;
    }
    let read_ifs = ["", "IFS=s3a", "IFS=s203a", "IFS=s-", "IFS=U", "IFS=s61", "IFS=a2:3a:20"];
    let k4 = if thorough { 3 } else { 1 };
    for l in &lines {
        for _ in 0..k4 {
            let ifs = *rng.pick(&read_ifs);
            let n = 1 + rng.below(3);
            let raw = rng.chance(1, 3) as u8;
            let ro = if rng.chance(1, 8) { *rng.pick(&["!v1=s71 ", "!v2=U ", "!v1=U "]) } else { "" };
            // `-d`: a delimiter other than newline (also the backslash itself, a separator, a field character)
            let d = if rng.chance(1, 5) { *rng.pick(&[" d=3a", " d=61", " d=5c", " d=20", " d=09", " d=27"]) } else { "" };
            out(format!("R {ro}{ifs} raw={raw} n={n}{d} | {}", enc_str(&format!("{l}\n"))).replace("R  ", "R "));
        }
    }
    let n5 = if thorough { 200_000 } else { 5_000 };
    for _ in 0..n5 {
        let len = 3 + rng.below(10);
        let mut l: String = (0..len).map(|_| *rng.pick(&['a', 'b', ' ', ' ', ':', ':', '\\', '\t', '\u{a0}'])).collect();
        if !rng.chance(1, 6) {
            l.push('\n');
        }
        let ifs = *rng.pick(&["", "IFS=s3a", "IFS=s203a", "IFS=s-", "IFS=U", "IFS=s61", "IFS=sc2a0", "IFS=s3a20"]);
        let n = 1 + rng.below(4);
        let raw = rng.chance(1, 3) as u8;
        let d = if rng.chance(1, 5) { *rng.pick(&[" d=3a", " d=62", " d=5c", " d=20"]) } else { "" };
        out(format!("R {ifs} raw={raw} n={n}{d} | {}", enc_str(&l)).replace("R  ", "R "));
    }
}
