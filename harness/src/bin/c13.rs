//! C13 — children are started, awaited and reaped correctly under every schedule.
//!
//! The virtual system runs every (virtual) child process as a task of an `Executor`
//! (`SystemState::executor`).  `yverif::shell` installs the FIFO `yash_executor::Executor`; this file
//! installs its own executor (`Sched`) in which the run loop picks the next task to poll among the
//! *woken* tasks according to a recorded choice string (then a seeded RNG, then "lowest task first").
//! A process yields to the executor exactly where its `select` would block
//! (`Concurrent::run_virtual`), so a choice string is a schedule of the simulated processes at their
//! blocking points.
//!
//! Case line: `<program> @ <choices>` — `<program>` is a `;`-separated list of statements of the
//! small language below (rendered to shell text by `render`, interpreted by
//! /verif/lean/YashModel/Proc/Main.lean); `<choices>` is the complete list of choices made at the
//! points where more than one task was runnable (digits, index into the runnable tasks in creation
//! order), or `-`.  Replaying a case line reproduces the run exactly.
//!
//! Statements (`N` = exit status 0..255, `W` = a word of letters):
//!   pf1 / pf0            set -o pipefail / set +o pipefail
//!   p M M …              pipeline of members      M ::= sN (`st N`) | xN (`exit N`) | c (`cat`)
//!                                                      | eW (`echo W`) | gN (`( exit N )`) | qN (`x=$(exit N)`)
//!   np M M …             the same, negated (`! …`)
//!   bg M                 `M &`  (asynchronous list, `$!` saved in `$jK`, K = number of this job)
//!   bgp M M …            `M | M … &`
//!   wj K                 `wait $jK`            w               `wait`
//!   wu                   `wait 9999` (a pid that was never a child)
//!   wjj K L              `wait $jK $jL`
//!   g N                  `( exit N )`          gg N            `( ( exit N ) )`
//!   gp M M …             `( M | M … )`         q N             `x=$( exit N )`
//!   qe W N               `x=$( echo W; exit N ); probe "$x"`
//!   qq N                 `x=$( y=$( exit N ) )`
//! After every statement the script runs `probe $!`, which prints `<$?>:<hex of $!>`.
//!
//! Observation: the probe trace with every `$!` value replaced by `a<k>` (k-th distinct value) — plus
//! pipeline output — then `st=<final exit status>` and `z=<number of children of any process that are
//! alive or still hold an unreported state at exit>`.  A run that stalls is `TIMEOUT`.
//!
//! Oracle (Rust side, independent of the Lean model): the observation of a (program, schedule) pair
//! equals that of the first schedule explored for the same program (`FAIL:schedule-dependent`), no
//! zombie (`FAIL:zombie`), no stall (`FAIL:TIMEOUT`).

use std::cell::{Cell, RefCell};
use std::fmt::Debug;
use std::future::Future;
use std::ops::ControlFlow::{Break, Continue};
use std::pin::Pin;
use std::rc::Rc;
use std::sync::Arc;
use std::sync::atomic::{AtomicBool, Ordering};
use std::task::{Context, Wake, Waker};

use yash_cli::startup::args::{InitFile, Run, Source, Work};
use yash_cli::startup::configure_environment;
use yash_cli::startup::input::prepare_input;
use yash_env::Env;
use yash_env::job::Pid;
use yash_env::semantics::Divert;
use yash_env::system::Concurrent;
use yash_env::system::r#virtual::{Executor, SystemState, VirtualSystem};
use yash_semantics::read_eval_loop;
use yash_semantics::trap::run_exit_trap;
use yverif::proto::{Opts, dec_str, emit, guarded, quiet_panics};
use yverif::rng::Rng;
use yverif::shell::{VEnv, probe_builtins, read_file};

// ------------------------------------------------------------------------------------------
// the schedule-exploring executor

struct Flag(AtomicBool);

impl Wake for Flag {
    fn wake(self: Arc<Self>) {
        self.0.store(true, Ordering::SeqCst);
    }
    fn wake_by_ref(self: &Arc<Self>) {
        self.0.store(true, Ordering::SeqCst);
    }
}

struct Slot {
    fut: Option<Pin<Box<dyn Future<Output = ()>>>>,
    flag: Arc<Flag>,
    done: bool,
}

/// Every task ever spawned, in creation order (task 0 = the main shell process).  `spawn` only pushes,
/// so task numbers are stable.
#[derive(Default)]
struct Sched {
    tasks: RefCell<Vec<Slot>>,
}

impl Debug for Sched {
    fn fmt(&self, f: &mut std::fmt::Formatter<'_>) -> std::fmt::Result {
        write!(f, "Sched")
    }
}

impl Executor for Sched {
    fn spawn(
        &self,
        task: Pin<Box<dyn Future<Output = ()>>>,
    ) -> Result<(), Box<dyn std::error::Error>> {
        self.tasks.borrow_mut().push(Slot {
            fut: Some(task),
            flag: Arc::new(Flag(AtomicBool::new(true))),
            done: false,
        });
        Ok(())
    }
}

impl Sched {
    fn runnable(&self) -> Vec<usize> {
        self.tasks
            .borrow()
            .iter()
            .enumerate()
            .filter(|(_, s)| !s.done && s.flag.0.load(Ordering::SeqCst))
            .map(|(i, _)| i)
            .collect()
    }
    fn unfinished(&self) -> usize {
        self.tasks.borrow().iter().filter(|s| !s.done).count()
    }
    /// Polls task `i` once (the future is taken out of the table while it runs, because the poll
    /// may call `spawn`).
    fn poll(&self, i: usize) {
        let (mut fut, flag) = {
            let mut ts = self.tasks.borrow_mut();
            let s = &mut ts[i];
            s.flag.0.store(false, Ordering::SeqCst);
            (s.fut.take().expect("task polled re-entrantly"), Arc::clone(&s.flag))
        };
        let waker = Waker::from(flag);
        let mut cx = Context::from_waker(&waker);
        let ready = fut.as_mut().poll(&mut cx).is_ready();
        let mut ts = self.tasks.borrow_mut();
        if ready {
            ts[i].done = true;
            drop(fut);
        } else {
            ts[i].fut = Some(fut);
        }
    }
}

/// Source of scheduling decisions: a recorded prefix, then a seeded RNG (if any), then 0.
struct Chooser {
    prefix: Vec<u8>,
    rng: Option<Rng>,
    /// choices made so far and the number of alternatives at each of them
    taken: Vec<(u8, u8)>,
}

impl Chooser {
    fn choose(&mut self, n: usize) -> usize {
        let k = self.taken.len();
        let c = if k < self.prefix.len() {
            self.prefix[k] as usize % n
        } else if let Some(r) = &mut self.rng {
            r.below(n)
        } else {
            0
        };
        self.taken.push((c as u8, n as u8));
        c
    }
}

fn digits(v: &[(u8, u8)]) -> String {
    if v.is_empty() {
        return "-".into();
    }
    v.iter().map(|(c, _)| char::from_digit(*c as u32, 36).unwrap()).collect()
}

fn parse_digits(t: &str) -> Vec<u8> {
    t.chars().filter_map(|c| c.to_digit(36)).map(|d| d as u8).collect()
}

struct RunOut {
    stdout: Vec<u8>,
    stderr: Vec<u8>,
    status: i32,
    stuck: bool,
    /// processes other than the main shell that are alive or hold an unreported state at the end
    zombies: usize,
    /// processes ever created (including the shell)
    procs: usize,
    taken: Vec<(u8, u8)>,
}

const MAX_POLLS: usize = 200_000;

/// `yverif::shell::run_with` with the FIFO executor replaced by `Sched` driven by `chooser`.
fn run_sched(script: &str, mut chooser: Chooser) -> RunOut {
    let system = VirtualSystem::new();
    let state: Rc<RefCell<SystemState>> = Rc::clone(&system.state);
    let sched = Rc::new(Sched::default());
    state.borrow_mut().executor = Some(Rc::clone(&sched) as Rc<dyn Executor>);

    let env = Env::with_system(Rc::new(Concurrent::new(system)));
    let concurrent = Rc::clone(&env.system);
    let result: Rc<Cell<Option<i32>>> = Rc::new(Cell::new(None));
    let result2 = Rc::clone(&result);
    let script = script.to_string();

    let main = async move {
        let mut env = env;
        let run = Run {
            work: Work {
                source: Source::String(script),
                profile: InitFile::None,
                rcfile: InitFile::None,
            },
            options: vec![],
            arg0: "yash".into(),
            positional_params: vec![],
        };
        let work = configure_environment(&mut env, run).await;
        env.builtins.extend(probe_builtins());
        let status = eval_source(&mut env, &work.source).await;
        result2.set(Some(status));
    };
    let runner = async move { concurrent.run_virtual(main).await };
    sched.spawn(Box::pin(runner)).unwrap();

    let mut polls = 0usize;
    let mut stuck = false;
    let mut status: Option<i32> = None;
    loop {
        if status.is_none() {
            status = result.take();
        }
        let r = sched.runnable();
        if r.is_empty() {
            if status.is_some() && sched.unfinished() == 0 {
                break;
            }
            // nothing is runnable: let virtual time pass if somebody sleeps, else the run is over
            let mut st = state.borrow_mut();
            let next = st.scheduled_wakers.next_wake_time();
            if let Some(next) = next {
                st.advance_time(next);
            }
            drop(st);
            if sched.runnable().is_empty() {
                // The main shell finished: whatever is left never terminates (reported as zombies).
                // The main shell did not finish: deadlock.
                stuck = status.is_none();
                break;
            }
            continue;
        }
        let i = if r.len() == 1 { r[0] } else { r[chooser.choose(r.len())] };
        sched.poll(i);
        polls += 1;
        if polls > MAX_POLLS {
            stuck = true;
            break;
        }
    }

    let (zombies, procs) = {
        let st = state.borrow();
        let z = st
            .processes
            .iter()
            .filter(|(pid, p)| **pid != Pid(2) && (p.state().is_alive() || p.state_has_changed()))
            .count();
        (z, st.processes.len())
    };
    let stdout = read_file(&state, "/dev/stdout").unwrap_or_default();
    let stderr = read_file(&state, "/dev/stderr").unwrap_or_default();
    // break the Rc cycle state -> executor -> tasks -> state
    state.borrow_mut().executor = None;
    sched.tasks.borrow_mut().clear();
    RunOut { stdout, stderr, status: status.unwrap_or(-1), stuck, zombies, procs, taken: chooser.taken }
}

/// The tail of `yash_cli::run_as_shell_process` (as in `yverif::shell`).
async fn eval_source(env: &mut VEnv, source: &Source) -> i32 {
    let ref_env = RefCell::new(env);
    let lexer = match prepare_input(&ref_env, source).await {
        Ok(lexer) => lexer,
        Err(_) => return 127,
    };
    let result = read_eval_loop(&ref_env, &mut { lexer }).await;
    let env = ref_env.into_inner();
    env.apply_result(result);
    match result {
        Continue(())
        | Break(Divert::Continue { .. })
        | Break(Divert::Break { .. })
        | Break(Divert::Return(_))
        | Break(Divert::Interrupt(_))
        | Break(Divert::Exit(_)) => run_exit_trap(env).await,
        Break(Divert::Abort(_)) => (),
    }
    env.exit_status.0
}

fn main() {
    let opts = Opts::from_args();
    quiet_panics();
    // debugging aid: `c13 --script 'text' [--sched digits | --rand seed]`
    if let Some(p) = opts.extra.iter().position(|a| a == "--script") {
        let script = opts.extra[p + 1].clone();
        let get = |k: &str| opts.extra.iter().position(|a| a == k).map(|i| opts.extra[i + 1].clone());
        let chooser = Chooser {
            prefix: get("--sched").map(|s| parse_digits(&s)).unwrap_or_default(),
            rng: get("--rand").map(|s| Rng::new(s.parse().unwrap())),
            taken: vec![],
        };
        let o = run_sched(&script, chooser);
        print!("{}", String::from_utf8_lossy(&o.stdout));
        eprint!("{}", String::from_utf8_lossy(&o.stderr));
        eprintln!(
            "[exit {} stuck {} zombies {} procs {} choices {} widths {}]",
            o.status,
            o.stuck,
            o.zombies,
            o.procs,
            digits(&o.taken),
            o.taken.iter().map(|(_, n)| n.to_string()).collect::<String>()
        );
        return;
    }
    let _ = (dec_str("-"), emit as fn(&str, &str, &str), guarded::<fn() -> String>);
}
