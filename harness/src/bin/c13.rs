//! C13 — children are started, awaited and reaped correctly under every schedule.
//!
//! The virtual system runs every (virtual) child process as a task of an `Executor`
//! (`SystemState::executor`).  `yverif::shell` installs the FIFO `yash_executor::Executor`; this file
//! installs its own executor (`Sched`) in which the run loop picks the next task to poll among the
//! *woken* tasks according to a recorded choice string (then a seeded RNG, then "lowest task first").
//! A process yields to the executor exactly where its `select` would block
//! (`Concurrent::run_virtual`), so a choice string is a schedule of the simulated processes at their
//! blocking points.
//!
//! Case line: `<program> @ <choices>` — `<program>` is a `;`-separated list of statements of the
//! small language below (rendered to shell text by `render`, interpreted by
//! /verif/lean/YashModel/Proc/Main.lean); `<choices>` is the complete list of choices made at the
//! points where more than one task was runnable (digits, index into the runnable tasks in creation
//! order), or `-`.  Replaying a case line reproduces the run exactly.
//!
//! Statements (`N` = exit status of a child, 0..999 — the shell sees `N % 256` —, `W` = a word of letters):
//!   pf1 / pf0            set -o pipefail / set +o pipefail
//!   p M M …              pipeline of members      M ::= sN (`st N`) | xN (`exit N`) | c (`cat`)
//!                                                      | eW (`echo W`) | gN (`( exit N )`) | qN (`x=$(exit N)`)
//!   np M M …             the same, negated (`! …`)
//!   fp F F …             pipeline whose stages block on I/O with each other
//!                        F ::= wN (`spew N`: write N bytes) | c (`cat`) | d (`drain`: read to EOF)
//!                            | tK.S (`take K S`: read K bytes, exit S) | sN (`st N`)
//!   bg M                 `M &`  (asynchronous list, `$!` saved in `$jK`, K = number of this job)
//!   bg M M …             `M | M … &`
//!   wj O O …             `wait` with operands  O ::= K (`$jK`) | u (`99999`, never a child) | % (`%7`, no such job)
//!   w                    `wait`
//!                        | %st / %nap (job whose name starts so; ambiguous → the built-in fails, 2)
//!                        | %% %+ (current job) | %- (previous job) | %N (job number N)
//!   wu                   `wait 9999` (a pid that was never a child)
//!   gl                   `( probe "$!" "$x"; wait $! )`: `$!` is inherited by the subshell (same value) but names no child of it (127)
//!   ku                   `kill -s TERM 99999` (no such process: 1)
//!   wx                   `wait -x` (invalid option, 2)         gj K   `( wait $jK )` (not the subshell's child, 127)
//!   bn MS N              `nap MS N &` (a job that sleeps MS ms of virtual time, then exits N)
//!   k SIG K              `kill -s SIG $jK`   SIG ∈ HUP INT QUIT KILL TERM USR1 STOP CONT
//!   tw SIG N             `trap 'echo trapsig' SIG; ( nap 100; kill -s SIG $$; nap 100; exit N ) & wait $!`
//!                        (the `wait` is interrupted by the trapped signal: status 384+SIG, trap run first)
//!   tk SIG MS N          `trap 'echo trapsig' SIG; nap MS N & kill -s SIG $!`  (the child inherits SIG blocked; the
//!                        signal is pending until the child's entry step unblocks it, where it kills the child)
//!   tkg SIG MS N         the same with `( exit 0 )` between the fork and the kill (either order of kill and entry step)
//!   ts SIG N             `trap 'echo trapsig' SIG; ( kill -s SIG $$; ( exit 0 ); exit N ) & wait $!`  (no virtual time: the job
//!                        sends the trapped signal, passes a blocking point and exits; by schedule the signal and SIGCHLD
//!                        reach the blocked `wait` in one wake-up or in two — the trap wins either way: 384+SIG, job not
//!                        waited for)
//!   tsn SIG N            the same without `( exit 0 )`: signal and SIGCHLD always arrive in ONE wake-up
//!   tsr SIG N R          as `ts`, the trap action being `echo trapsig; st R`: its own status must not become that of `wait`
//!   tsq SIG N Q          as `ts`, the action being `probe …` after `st Q`: `$?` inside the action is Q (the value before the trap)
//!   tsf SIG N R          as `ts`, `wait` running inside a function and the action being `return R`: the function returns R
//!   tsa SIG N            as `ts` with a `wait` WITHOUT operands (generated only while no other job is open)
//!   ts2 SIG1 SIG2 N      the job sends SIG1, then SIG2 (both trapped): `wait` = 384+SIG1, trap of SIG1 first, that of SIG2
//!                        after the built-in
//!   tc N                 `trap 'echo trapchld' CHLD; ( exit N ) & wait $!`: SIGCHLD itself has a trap action — the exit of
//!                        the job interrupts the `wait` for it (384+CHLD), the job stays waitable; always followed by
//!   tcx                  `trap - CHLD`
//! Not part of the case language (usable in `--script`): `failfork K` makes the (K+1)-th fork from now fail with EAGAIN
//! (the executor refuses the spawn); `jcheck` is inserted before every probe by `render`.
//!   tso SIG N O O …      as `ts`, the `wait` having further operands after `$!` (forms of `wj` except by-name): the trap ends the
//!                        whole built-in (`?` in `await_jobs`): 384+SIG, none of the other operands is awaited or removed
//!   ti                   `trap '' USR2; kill -s USR2 $$`
//!   scp N                the same with `nap 300 N | drain` (the first member of a pipeline is stopped and continued)
//!   sc N                 (first statement only) a foreground `( nap 300; exit N )` stopped and continued by a
//!                        helper job while the shell waits for it
//!   m1 / m0              set -m / set +m (job control: pipelines run in a subshell of their own process group)
//!   fpo / fpi / fpb F F … a flow pipeline in a subshell whose stdout / stdin / both are closed
//!   fd X Y N             `( exec Y>&2 … X>&- …; fdsnap B; fdsnap 0 | … | fdsnap N-1; fdsnap P )`: an N-stage pipeline
//!                        (N = 2..8) in a subshell with the descriptors X ⊆ {0,1,2} closed and Y ⊆ {3..9} open
//!                        (`-` = none); `fdsnap` records the descriptor table of its process
//!   g N                  `( exit N )`          gg N            `( ( exit N ) )`
//!   gp M M …             `( M | M … )`         gb N            `( st N & wait $! )`
//!   gw A B               `( st A & st B & wait )`
//!   q N                  `x=$( exit N )`       qe W N          `x=$( echo W; exit N )`
//!   qq N                 `x=$( y=$( exit N ) )`  qb N          `x=$( st N & wait $! )`
//! After every statement the script runs `probe "$!" "$x"`, which prints `<$?>:<hex of $!>,<hex of $x>`.
//!
//! Exploration per program (`explore`): every schedule that differs within the first k scheduling
//! choices (k = 6 quick, 12 thorough; continuation "lowest task first"), each once, breadth-first by
//! the position of the last deviation, capped; then seeded random schedules.
//!
//! After `z=`: one ` F[<before>|<stage 0>|…|<stage N-1>|<after>]` per `fd` statement — the descriptor tables
//! of the subshell before / after the pipeline and of every stage when its command starts, each a list of
//! `<fd><kind>`, kind `o` (not a pipe) or `rJ` / `wJ` (read / write end of the J-th distinct pipe).
//!
//! Observation: the probe trace `<$?>/<$!>/<$x>` with every `$!` value replaced by `a<k>` (k-th distinct
//! value), pipeline output as `o:<word>`, then `st=<final exit status>` and `z=<number of children of any process that are
//! alive or still hold an unreported state at exit>`.  A run in which nothing is runnable while the shell
//! is unfinished is `DEADLOCK`; one that exhausts the poll budget is `TIMEOUT`.
//!
//! Oracle (Rust side, independent of the Lean model): the observation of a (program, schedule) pair
//! equals that of the first schedule explored for the same program (`FAIL:schedule-dependent`), no
//! zombie (`FAIL:zombie`), descriptor hygiene of every `fd` pipeline evaluated on the real tables by inode
//! identity; job / zombie accounting after every statement (`jcheck`, `FAIL:jobs(…)`: no child with an unreported
//! state, every live child is the process of an owned job, every owned job has a child process in exactly the recorded
//! state); (`FAIL:descriptors(…)`: stage k holds a pipe end exactly at 0 (k > 0, read end of its left
//! neighbour's stdout pipe) and at 1 (k < N-1, write end), everything else as before the pipeline, the
//! subshell's own table unchanged and free of pipe ends afterwards), no deadlock (`FAIL:deadlock`), no livelock (`FAIL:TIMEOUT`).

use std::cell::{Cell, RefCell};
use std::fmt::Debug;
use std::future::Future;
use std::ops::ControlFlow::{Break, Continue};
use std::pin::Pin;
use std::rc::Rc;
use std::sync::Arc;
use std::sync::atomic::{AtomicBool, Ordering};
use std::task::{Context, Wake, Waker};

use yash_cli::startup::args::{InitFile, Run, Source, Work};
use yash_cli::startup::configure_environment;
use yash_cli::startup::input::prepare_input;
use yash_env::Env;
use yash_env::job::Pid;
use yash_env::semantics::Divert;
use yash_env::system::Concurrent;
use yash_env::system::r#virtual::{Executor, FileBody, Inode, SystemState, VirtualSystem};
use yash_env::system::GetPid as _;
use yash_semantics::read_eval_loop;
use yash_semantics::trap::run_exit_trap;
use yverif::proto::{Opts, dec_str, emit, guarded, quiet_panics};
use yverif::rng::Rng;
use yash_env::builtin::{Builtin, Type};
use yash_env::io::Fd;
use yash_env::semantics::{ExitStatus, Field};
use yash_env::system::Read as _;
use yash_env::system::concurrency::{Sleep as _, WriteAll as _};
use yverif::shell::{BuiltinFuture, VEnv, VSys, probe_builtins, read_file};

// ------------------------------------------------------------------------------------------
// built-ins for pipelines whose stages block on I/O with each other

fn arg(args: &[Field], i: usize) -> usize {
    args.get(i).and_then(|f| f.value.parse().ok()).unwrap_or(0)
}

/// `spew N`: one `write_all` of N bytes to standard output; exit status 0, or 1 if the write fails
/// (EPIPE: every reader of the pipe is gone).
fn spew_main(env: &mut VEnv, args: Vec<Field>) -> BuiltinFuture<'_> {
    let n = arg(&args, 0);
    Box::pin(async move {
        let data: Vec<u8> = (0..n).map(|i| b'a' + (i % 23) as u8).collect();
        match env.system.write_all(Fd::STDOUT, &data).await {
            Ok(()) => ExitStatus::SUCCESS.into(),
            Err(_) => ExitStatus::FAILURE.into(),
        }
    })
}

/// `take K S`: reads standard input until K bytes have arrived or end of file, then exits with S
/// (without reading further: the rest stays in the pipe).
fn take_main(env: &mut VEnv, args: Vec<Field>) -> BuiltinFuture<'_> {
    let mut k = arg(&args, 0);
    let st = arg(&args, 1) as i32;
    Box::pin(async move {
        let mut buffer = vec![0u8; k.max(1)];
        while k > 0 {
            match env.system.read(Fd::STDIN, &mut buffer[..k]).await {
                Ok(0) | Err(_) => break,
                Ok(n) => k -= n,
            }
        }
        ExitStatus(st).into()
    })
}

/// `drain`: reads standard input to end of file; exit status 0.
fn drain_main(env: &mut VEnv, _args: Vec<Field>) -> BuiltinFuture<'_> {
    Box::pin(async move {
        let mut buffer = [0u8; 1024];
        loop {
            match env.system.read(Fd::STDIN, &mut buffer).await {
                Ok(0) => return ExitStatus::SUCCESS.into(),
                Ok(_) => {}
                Err(_) => return ExitStatus::FAILURE.into(),
            }
        }
    })
}

/// `nap MS [S]`: sleeps MS milliseconds of virtual time, then exits with S.  Virtual time advances only
/// when no process is runnable, so a napping process wakes up after every other process has blocked.
fn nap_main(env: &mut VEnv, args: Vec<Field>) -> BuiltinFuture<'_> {
    let ms = arg(&args, 0) as u64;
    let st = arg(&args, 1) as i32;
    Box::pin(async move {
        env.system.sleep(std::time::Duration::from_millis(ms)).await;
        ExitStatus(st).into()
    })
}

// ------------------------------------------------------------------------------------------
// descriptor tables of pipeline stages (`fd` statements)

/// one open descriptor of a snapshot: number, readable, writable, and the inode if it is a FIFO (the `Rc`
/// is kept so that the address identifies the pipe for the whole run; holding an inode does not count as
/// a reader or a writer — those are counted per open file description)
struct SnapFd {
    fd: i32,
    readable: bool,
    writable: bool,
    fifo: Option<Rc<RefCell<Inode>>>,
}

thread_local! {
    /// the process table of the run in progress (`fdsnap` reads the calling process's descriptors from it)
    static STATE: RefCell<Option<Rc<RefCell<SystemState>>>> = const { RefCell::new(None) };
    /// `(label, descriptors)` in the order the snapshots were taken
    static SNAPS: RefCell<Vec<(String, Vec<SnapFd>)>> = const { RefCell::new(Vec::new()) };
}

/// `fdsnap LABEL`: records the descriptor table of the calling process (no I/O: standard output may be
/// closed or a pipe); exit status 0.
fn fdsnap_main(env: &mut VEnv, args: Vec<Field>) -> BuiltinFuture<'_> {
    let label = args.first().map(|f| f.value.clone()).unwrap_or_default();
    let pid = env.system.getpid();
    Box::pin(async move {
        let state = STATE.with(|s| s.borrow().clone());
        if let Some(state) = state {
            let st = state.borrow();
            if let Some(p) = st.processes.get(&pid) {
                let fds = p
                    .fds()
                    .iter()
                    .map(|(fd, body)| {
                        let ofd = body.open_file_description.borrow();
                        let is_fifo = matches!(ofd.inode().borrow().body, FileBody::Fifo { .. });
                        SnapFd {
                            fd: fd.0,
                            readable: ofd.is_readable(),
                            writable: ofd.is_writable(),
                            fifo: is_fifo.then(|| Rc::clone(ofd.inode())),
                        }
                    })
                    .collect();
                SNAPS.with(|v| v.borrow_mut().push((label, fds)));
            }
        }
        ExitStatus::SUCCESS.into()
    })
}

/// Canonical text of the snapshots of one run and the hygiene oracle evaluated on them.
/// Per `fd` statement `I` (labels `I.B`, `I.0` … `I.(n-1)`, `I.P`): ` F[<B>|<stage 0>|…|<P>]`, a table being
/// `fd kind` pairs (`o` = not a FIFO, `rJ` / `wJ` = read / write end of the J-th distinct FIFO of this
/// statement in the order B, stages, P, descriptors ascending — with hygiene J is the number of the pipe).
/// Oracle (XCU 2.9.2 evaluated on the real tables, inode identity instead of the canonical numbers): stage k
/// has a FIFO exactly at 0 (read end, k > 0) and at 1 (write end, k < n-1), stage k's 0 and stage k-1's 1 are
/// the same FIFO, different pairs are different FIFOs, everything else is what B had, B and P are equal and
/// hold no FIFO.
fn observe_snaps() -> (String, Option<String>) {
    let snaps = SNAPS.with(|v| std::mem::take(&mut *v.borrow_mut()));
    let mut stmts: Vec<String> = vec![];
    for (label, _) in &snaps {
        if let Some((i, _)) = label.split_once('.') {
            if !stmts.iter().any(|s| s == i) {
                stmts.push(i.to_string());
            }
        }
    }
    stmts.sort_by_key(|s| s.parse::<usize>().unwrap_or(usize::MAX));
    let mut text = String::new();
    let mut fail: Option<String> = None;
    for i in &stmts {
        let get = |what: &str| snaps.iter().filter(|(l, _)| *l == format!("{i}.{what}")).collect::<Vec<_>>();
        let mut tables: Vec<(String, Option<&Vec<SnapFd>>)> = vec![];
        let b = get("B");
        tables.push(("B".into(), b.first().map(|x| &x.1)));
        let mut n = 0usize;
        while !get(&n.to_string()).is_empty() {
            n += 1;
        }
        for k in 0..n {
            let v = get(&k.to_string());
            if v.len() != 1 {
                fail.get_or_insert(format!("stage-{k}-ran-{}-times", v.len()));
            }
            tables.push((k.to_string(), v.first().map(|x| &x.1)));
        }
        let pp = get("P");
        tables.push(("P".into(), pp.first().map(|x| &x.1)));
        let mut pipes: Vec<*const RefCell<Inode>> = vec![];
        let mut parts: Vec<String> = vec![];
        for (_, t) in &tables {
            let Some(t) = t else {
                parts.push("?".into());
                fail.get_or_insert("snapshot-missing".into());
                continue;
            };
            let mut toks: Vec<String> = vec![];
            for f in t.iter() {
                let kind = match &f.fifo {
                    None => "o".to_string(),
                    Some(inode) => {
                        let a = Rc::as_ptr(inode);
                        let j = pipes.iter().position(|x| *x == a).unwrap_or_else(|| {
                            pipes.push(a);
                            pipes.len() - 1
                        });
                        let rw = match (f.readable, f.writable) {
                            (true, false) => "r",
                            (false, true) => "w",
                            _ => "x",
                        };
                        format!("{rw}{j}")
                    }
                };
                toks.push(format!("{}{kind}", f.fd));
            }
            parts.push(if toks.is_empty() { "-".into() } else { toks.join(",") });
        }
        text.push_str(&format!(" F[{}]", parts.join("|")));
        // the oracle
        let fifo_at = |t: &Vec<SnapFd>, fd: i32| t.iter().find(|f| f.fd == fd).and_then(|f| f.fifo.as_ref().map(|i| (Rc::as_ptr(i), f.readable, f.writable)));
        let others = |t: &Vec<SnapFd>, skip: &[i32]| -> Vec<i32> {
            t.iter().filter(|f| f.fifo.is_none() && !skip.contains(&f.fd)).map(|f| f.fd).collect()
        };
        if let (Some(Some(b)), Some(Some(p))) = (tables.first().map(|x| x.1), tables.last().map(|x| x.1)) {
            if b.iter().any(|f| f.fifo.is_some()) || p.iter().any(|f| f.fifo.is_some()) {
                fail.get_or_insert("parent-holds-pipe-end".into());
            }
            if others(b, &[]) != others(p, &[]) {
                fail.get_or_insert("parent-table-changed".into());
            }
            let mut seen: Vec<*const RefCell<Inode>> = vec![];
            for k in 0..n {
                let Some(t) = tables[k + 1].1 else { continue };
                let mut want: Vec<i32> = vec![];
                if k > 0 {
                    want.push(0);
                }
                if k + 1 < n {
                    want.push(1);
                }
                let have: Vec<i32> = t.iter().filter(|f| f.fifo.is_some()).map(|f| f.fd).collect();
                if have != want {
                    fail.get_or_insert(format!("stage-{k}-pipe-descriptors-{have:?}"));
                    continue;
                }
                if others(t, &want) != others(b, &want) || t.iter().any(|f| f.fifo.is_none() && want.contains(&f.fd)) {
                    fail.get_or_insert(format!("stage-{k}-other-descriptors"));
                }
                if k > 0 {
                    let me = fifo_at(t, 0);
                    let left = tables[k].1.and_then(|l| fifo_at(l, 1));
                    match (me, left) {
                        (Some((a, true, false)), Some((b2, false, true))) if a == b2 => {}
                        _ => {
                            fail.get_or_insert(format!("stage-{k}-stdin-not-left-neighbours-stdout"));
                        }
                    }
                }
                if k + 1 < n {
                    if let Some((a, _, _)) = fifo_at(t, 1) {
                        if seen.contains(&a) {
                            fail.get_or_insert(format!("stage-{k}-pipe-reused"));
                        }
                        seen.push(a);
                    }
                }
            }
        }
    }
    (text, fail)
}

thread_local! {
    /// first disagreement between the job list and the process table found by `jcheck` in the run in progress
    static JFAIL: RefCell<Option<String>> = const { RefCell::new(None) };
    /// `$!` at the previous `jcheck` of the run (0 = unset)
    static PREV_BANG: Cell<i32> = const { Cell::new(0) };
}

/// `jcheck`: zombie / job accounting at a command boundary, evaluated on the REAL process table and the REAL job list
/// (main shell only; preserves `$?`).  `update_all_subshell_statuses` has just run (after the previous command) and the
/// shell has not yielded since, so: (Z) no child of the shell holds an unreported state (a terminated child is reaped:
/// no zombie outlives the command during which it ended); (A) every child that is alive (running or stopped) is the
/// process of an owned job (no process without a job entry); (P) the process of every owned job exists and is a child
/// of the shell (no job entry without a process); (S) the state recorded in the job entry IS the state of that process.
fn jcheck_main(env: &mut VEnv, _args: Vec<Field>) -> BuiltinFuture<'_> {
    let st = env.exit_status.0;
    let me = env.system.getpid();
    if me == env.main_pid {
        let state = STATE.with(|s| s.borrow().clone());
        if let Some(state) = state {
            let table = state.borrow();
            let mut fail: Option<String> = None;
            for (pid, p) in table.processes.iter() {
                if p.ppid() != me || *pid == me {
                    continue;
                }
                if p.state_has_changed() {
                    fail.get_or_insert(format!("unreported-state-of-child-{pid}"));
                }
                if p.state().is_alive() && !env.jobs.iter().any(|(_, j)| j.is_owned && j.pid == *pid) {
                    fail.get_or_insert(format!("live-child-{pid}-without-job-entry"));
                }
            }
            for (_, j) in env.jobs.iter() {
                if !j.is_owned {
                    continue;
                }
                match table.processes.get(&j.pid) {
                    None => {
                        fail.get_or_insert(format!("job-{}-without-process", j.pid));
                    }
                    Some(p) if p.ppid() != me => {
                        fail.get_or_insert(format!("job-{}-is-not-a-child", j.pid));
                    }
                    Some(p) if p.state() != j.state => {
                        fail.get_or_insert(format!("job-{}-state-{:?}-but-process-{:?}", j.pid, j.state, p.state()).replace(' ', ""));
                    }
                    Some(_) => {}
                }
            }
            // `$!` (XCU 2.5.2: "the process ID of the most recent background command"): the process `wait $!` must wait
            // for — a direct child of the shell; it changes only when an asynchronous list has just been started (then
            // it is the pid of an owned job), never through a foreground command, a `wait` or a subshell
            let bang = env.jobs.last_async_pid();
            let prev = PREV_BANG.with(|c| c.replace(bang.0));
            if bang.0 != 0 {
                match table.processes.get(&bang) {
                    None => {
                        fail.get_or_insert(format!("bang-{bang}-names-no-process"));
                    }
                    Some(p) if p.ppid() != me => {
                        fail.get_or_insert(format!("bang-{bang}-is-not-a-child-of-the-shell"));
                    }
                    Some(_) => {}
                }
                // a new value is the pid of a job just inserted — or of one the same statement has already waited for
                // to its end (then the process is a terminated child)
                let waited = table.processes.get(&bang).is_some_and(|p| p.ppid() == me && !p.state().is_alive());
                if bang.0 != prev && !waited && !env.jobs.iter().any(|(_, j)| j.is_owned && j.pid == bang) {
                    fail.get_or_insert(format!("bang-changed-to-{bang}-which-is-no-job"));
                }
            } else if prev != 0 {
                fail.get_or_insert("bang-was-reset".to_string());
            }
            if let Some(f) = fail {
                JFAIL.with(|v| {
                    v.borrow_mut().get_or_insert(f);
                });
            }
        }
    }
    Box::pin(async move { ExitStatus(st).into() })
}

fn flow_builtins() -> Vec<(&'static str, Builtin<VSys>)> {
    vec![
        ("jcheck", Builtin::new(Type::Mandatory, jcheck_main)),
        ("failfork", Builtin::new(Type::Mandatory, failfork_main)),
        ("fdsnap", Builtin::new(Type::Mandatory, fdsnap_main)),
        ("nap", Builtin::new(Type::Mandatory, nap_main)),
        ("spew", Builtin::new(Type::Mandatory, spew_main)),
        ("take", Builtin::new(Type::Mandatory, take_main)),
        ("drain", Builtin::new(Type::Mandatory, drain_main)),
    ]
}

// ------------------------------------------------------------------------------------------
// the schedule-exploring executor

struct Flag(AtomicBool);

impl Wake for Flag {
    fn wake(self: Arc<Self>) {
        self.0.store(true, Ordering::SeqCst);
    }
    fn wake_by_ref(self: &Arc<Self>) {
        self.0.store(true, Ordering::SeqCst);
    }
}

struct Slot {
    fut: Option<Pin<Box<dyn Future<Output = ()>>>>,
    flag: Arc<Flag>,
    done: bool,
}

/// Every task ever spawned, in creation order (task 0 = the main shell process).  `spawn` only pushes,
/// so task numbers are stable.
#[derive(Default)]
struct Sched {
    tasks: RefCell<Vec<Slot>>,
}

impl Debug for Sched {
    fn fmt(&self, f: &mut std::fmt::Formatter<'_>) -> std::fmt::Result {
        write!(f, "Sched")
    }
}

thread_local! {
    /// `failfork K`: the (K+1)-th `fork` from now on fails (the executor refuses to spawn the child task, which the
    /// virtual system reports as EAGAIN); `None` = no failure pending
    static FAIL_FORK: Cell<Option<usize>> = const { Cell::new(None) };
}

/// `failfork K`: makes the (K+1)-th fork from now fail with EAGAIN (once); preserves `$?`
fn failfork_main(env: &mut VEnv, args: Vec<Field>) -> BuiltinFuture<'_> {
    let st = env.exit_status.0;
    FAIL_FORK.with(|c| c.set(Some(arg(&args, 0))));
    Box::pin(async move { ExitStatus(st).into() })
}

impl Executor for Sched {
    fn spawn(
        &self,
        task: Pin<Box<dyn Future<Output = ()>>>,
    ) -> Result<(), Box<dyn std::error::Error>> {
        match FAIL_FORK.with(|c| c.get()) {
            Some(0) => {
                FAIL_FORK.with(|c| c.set(None));
                return Err("injected fork failure".into());
            }
            Some(k) => FAIL_FORK.with(|c| c.set(Some(k - 1))),
            None => {}
        }
        self.tasks.borrow_mut().push(Slot {
            fut: Some(task),
            flag: Arc::new(Flag(AtomicBool::new(true))),
            done: false,
        });
        Ok(())
    }
}

impl Sched {
    fn runnable(&self) -> Vec<usize> {
        self.tasks
            .borrow()
            .iter()
            .enumerate()
            .filter(|(_, s)| !s.done && s.flag.0.load(Ordering::SeqCst))
            .map(|(i, _)| i)
            .collect()
    }
    fn unfinished(&self) -> usize {
        self.tasks.borrow().iter().filter(|s| !s.done).count()
    }
    /// Polls task `i` once (the future is taken out of the table while it runs, because the poll
    /// may call `spawn`).
    fn poll(&self, i: usize) {
        let (mut fut, flag) = {
            let mut ts = self.tasks.borrow_mut();
            let s = &mut ts[i];
            s.flag.0.store(false, Ordering::SeqCst);
            (s.fut.take().expect("task polled re-entrantly"), Arc::clone(&s.flag))
        };
        let waker = Waker::from(flag);
        let mut cx = Context::from_waker(&waker);
        let ready = fut.as_mut().poll(&mut cx).is_ready();
        let mut ts = self.tasks.borrow_mut();
        if ready {
            ts[i].done = true;
            drop(fut);
        } else {
            ts[i].fut = Some(fut);
        }
    }
}

/// Source of scheduling decisions: a recorded prefix, then a seeded RNG (if any), then 0.
struct Chooser {
    prefix: Vec<u8>,
    rng: Option<Rng>,
    /// choices made so far and the number of alternatives at each of them
    taken: Vec<(u8, u8)>,
}

impl Chooser {
    fn choose(&mut self, n: usize) -> usize {
        let k = self.taken.len();
        let c = if k < self.prefix.len() {
            self.prefix[k] as usize % n
        } else if let Some(r) = &mut self.rng {
            r.below(n)
        } else {
            0
        };
        self.taken.push((c as u8, n as u8));
        c
    }
}

fn digits(v: &[(u8, u8)]) -> String {
    if v.is_empty() {
        return "-".into();
    }
    v.iter().map(|(c, _)| char::from_digit(*c as u32, 36).unwrap()).collect()
}

fn parse_digits(t: &str) -> Vec<u8> {
    t.chars().filter_map(|c| c.to_digit(36)).map(|d| d as u8).collect()
}

struct RunOut {
    stdout: Vec<u8>,
    stderr: Vec<u8>,
    status: i32,
    stuck: bool,
    /// `stuck` because no task was runnable (as opposed to the poll budget running out)
    deadlock: bool,
    /// processes other than the main shell that are alive or hold an unreported state at the end
    zombies: usize,
    /// processes ever created (including the shell)
    procs: usize,
    taken: Vec<(u8, u8)>,
    /// descriptor tables recorded by `fdsnap` (canonical text) and the hygiene oracle on them
    fds: String,
    fds_fail: Option<String>,
    /// job / zombie accounting (`jcheck`)
    jobs_fail: Option<String>,
}

const MAX_POLLS: usize = 200_000;

/// `yverif::shell::run_with` with the FIFO executor replaced by `Sched` driven by `chooser`.
fn run_sched(script: &str, mut chooser: Chooser) -> RunOut {
    let system = VirtualSystem::new();
    let state: Rc<RefCell<SystemState>> = Rc::clone(&system.state);
    let sched = Rc::new(Sched::default());
    state.borrow_mut().executor = Some(Rc::clone(&sched) as Rc<dyn Executor>);
    STATE.with(|s| *s.borrow_mut() = Some(Rc::clone(&state)));
    SNAPS.with(|v| v.borrow_mut().clear());
    JFAIL.with(|v| *v.borrow_mut() = None);
    PREV_BANG.with(|c| c.set(0));
    FAIL_FORK.with(|c| c.set(None));
    // virtual time (needed by `nap`): starts now, advanced by the run loop only when nothing is runnable
    state.borrow_mut().now = Some(std::time::Instant::now());

    let env = Env::with_system(Rc::new(Concurrent::new(system)));
    let concurrent = Rc::clone(&env.system);
    let result: Rc<Cell<Option<i32>>> = Rc::new(Cell::new(None));
    let result2 = Rc::clone(&result);
    let script = script.to_string();

    let main = async move {
        let mut env = env;
        let run = Run {
            work: Work {
                source: Source::String(script),
                profile: InitFile::None,
                rcfile: InitFile::None,
            },
            options: vec![],
            arg0: "yash".into(),
            positional_params: vec![],
        };
        let work = configure_environment(&mut env, run).await;
        env.builtins.extend(probe_builtins());
        env.builtins.extend(flow_builtins());
        let status = eval_source(&mut env, &work.source).await;
        result2.set(Some(status));
    };
    let runner = async move { concurrent.run_virtual(main).await };
    sched.spawn(Box::pin(runner)).unwrap();

    let mut polls = 0usize;
    let mut stuck = false;
    let mut deadlock = false;
    let mut status: Option<i32> = None;
    loop {
        if status.is_none() {
            status = result.take();
        }
        let r = sched.runnable();
        if r.is_empty() {
            if status.is_some() && sched.unfinished() == 0 {
                break;
            }
            // nothing is runnable: let virtual time pass if somebody sleeps, else the run is over
            let mut st = state.borrow_mut();
            let next = st.scheduled_wakers.next_wake_time();
            if let Some(next) = next {
                st.advance_time(next);
            }
            drop(st);
            if sched.runnable().is_empty() {
                // The main shell finished: whatever is left never terminates (reported as zombies).
                // The main shell did not finish: deadlock.
                stuck = status.is_none();
                deadlock = stuck;
                break;
            }
            continue;
        }
        let i = if r.len() == 1 { r[0] } else { r[chooser.choose(r.len())] };
        sched.poll(i);
        polls += 1;
        if polls > MAX_POLLS {
            stuck = true;
            break;
        }
    }

    if std::env::var("C13_DEBUG").is_ok() {
        for (pid, p) in state.borrow().processes.iter() {
            eprintln!("pid {pid} ppid {} state {:?} changed {}", p.ppid(), p.state(), p.state_has_changed());
        }
    }
    let (zombies, procs) = {
        let st = state.borrow();
        let z = st
            .processes
            .iter()
            .filter(|(pid, p)| **pid != Pid(2) && (p.state().is_alive() || p.state_has_changed()))
            .count();
        (z, st.processes.len())
    };
    let stdout = read_file(&state, "/dev/stdout").unwrap_or_default();
    let stderr = read_file(&state, "/dev/stderr").unwrap_or_default();
    let (fds, fds_fail) = observe_snaps();
    let jobs_fail = JFAIL.with(|v| v.borrow_mut().take());
    STATE.with(|s| *s.borrow_mut() = None);
    // break the Rc cycle state -> executor -> tasks -> state
    state.borrow_mut().executor = None;
    sched.tasks.borrow_mut().clear();
    RunOut { stdout, stderr, status: status.unwrap_or(-1), stuck, deadlock, zombies, procs, taken: chooser.taken, fds, fds_fail, jobs_fail }
}

/// The tail of `yash_cli::run_as_shell_process` (as in `yverif::shell`).
async fn eval_source(env: &mut VEnv, source: &Source) -> i32 {
    let ref_env = RefCell::new(env);
    let lexer = match prepare_input(&ref_env, source).await {
        Ok(lexer) => lexer,
        Err(_) => return 127,
    };
    let result = read_eval_loop(&ref_env, &mut { lexer }).await;
    let env = ref_env.into_inner();
    env.apply_result(result);
    match result {
        Continue(())
        | Break(Divert::Continue { .. })
        | Break(Divert::Break { .. })
        | Break(Divert::Return(_))
        | Break(Divert::Interrupt(_))
        | Break(Divert::Exit(_)) => run_exit_trap(env).await,
        Break(Divert::Abort(_)) => (),
    }
    env.exit_status.0
}

// ------------------------------------------------------------------------------------------
// the program language (mirrored in /verif/lean/YashModel/Proc/Prog.lean and Main.lean)

fn render_member(t: &str) -> Option<String> {
    let (h, r) = t.split_at(1);
    // every member runs in a child: statuses above 255 are allowed (the parent sees the low 8 bits)
    let num = || r.parse::<u32>().ok().filter(|n| *n < 1000);
    Some(match h {
        "c" if r.is_empty() => "cat".to_string(),
        "s" => format!("st {}", num()?),
        "x" => format!("exit {}", num()?),
        "g" => format!("( exit {} )", num()?),
        "q" => format!("y=$( exit {} )", num()?),
        "e" if !r.is_empty() && r.chars().all(|c| c.is_ascii_lowercase()) => format!("echo {r}"),
        _ => return None,
    })
}

/// signals used by `k` and `tw` (names as `kill -s` takes them)
const SIGNALS: [&str; 9] = ["HUP", "INT", "QUIT", "KILL", "TERM", "USR1", "USR2", "STOP", "CONT"];

/// member of a flow pipeline: wN `spew N`, c `cat`, d `drain`, tK.S `take K S`, sN `st N`
fn render_flow_member(t: &str) -> Option<String> {
    let (h, r) = t.split_at(1);
    Some(match h {
        "w" => format!("spew {}", r.parse::<u32>().ok().filter(|n| *n <= 20000)?),
        "c" if r.is_empty() => "cat".to_string(),
        "d" if r.is_empty() => "drain".to_string(),
        "t" => {
            let (k, st) = r.split_once('.')?;
            format!("take {} {}", k.parse::<u32>().ok().filter(|n| *n <= 20000)?, st.parse::<u32>().ok().filter(|n| *n < 256)?)
        }
        "s" => format!("st {}", r.parse::<u32>().ok().filter(|n| *n < 256)?),
        _ => return None,
    })
}

fn render_members(ms: &[&str]) -> Option<String> {
    if ms.is_empty() {
        return None;
    }
    let v: Option<Vec<String>> = ms.iter().map(|m| render_member(m)).collect();
    Some(v?.join(" | "))
}

/// shell text of one statement; `nasync` counts the asynchronous lists so far
fn render_stmt(t: &str, nasync: &mut usize) -> Option<String> {
    let ws: Vec<&str> = t.split_whitespace().collect();
    // N is always the exit status of a CHILD (subshell, job, command substitution): up to 999, of which the
    // shell sees the low 8 bits
    let num = |w: &str| w.parse::<u32>().ok().filter(|n| *n < 1000);
    Some(match ws.as_slice() {
        ["m1"] => "set -m".to_string(),
        ["m0"] => "set +m".to_string(),
        ["bn", ms, n] => {
            *nasync += 1;
            format!("nap {} {} & j{}=$!", ms.parse::<u32>().ok().filter(|m| *m <= 100000)?, num(n)?, *nasync)
        }
        ["k", sig, k] if SIGNALS.contains(sig) => {
            format!("kill -s {sig} $j{}", k.parse::<usize>().ok().filter(|k| *k >= 1 && *k <= *nasync)?)
        }
        ["tw", sig, n] if SIGNALS.contains(sig) => {
            *nasync += 1;
            format!(
                "trap 'echo trap{}' {sig}\n( nap 100; kill -s {sig} $$; nap 100; exit {} ) & j{}=$!\nwait $j{}",
                sig.to_lowercase(),
                num(n)?,
                *nasync,
                *nasync
            )
        }
        [t @ ("tk" | "tkg"), sig, ms, n] if SIGNALS.contains(sig) => {
            // the shell traps SIG (caught + blocked, inherited blocked by the child), forks a napping job and
            // sends it SIG: at once (`tk`: before the child's first step, the signal stays pending until the
            // child's entry step resets the trap and unblocks it) or after a foreground command (`tkg`: before
            // or after the child's first step, depending on the schedule)
            *nasync += 1;
            format!(
                "trap 'echo trap{}' {sig}\nnap {} {} & j{}=$!\n{}kill -s {sig} $j{}",
                sig.to_lowercase(),
                ms.parse::<u32>().ok().filter(|m| *m <= 100000)?,
                num(n)?,
                *nasync,
                if *t == "tkg" { "( exit 0 )\n" } else { "" },
                *nasync
            )
        }
        [t @ ("ts" | "tsn"), sig, n] if SIGNALS.contains(sig) => {
            // the job sends the trapped signal to the shell (which is blocked in `wait` by then: the shell does not
            // yield between the fork and the `wait`), then — `ts` — waits for a subshell of its own, then exits
            *nasync += 1;
            format!(
                "trap 'echo trap{}' {sig}\n( kill -s {sig} $$; {}exit {} ) & j{}=$!\nwait $j{}",
                sig.to_lowercase(),
                if *t == "ts" { "( exit 0 ); " } else { "" },
                num(n)?,
                *nasync,
                *nasync
            )
        }
        ["tsr", sig, n, r] if SIGNALS.contains(sig) => {
            *nasync += 1;
            format!(
                "trap 'echo trap{}; st {}' {sig}\n( kill -s {sig} $$; ( exit 0 ); exit {} ) & j{}=$!\nwait $j{}",
                sig.to_lowercase(),
                r.parse::<u32>().ok().filter(|r| *r < 256)?,
                num(n)?,
                *nasync,
                *nasync
            )
        }
        ["tsq", sig, n, q] if SIGNALS.contains(sig) => {
            // `$?` inside the action: the value before the trap (`st Q` runs without a fork, the shell does not yield)
            *nasync += 1;
            format!(
                "trap 'probe \"$!\" \"$x\"; st 9' {sig}\n( kill -s {sig} $$; ( exit 0 ); exit {} ) & j{}=$!\nst {}\nwait $j{}",
                num(n)?,
                *nasync,
                q.parse::<u32>().ok().filter(|q| *q < 256)?,
                *nasync
            )
        }
        ["tsf", sig, n, r] if SIGNALS.contains(sig) => {
            // `return R` in the action while `wait` runs inside a function: the function returns R at once
            *nasync += 1;
            format!(
                "f() {{ wait $j{}; st 99; }}\ntrap 'return {}' {sig}\n( kill -s {sig} $$; ( exit 0 ); exit {} ) & j{}=$!\nf",
                *nasync,
                r.parse::<u32>().ok().filter(|r| *r < 256)?,
                num(n)?,
                *nasync
            )
        }
        ["tsa", sig, n] if SIGNALS.contains(sig) => {
            *nasync += 1;
            format!(
                "trap 'echo trap{}' {sig}\n( kill -s {sig} $$; ( exit 0 ); exit {} ) & j{}=$!\nwait",
                sig.to_lowercase(),
                num(n)?,
                *nasync
            )
        }
        ["ts2", s1, s2, n] if SIGNALS.contains(s1) && SIGNALS.contains(s2) && s1 != s2 => {
            *nasync += 1;
            format!(
                "trap 'echo trap{}' {s1}\ntrap 'echo trap{}' {s2}\n( kill -s {s1} $$; kill -s {s2} $$; ( exit 0 ); exit {} ) & j{}=$!\nwait $j{}",
                s1.to_lowercase(),
                s2.to_lowercase(),
                num(n)?,
                *nasync,
                *nasync
            )
        }
        ["tc", n] => {
            *nasync += 1;
            format!("trap 'echo trapchld' CHLD\n( exit {} ) & j{}=$!\nwait $j{}", num(n)?, *nasync, *nasync)
        }
        ["tcx"] => "trap - CHLD".to_string(),
        ["tso", sig, n, ks @ ..] if SIGNALS.contains(sig) && !ks.is_empty() => {
            let v: Option<Vec<String>> = ks
                .iter()
                .map(|k| match *k {
                    "u" => Some("99999".to_string()),
                    "%" => Some("%7".to_string()),
                    k => k.parse::<u32>().ok().filter(|k| *k >= 1 && *k <= *nasync as u32).map(|k| format!("$j{k}")),
                })
                .collect();
            let v = v?;
            *nasync += 1;
            format!(
                "trap 'echo trap{}' {sig}\n( kill -s {sig} $$; ( exit 0 ); exit {} ) & j{}=$!\nwait $j{} {}",
                sig.to_lowercase(),
                num(n)?,
                *nasync,
                *nasync,
                v.join(" ")
            )
        }
        ["ti"] => "trap '' USR2; kill -s USR2 $$".to_string(),
        ["gj", k] => format!("( wait $j{} )", k.parse::<usize>().ok().filter(|k| *k >= 1 && *k <= *nasync)?),
        // `$!` in a subshell: inherited (the probe inside shows the same value) but not waitable there (127)
        ["gl"] if *nasync >= 1 => "( probe \"$!\" \"$x\"; wait $! )".to_string(),
        // a pid that is no process: `VirtualSystem::kill` answers ESRCH, the built-in fails with 1
        ["ku"] => "kill -s TERM 99999".to_string(),
        ["wx"] => "wait -x".to_string(),
        ["scp", n] if *nasync == 0 => {
            // the same for the first member of a pipeline (`wait_for_subshell_to_finish`)
            *nasync = 2;
            format!(
                "st 0 & j1=$!\nwait $!\n( nap 100; kill -s STOP $(($!+2)); nap 100; kill -s CONT $(($!+2)) ) & j2=$!\nnap 300 {} | drain",
                num(n)?
            )
        }
        ["sc", n] if *nasync == 0 => {
            // only as the first statement (the pid arithmetic needs a known process table): a foreground
            // subshell is stopped and continued by a helper while the shell waits for it
            *nasync = 2;
            format!(
                "st 0 & j1=$!\nwait $!\n( nap 100; kill -s STOP $(($!+2)); nap 100; kill -s CONT $(($!+2)) ) & j2=$!\n( nap 300; exit {} )",
                num(n)?
            )
        }
        [f @ ("fpo" | "fpi" | "fpb"), ms @ ..] if ms.len() >= 2 => {
            let v: Option<Vec<String>> = ms.iter().map(|m| render_flow_member(m)).collect();
            let redir = match *f {
                "fpo" => ">&-",
                "fpi" => "<&-",
                _ => ">&- <&-",
            };
            format!("( {} ) {redir}", v?.join(" | "))
        }
        ["pf1"] => "set -o pipefail".to_string(),
        ["pf0"] => "set +o pipefail".to_string(),
        ["p", ms @ ..] if ms.len() >= 2 => render_members(ms)?,
        ["np", ms @ ..] if ms.len() >= 2 => format!("! {}", render_members(ms)?),
        ["fp", ms @ ..] if ms.len() >= 2 => {
            let v: Option<Vec<String>> = ms.iter().map(|m| render_flow_member(m)).collect();
            v?.join(" | ")
        }
        ["bg", ms @ ..] => {
            *nasync += 1;
            format!("{} & j{}=$!", render_members(ms)?, *nasync)
        }
        ["wj", ks @ ..] if !ks.is_empty() => {
            // operands: K = `$jK` (pid of the K-th asynchronous list), `u` = a pid that never was a
            // child, `%` = a job ID that names no job
            let v: Option<Vec<String>> = ks
                .iter()
                .map(|k| match *k {
                    "u" => Some("99999".to_string()),
                    "%" => Some("%7".to_string()),
                    "%st" | "%nap" | "%%" | "%+" | "%-" => Some(k.to_string()),
                    k if k.starts_with('%') => k[1..].parse::<u32>().ok().filter(|n| *n >= 1 && *n <= 6).map(|n| format!("%{n}")),
                    k => k.parse::<u32>().ok().filter(|k| *k >= 1 && *k <= *nasync as u32).map(|k| format!("$j{k}")),
                })
                .collect();
            format!("wait {}", v?.join(" "))
        }
        ["w"] => "wait".to_string(),
        ["wu"] => "wait 9999".to_string(),
        ["g", n] => format!("( exit {} )", num(n)?),
        ["gg", n] => format!("( ( exit {} ) )", num(n)?),
        ["gp", ms @ ..] if ms.len() >= 2 => format!("( {} )", render_members(ms)?),
        ["gb", n] => format!("( st {} & wait $! )", num(n)?),
        ["gw", a, b] => format!("( st {} & st {} & wait )", num(a)?, num(b)?),
        ["q", n] => format!("x=$( exit {} )", num(n)?),
        ["qe", w, n] if w.chars().all(|c| c.is_ascii_lowercase()) && !w.is_empty() => {
            format!("x=$( echo {w}; exit {} )", num(n)?)
        }
        ["qq", n] => format!("x=$( y=$( exit {} ) )", num(n)?),
        ["qb", n] => format!("x=$( st {} & wait $! )", num(n)?),
        _ => return None,
    })
}

/// `fd X Y N` (statement number `idx`): an N-stage pipeline of `fdsnap`s in a subshell in which the
/// descriptors X ⊆ {0,1,2} are closed and Y ⊆ {3..9} are open (copies of standard error) — `-` = none; the
/// descriptor tables of the subshell before (`B`) and after (`P`) the pipeline and of every stage when its
/// command starts are recorded.
fn render_fd(ws: &[&str], idx: usize) -> Option<String> {
    let [x, y, n] = ws else { return None };
    let digits = |t: &str, lo: u32, hi: u32| -> Option<Vec<u32>> {
        if t == "-" {
            return Some(vec![]);
        }
        let v: Option<Vec<u32>> = t.chars().map(|c| c.to_digit(10).filter(|d| *d >= lo && *d <= hi)).collect();
        let v = v?;
        (v.windows(2).all(|w| w[0] < w[1]) && !v.is_empty()).then_some(v)
    };
    let closed = digits(x, 0, 2)?;
    let opened = digits(y, 3, 9)?;
    let n = n.parse::<usize>().ok().filter(|n| (2..=8).contains(n))?;
    let mut redirs: Vec<String> = opened.iter().map(|d| format!("{d}>&2")).collect();
    for d in &closed {
        redirs.push(match d {
            0 => "<&-".to_string(),
            1 => ">&-".to_string(),
            _ => "2>&-".to_string(),
        });
    }
    let stages: Vec<String> = (0..n).map(|k| format!("fdsnap {idx}.{k}")).collect();
    let exec = if redirs.is_empty() { String::new() } else { format!("exec {}; ", redirs.join(" ")) };
    Some(format!("( {exec}fdsnap {idx}.B; {}; fdsnap {idx}.P )", stages.join(" | ")))
}

fn render(prog: &str) -> Option<String> {
    let mut nasync = 0usize;
    let mut out = String::new();
    for (idx, t) in prog.split(';').map(str::trim).filter(|t| !t.is_empty()).enumerate() {
        let ws: Vec<&str> = t.split_whitespace().collect();
        if ws.first() == Some(&"fd") {
            out.push_str(&render_fd(&ws[1..], idx)?);
            out.push_str("\njcheck\nprobe \"$!\" \"$x\"\n");
            continue;
        }
        out.push_str(&render_stmt(t, &mut nasync)?);
        out.push_str("\njcheck\nprobe \"$!\" \"$x\"\n");
    }
    Some(out)
}

/// canonical observation of one run (see the file comment)
fn observe(o: &RunOut) -> String {
    if o.stuck {
        // nothing runnable and nobody sleeping while the shell is unfinished = deadlock; the poll
        // budget running out = TIMEOUT (livelock)
        return (if o.deadlock { "DEADLOCK" } else { "TIMEOUT" }).into();
    }
    let text = String::from_utf8_lossy(&o.stdout).into_owned();
    // an exit status above 384 means "killed by / interrupted by signal n - 384": printed by name, the
    // numbering of the virtual system being arbitrary
    let status = |st: &str| -> String {
        match st.parse::<i32>() {
            Ok(n) if n > 384 => {
                use yash_env::system::Signals as _;
                let sys = VirtualSystem::new();
                match sys.sig2str(n - 384) {
                    Some(name) => format!("K{name}"),
                    None => st.to_string(),
                }
            }
            _ => st.to_string(),
        }
    };
    let mut bangs: Vec<String> = vec![];
    let mut toks: Vec<String> = vec![];
    for line in text.lines() {
        let probe = line.split_once(':').filter(|(a, _)| !a.is_empty() && a.chars().all(|c| c.is_ascii_digit()));
        match probe {
            Some((st, rest)) => {
                let fs: Vec<&str> = rest.split(',').collect();
                let bang = fs.first().copied().unwrap_or("?");
                let x = fs.get(1).copied().unwrap_or("?");
                let bang = if bang == "-" {
                    "-".to_string()
                } else {
                    let k = match bangs.iter().position(|b| b == bang) {
                        Some(k) => k,
                        None => {
                            bangs.push(bang.to_string());
                            bangs.len() - 1
                        }
                    };
                    format!("a{}", k + 1)
                };
                let x = if x == "-" { "-".to_string() } else { dec_str(x).unwrap_or_else(|| "?".into()) };
                toks.push(format!("{}/{bang}/{x}", status(st)));
            }
            None => toks.push(format!("o:{line}")),
        }
    }
    format!("{} st={} z={}{}", toks.join(" "), status(&o.status.to_string()), o.zombies, o.fds)
}

// ------------------------------------------------------------------------------------------
// generator

/// exit statuses of children; 256, 300, 511 are seen by the parent as 0, 44, 255 (`exit` passes on the low 8 bits)
const STATUSES: [u32; 11] = [0, 0, 1, 2, 3, 7, 42, 255, 256, 300, 511];
/// exit statuses of flow-pipeline stages (`take K S`, `st S`: below 256)
const FLOW_STATUSES: [u32; 8] = [0, 0, 1, 2, 3, 7, 42, 255];
const WORDS: [&str; 4] = ["hi", "abc", "x", "hello"];

fn gen_members(r: &mut Rng, n: usize, allow_echo: bool) -> Vec<String> {
    // `allow_echo = false` is the asynchronous case: no output (it would race with the probes) and no
    // `cat` (standard input of an asynchronous list is /dev/null, which the virtual file system lacks)
    // at most one `echo`, followed by `cat`s only (anything else would race on EPIPE)
    let echo_at = if allow_echo && r.chance(1, 3) { Some(r.below(n)) } else { None };
    (0..n)
        .map(|i| match echo_at {
            Some(e) if i == e => format!("e{}", r.pick(&WORDS)),
            Some(e) if i > e => "c".to_string(),
            _ => {
                let st = *r.pick(&STATUSES);
                match r.below(10) {
                    0..=3 => format!("s{st}"),
                    4..=5 => format!("x{st}"),
                    6 if allow_echo => "c".to_string(),
                    6..=8 => format!("g{st}"),
                    _ => format!("q{st}"),
                }
            }
        })
        .collect()
}

/// A pipeline whose stages block on I/O with each other: a producer of N bytes, optionally a `cat`, and
/// a consumer that takes everything (`d`), K bytes (`tK.S`) or nothing (`sS`), with N around the
/// capacity of the virtual pipe (PIPE_SIZE = 1024, PIPE_BUF = 512).  Race-free by construction: either
/// the consumer takes everything (N <= K), or what it leaves exceeds what the pipes (and `cat`'s
/// buffer) in between can hold, so that the producer fails with EPIPE under every schedule.
fn gen_flow(r: &mut Rng) -> String {
    const SIZES: [usize; 16] = [0, 1, 2, 511, 512, 513, 1023, 1024, 1025, 1535, 1536, 2047, 2048, 2049, 3000, 4096];
    let st = *r.pick(&FLOW_STATUSES);
    let with_cat = r.chance(1, 3);
    let slack = if with_cat { 4097 } else { 1025 }; // more than the pipes in between can buffer
    let deltas: [usize; 5] = [0, 1, 511, 1024, 3000];
    // consumer and the number of bytes it takes
    let (consumer, takes): (String, Option<usize>) = match r.below(5) {
        0..=1 => ("d".to_string(), None),
        2..=3 => {
            let k = *r.pick(&SIZES);
            (format!("t{k}.{st}"), Some(k))
        }
        _ => (format!("s{st}"), Some(0)),
    };
    let n = match takes {
        None => *r.pick(&SIZES),
        Some(k) => {
            if r.chance(1, 2) {
                // everything is taken: N <= K
                let c: Vec<usize> = SIZES.iter().copied().filter(|n| *n <= k).collect();
                *r.pick(&c)
            } else {
                k + slack + *r.pick(&deltas)
            }
        }
    };
    let mut ms: Vec<String> = vec![];
    let prefix = !with_cat && r.chance(1, 4);
    if prefix {
        ms.push(format!("s{}", r.pick(&FLOW_STATUSES)));
    }
    ms.push(format!("w{n}"));
    if with_cat {
        ms.push("c".to_string());
    }
    ms.push(consumer.clone());
    if !with_cat && !prefix && consumer.starts_with('t') && r.chance(1, 3) {
        ms.push("d".to_string());
    }
    format!("fp {}", ms.join(" "))
}

#[derive(Clone, Copy, PartialEq)]
enum JKind {
    St,
    Nap,
    Other,
}

struct GJob {
    kind: JKind,
    open: bool,    // in the job table (not yet waited for)
    fresh: bool,   // a napping job that certainly has not finished: no statement since it started let time pass
    stopped: bool, // stopped by `k STOP`, not yet continued
    igniq: bool,   // started without job control: ignores SIGINT and SIGQUIT
    dead: bool,    // killed by a signal of the script (its cause of death must stand)
    doomed: bool,  // sent a signal its parent traps: the signal may still be pending (blocked) until the child's
                   // entry step; until virtual time has passed another signal could become the cause of death
    helper: bool,  // a job with naps of its own (`tw`, `sc`): never "certainly exited" (its last nap may end in the very
                   // instant a later statement is woken — whether it is reaped by then depends on the schedule)
    exited: bool,  // not a napping job, and virtual time has passed since it started: it has certainly exited
}

/// Programs around the job table and signals: every operand form of `wait`, jobs killed, stopped and
/// continued by signals, `wait` interrupted by a trapped signal, job control on and off.  Race-free by
/// construction: signals are sent only to napping jobs that cannot have finished (virtual time passes only
/// when every process is blocked), a stopped job is continued before anything waits for it.  The state
/// tracked here is mirrored by `St` in /verif/lean/YashModel/Proc/Prog.lean.
fn gen_jobs_program(r: &mut Rng, thorough: bool) -> String {
    let len = 3 + r.below(if thorough { 8 } else { 6 });
    let mut stmts: Vec<String> = vec![];
    let mut jobs: Vec<GJob> = vec![]; // job number K = index + 1
    let mut epoch: Vec<usize> = vec![]; // jobs inserted since the table was last empty
    let mut clean = true; // nothing removed from / stopped in the table since then
    let mut monitor = false;
    // signals the shell traps from here on (`tw`, `tk`): a job forked later inherits them blocked until its entry
    // step, so such a signal sent to it may stay pending — the job is `doomed`, not yet certainly `dead`
    let mut trapped: Vec<&str> = vec![];
    let new_job = |jobs: &mut Vec<GJob>, epoch: &mut Vec<usize>, kind: JKind, monitor: bool| {
        jobs.push(GJob { kind, open: true, fresh: kind == JKind::Nap, stopped: false, igniq: !monitor, dead: false, doomed: false, helper: false, exited: false });
        epoch.push(jobs.len());
    };
    if r.chance(1, 4) {
        // jobs 1 (waited for inside) and 2 (the helper, left open)
        stmts.push(format!("{} {}", if r.chance(1, 2) { "sc" } else { "scp" }, r.pick(&STATUSES)));
        jobs.push(GJob { kind: JKind::St, open: false, fresh: false, stopped: false, igniq: true, dead: false, doomed: false, helper: false, exited: true });
        jobs.push(GJob { kind: JKind::Other, open: true, fresh: false, stopped: false, igniq: true, dead: false, doomed: false, helper: true, exited: false });
        epoch = vec![2];
        clean = true; // the table was emptied by `wait $!` before the helper was inserted
    }
    for _ in 0..len {
        let st = *r.pick(&STATUSES);
        let nopen = jobs.iter().filter(|j| j.open).count();
        let s = match r.below(20) {
            0..=1 if nopen < 3 => {
                new_job(&mut jobs, &mut epoch, JKind::St, monitor);
                format!("bg s{st}")
            }
            2 if nopen < 3 => {
                new_job(&mut jobs, &mut epoch, JKind::Other, monitor);
                format!("bg g{st}")
            }
            3..=6 if nopen < 3 => {
                new_job(&mut jobs, &mut epoch, JKind::Nap, monitor);
                // mostly a nap no statement outlasts; sometimes a short one: if the job is stopped meanwhile its timer fires
                // while it is stopped (the process is polled in the stopped state and parks until SIGCONT)
                if r.chance(1, 3) { format!("bn 50 {st}") } else { format!("bn {} {st}", 1000 * jobs.len()) }
            }
            7..=10 => {
                // a signal to a napping job that is certainly alive
                let c: Vec<usize> = (0..jobs.len()).filter(|i| jobs[*i].open && jobs[*i].fresh).collect();
                // a job that has certainly exited, or was killed before: a (further) signal must change nothing
                let gone: Vec<usize> = (0..jobs.len()).filter(|i| jobs[*i].dead || jobs[*i].exited).collect();
                if !gone.is_empty() && (c.is_empty() || r.chance(1, 3)) {
                    let i = *r.pick(&gone);
                    format!("k {} {}", r.pick(&["TERM", "KILL", "HUP", "INT", "USR1", "STOP", "CONT"]), i + 1)
                } else if c.is_empty() {
                    format!("g {st}")
                } else {
                    let i = *r.pick(&c);
                    let j = &mut jobs[i];
                    let sig = if j.stopped {
                        "CONT"
                    } else {
                        *r.pick(&["TERM", "KILL", "HUP", "INT", "INT", "QUIT", "USR1", "STOP", "STOP"])
                    };
                    match sig {
                        "CONT" => j.stopped = false,
                        "STOP" => {
                            j.stopped = true;
                            clean = false;
                        }
                        "INT" | "QUIT" if j.igniq => {}
                        _ => {
                            // dead; stays in the job table until it is waited for.  If the shell traps that signal
                            // the death may come only with the job's entry step: no further signal until virtual
                            // time has passed (since /repo 3ef5976 the status of such a `kill` — 0 for a live
                            // process, 1 for a reaped one — would depend on the schedule)
                            j.fresh = false;
                            if trapped.contains(&sig) {
                                j.doomed = true;
                            } else {
                                j.dead = true;
                            }
                        }
                    }
                    format!("k {sig} {}", i + 1)
                }
            }
            11 if nopen < 3 => {
                for j in jobs.iter_mut() {
                    j.fresh = j.fresh && j.stopped; // time passes (a stopped job cannot finish)
                    // … only once every other process is blocked: what does not sleep has exited by then
                    j.exited = j.exited || (j.kind != JKind::Nap && !j.dead && !j.helper);
                    j.dead = j.dead || j.doomed;
                }
                new_job(&mut jobs, &mut epoch, JKind::Other, monitor);
                jobs.last_mut().unwrap().helper = true;
                let sig = *r.pick(&["USR1", "INT", "TERM", "HUP"]);
                trapped.push(sig);
                format!("tw {sig} {st}")
            }
            12 if nopen < 3 && r.chance(2, 3) => {
                // a trapped signal sent to a freshly forked job; often waited for at once, with nothing else going on
                let sig = *r.pick(&["USR1", "TERM", "HUP", "INT", "QUIT"]);
                trapped.push(sig);
                let gap = r.chance(1, 2);
                if gap {
                    for j in jobs.iter_mut() {
                        j.fresh = j.fresh && j.stopped;
                    }
                }
                new_job(&mut jobs, &mut epoch, JKind::Nap, monitor);
                let k = jobs.len();
                let dies = !(matches!(sig, "INT" | "QUIT") && !monitor);
                jobs[k - 1].fresh = !dies;
                jobs[k - 1].doomed = dies;
                stmts.push(format!("{} {sig} {} {st}", if gap { "tkg" } else { "tk" }, 1000 * k));
                if r.chance(2, 3) {
                    for j in jobs.iter_mut() {
                        j.fresh = false;
                    }
                    jobs[k - 1].open = false;
                    if jobs.iter().all(|j| !j.open) {
                        epoch.clear();
                        clean = true;
                    } else {
                        clean = false;
                    }
                    stmts.push(format!("wj {k}"));
                }
                continue;
            }
            12 if nopen < 3 => {
                // `wait` interrupted by a trapped signal that the awaited job itself sends just before it exits: no
                // virtual time passes (something is runnable throughout), napping jobs stay certainly alive
                new_job(&mut jobs, &mut epoch, JKind::Other, monitor);
                let k = jobs.len();
                let sig = *r.pick(&["USR1", "INT", "TERM", "HUP"]);
                trapped.push(sig);
                stmts.push(format!("{} {sig} {st}", if r.chance(2, 3) { "ts" } else { "tsn" }));
                if r.chance(2, 3) {
                    // … and waited for again at once: its status, not 127
                    for j in jobs.iter_mut() {
                        j.fresh = false;
                    }
                    jobs[k - 1].open = false;
                    if jobs.iter().all(|j| !j.open) {
                        epoch.clear();
                        clean = true;
                    } else {
                        clean = false;
                    }
                    stmts.push(format!("wj {k}"));
                }
                continue;
            }
            12 => (*r.pick(&["ti", "wx", "ku"])).to_string(),
            13 if !jobs.is_empty() && r.chance(1, 2) => "gl".to_string(),
            13 if !jobs.is_empty() => format!("gj {}", 1 + r.below(jobs.len())),
            14 => {
                monitor = !monitor;
                (if monitor { "m1" } else { "m0" }).to_string()
            }
            15..=18 => {
                // `wait` with operands of every form; a stopped job is continued first
                let mut pre: Vec<String> = vec![];
                for (i, j) in jobs.iter_mut().enumerate() {
                    if j.stopped {
                        j.stopped = false;
                        pre.push(format!("k CONT {}", i + 1));
                    }
                }
                stmts.extend(pre);
                let n = 1 + r.below(3);
                let mut ops: Vec<String> = vec![];
                // resolution happens up front, against the table as it is now
                let table: Vec<usize> = (0..jobs.len()).filter(|i| jobs[*i].open).collect();
                let mut ambiguous = false;
                let mut removed: Vec<usize> = vec![];
                for _ in 0..n {
                    let byname = |k: JKind| table.iter().filter(|i| jobs[**i].kind == k).copied().collect::<Vec<_>>();
                    match r.below(12) {
                        0..=2 if !table.is_empty() => {
                            let i = *r.pick(&table);
                            ops.push((i + 1).to_string());
                            removed.push(i);
                        }
                        3 if !jobs.is_empty() => {
                            let i = r.below(jobs.len());
                            ops.push((i + 1).to_string());
                            if table.contains(&i) {
                                removed.push(i);
                            }
                        }
                        4 => ops.push("u".to_string()),
                        5 => ops.push("%".to_string()),
                        6 | 7 => {
                            let (tok, k) = if r.chance(1, 2) { ("%st", JKind::St) } else { ("%nap", JKind::Nap) };
                            let m = byname(k);
                            ops.push(tok.to_string());
                            match m.len() {
                                0 => {}
                                1 => removed.push(m[0]),
                                _ => ambiguous = true,
                            }
                        }
                        8 if clean && !epoch.is_empty() => {
                            ops.push((if r.chance(1, 2) { "%%" } else { "%+" }).to_string());
                            removed.push(epoch[0] - 1);
                        }
                        9 if clean => {
                            ops.push("%-".to_string());
                            if epoch.len() >= 2 {
                                removed.push(epoch[1] - 1);
                            }
                        }
                        10 if clean && !epoch.is_empty() => {
                            let n = 1 + r.below(epoch.len());
                            ops.push(format!("%{n}"));
                            removed.push(epoch[n - 1] - 1);
                        }
                        _ => ops.push((if r.chance(1, 2) { "u" } else { "%" }).to_string()),
                    }
                }
                for j in jobs.iter_mut() {
                    j.fresh = false; // time may pass
                }
                if !ambiguous {
                    for i in &removed {
                        jobs[*i].open = false;
                    }
                    if jobs.iter().all(|j| !j.open) {
                        epoch.clear();
                        clean = true;
                    } else if !removed.is_empty() {
                        clean = false;
                    }
                }
                format!("wj {}", ops.join(" "))
            }
            19 => gen_flow(r).replacen("fp", *r.pick(&["fpo", "fpi", "fpb"]), 1),
            _ => format!("g {st}"),
        };
        stmts.push(s);
    }
    for (i, j) in jobs.iter().enumerate() {
        if j.stopped {
            stmts.push(format!("k CONT {}", i + 1));
        }
    }
    stmts.push("w".to_string());
    stmts.join("; ")
}

/// A race-free program with at most 5 live processes (the shell included).
/// `fd X Y N`: X = a subset of {0,1,2} closed (every subset), Y = a subset of {3..9} open, N = 2..=max stages
fn gen_fd(r: &mut Rng, max: usize) -> String {
    let closed: String = (0..3).filter(|_| r.chance(2, 5)).map(|d| char::from_digit(d, 10).unwrap()).collect();
    let opened: String = (3..10).filter(|_| r.chance(1, 4)).map(|d| char::from_digit(d, 10).unwrap()).collect();
    let dash = |t: String| if t.is_empty() { "-".to_string() } else { t };
    format!("fd {} {} {}", dash(closed), dash(opened), 2 + r.below(max - 1))
}

/// A flow pipeline of 3-4 ARBITRARY stages (no race-freedom: which writers get EPIPE depends on the schedule).  Only
/// generated while `pipefail` is off: then the status is the last stage's own under every schedule
/// (`flow_pipeline_status_any_stages`).  The last stage does not write (standard output is the trace).
fn gen_flow_any(r: &mut Rng) -> String {
    const SIZES: [usize; 9] = [0, 1, 511, 512, 1024, 1025, 2048, 2500, 3000];
    let n = 3 + r.below(2);
    let mut ms: Vec<String> = vec![];
    for i in 0..n {
        let st = *r.pick(&FLOW_STATUSES);
        let k = *r.pick(&SIZES);
        let last = i + 1 == n;
        ms.push(match r.below(if last { 3 } else { 6 }) {
            0 => format!("t{k}.{st}"),
            1 => "d".to_string(),
            2 => format!("s{st}"),
            3 => "c".to_string(),
            _ => format!("w{k}"),
        });
    }
    format!("fp {}", ms.join(" "))
}

fn gen_program(r: &mut Rng, thorough: bool) -> String {
    let len = 2 + r.below(if thorough { 7 } else { 5 });
    let mut stmts: Vec<String> = vec![];
    let mut nasync = 0usize;
    let mut open: Vec<usize> = vec![]; // jobs not yet waited for
    let mut live = 0usize; // processes the unwaited jobs may keep alive
    let mut weight: Vec<usize> = vec![0]; // per job number
    let mut pf = false; // `set -o pipefail` in effect
    for _ in 0..len {
        let st = *r.pick(&STATUSES);
        let room = 4usize.saturating_sub(live);
        let mut choice = r.below(20);
        if (8..=11).contains(&choice) && open.is_empty() && room >= 2 && r.chance(3, 4) {
            choice = 5; // nothing to wait for yet: start a job instead
        }
        let s = match choice {
            0 => {
                let t = *r.pick(&["pf1", "pf0", "m1", "m0"]);
                if t.starts_with("pf") {
                    pf = t == "pf1";
                }
                t.to_string()
            }
            1 if room >= 4 && !pf && r.chance(1, 3) => gen_flow_any(r),
            1 if room >= 3 && r.chance(2, 5) => gen_fd(r, (room - 1).min(4)),
            1 if room >= 3 => {
                let f = gen_flow(r);
                if r.chance(1, 4) { f.replacen("fp", *r.pick(&["fpo", "fpi", "fpb"]), 1) } else { f }
            }
            2..=4 if room >= 2 => {
                let n = 2 + r.below(room.min(4) - 1);
                format!("{} {}", if r.chance(1, 5) { "np" } else { "p" }, gen_members(r, n, true).join(" "))
            }
            5..=7 if room >= 2 => {
                nasync += 1;
                open.push(nasync);
                if room >= 3 && r.chance(1, 3) {
                    let n = 2;
                    live += n + 1;
                    weight.push(n + 1);
                    format!("bg {}", gen_members(r, n, false).join(" "))
                } else {
                    live += 2;
                    weight.push(2);
                    let m = gen_members(r, 1, false).remove(0);
                    format!("bg {m}")
                }
            }
            8..=11 => {
                // `wait` with 1-4 operands mixing jobs not yet waited for, jobs waited for already
                // (also: earlier in the same list), a pid that never was a child and an unknown job
                // ID, in every position
                let n = 1 + r.below(4);
                let mut ops: Vec<String> = vec![];
                for _ in 0..n {
                    let done: Vec<usize> = (1..=nasync).filter(|k| !open.contains(k)).collect();
                    match r.below(8) {
                        0..=3 if !open.is_empty() => {
                            let i = r.below(open.len());
                            ops.push(open.remove(i).to_string());
                        }
                        4 if !done.is_empty() => ops.push(r.pick(&done).to_string()),
                        5 => ops.push("u".to_string()),
                        6 => ops.push("%".to_string()),
                        _ if !open.is_empty() => {
                            let i = r.below(open.len());
                            ops.push(open.remove(i).to_string());
                        }
                        _ => ops.push((if r.chance(1, 2) { "u" } else { "%" }).to_string()),
                    }
                }
                live = open.iter().map(|k| weight[*k]).sum();
                format!("wj {}", ops.join(" "))
            }
            19 if r.chance(1, 2) => {
                open.clear();
                live = 0;
                "w".to_string()
            }
            12 if nasync >= 1 && r.chance(1, 3) => "gl".to_string(),
            12 => format!("g {st}"),
            13 if room >= 2 => format!("gg {st}"),
            14 if room >= 3 => format!("gp {}", gen_members(r, 2, true).join(" ")),
            15 if room >= 2 => {
                if r.chance(1, 2) { format!("gb {st}") } else { format!("qb {st}") }
            }
            16 if room >= 3 => format!("gw {st} {}", r.pick(&STATUSES)),
            17 if room >= 3 && r.chance(1, 2) => {
                // `wait` interrupted by a trapped signal sent by the awaited job itself, which exits right after
                nasync += 1;
                open.push(nasync);
                live += 3;
                weight.push(3);
                let sig = *r.pick(&["USR1", "INT", "TERM", "HUP"]);
                if nasync > 1 && r.chance(1, 3) {
                    // further operands after the signalling job: jobs still open, waited for already, unknown
                    let ops: Vec<String> = (0..1 + r.below(2))
                        .map(|_| match r.below(4) {
                            0 => "u".to_string(),
                            1 => "%".to_string(),
                            _ => (1 + r.below(nasync - 1)).to_string(),
                        })
                        .collect();
                    stmts.push(format!("tso {sig} {st} {}", ops.join(" ")));
                } else {
                    let alone = open.len() == 1; // no other job is open
                    let v = match r.below(10) {
                        0 => format!("tsr {sig} {st} {}", r.pick(&FLOW_STATUSES)),
                        7 => format!("tsq {sig} {st} {}", r.pick(&FLOW_STATUSES)),
                        8 => format!("tsf {sig} {st} {}", r.pick(&FLOW_STATUSES)),
                        1 => {
                            let other = *r.pick(&["USR1", "USR2", "TERM", "HUP"]);
                            if other == sig { format!("ts {sig} {st}") } else { format!("ts2 {sig} {other} {st}") }
                        }
                        2 if alone => format!("tsa {sig} {st}"),
                        3 if alone => format!("tc {st}; tcx"),
                        4..=6 => format!("tsn {sig} {st}"),
                        _ => format!("ts {sig} {st}"),
                    };
                    stmts.push(v);
                }
                if r.chance(2, 3) {
                    open.pop();
                    live = open.iter().map(|k| weight[*k]).sum();
                    stmts.push(format!("wj {nasync}"));
                }
                continue;
            }
            17 if r.chance(1, 3) => (if r.chance(1, 2) { "wx" } else { "ti" }).to_string(),
            17 => format!("q {st}"),
            18 => format!("qe {} {st}", r.pick(&WORDS)),
            19 if room >= 2 => format!("qq {st}"),
            _ => format!("g {st}"),
        };
        stmts.push(s);
    }
    // every asynchronous job is waited for before the shell exits: sometimes one by one, and always a
    // final plain `wait`
    if !open.is_empty() && r.chance(1, 2) {
        while !open.is_empty() {
            let i = r.below(open.len());
            stmts.push(format!("wj {}", open.remove(i)));
        }
    }
    stmts.push("w".to_string());
    stmts.join("; ")
}

const FIXED_PROGRAMS: [&str; 70] = [
    "bn 50 7; k STOP 1; tw USR1 0; k CONT 1; wj 1; wj 2; w",
    "bn 50 300; k STOP 1; tw HUP 3; g 4; ku; k CONT 1; wj 2 1; w",
    "bg s1; bg s2; wj %st; wj 1 2; w",
    "bn 1000 1; bn 2000 2; wj %nap u; wj 2 1; w",
    "tsq USR1 3 5; wj 1; w",
    "bg s2; tsf TERM 4 6; tsq HUP 0 7; wj 3 2 1; w",
    "bg s3; gl; g 4; gl; p s1 s2; gl; wj 1; gl; w",
    "bg s1 s2; gl; bg g7; gl; wj 2 1; gl; w",
    "fp s5 w3000 c t10.7; fp w2500 t1.3 w1025 d",
    "fp w1025 c c s9; fp w3000 t512.1 c t1.42",
    "tc 3; tcx; wj 1; w",
    "tc 300; tcx; g 4; wj 1; wj 1; w",
    "ts2 USR2 USR1 3; wj 1; w",
    "bg s5; ts2 TERM HUP 7; wj 2; wj 1; w",
    "tsa USR1 3; wj 1; w",
    "tsr HUP 3 9; wj 1; pf1; tsr USR1 0 1; w",
    "bg s3; tso USR1 7 1; wj 2; wj 1; w",
    "bg s1; wj 1; tso HUP 4 1 u %; wj 2; w",
    "ts USR1 3; wj 1; w",
    "tsn USR1 3; wj 1; w",
    "bg s3; ts TERM 7; wj 2; wj 1; w",
    "ts HUP 0; ts HUP 5; wj 2 1; w",
    "bn 1000 7; ts INT 4; k TERM 1; wj 2; wj 1; w",
    "m1; ts USR1 300; wj 1; m0; tsn USR1 2; w",
    "bg s1; bg s2; tsn TERM 9; wj 3 1; w",
    "fd - - 2",
    "fd - - 5",
    "fd 0 - 3; fd 1 - 3; fd 01 - 4",
    "fd 012 - 3; fd 2 34 6",
    "fd 1 3 8; fd 02 789 7",
    "pf1; fd 01 35 3; bg s3; fd 0 4 2; wj 1; w",
    "m1; fd 1 - 3; fd - 3579 4; m0; fd 01 3 2",
    "bg s3; tw USR1 0; k TERM 1; wj 1; wj 2; w",
    "bg s3; bg g5; tw HUP 1; k KILL 2; k CONT 1; k STOP 1; wj 2 1; w",
    "bn 1000 7; k TERM 1; k HUP 1; k KILL 1; k CONT 1; wj 1; w",
    "tk USR1 1000 4; tw HUP 0; k TERM 1; k INT 1; wj 1; wj 2; w",
    "tk USR1 1000 4; wj 1; w",
    "tkg USR1 1000 4; wj 1; w",
    "tk TERM 1000 4; w",
    "tkg HUP 1000 7; wj 1; tk HUP 2000 3; wj 2; w",
    "tk INT 1000 5; wj 1; m1; tk INT 2000 6; wj 2; w",
    "tw USR1 6; bn 2000 3; k USR1 2; wj 2; wj 1; w",
    "fp w4096 s7",
    "pf1; fp w4096 s0; pf0; fp w4096 s0",
    "fp w1024 t1024.3; fp w1025 t1025.0; fp w2049 d",
    "fp w2050 t1.5; fp w1026 t1.0 d",
    "fp w9000 c t100.2; fp w3000 c d; fp w6000 c s9",
    "fp s5 w2049 t1024.0; fp s5 w1024 d",
    "pf1; fp w5000 c t10.0; fp w512 c t512.0",
    "bg s3; fp w4096 s7; wj 1; w",
    "bg s3; wj u 1; w",
    "bg s3; bg s4; wj 1; wj 1 2; w",
    "bg s3; bg s4; wj 1 % 2; w",
    "bg s5; wj % u 1 u; bg s6; wj 1 2 2; w",
    "bg s1; bg s2; bg s3; wj u 3 % 1; wj 2 u; w",
    "bg s7; wj 1 1; w",
    "bg s3; g 4; wj 1",
    "bg s1; bg s2; w",
    "bg s1; bg s2; wj 2; wj 1; wj 1",
    "p s3 s0; pf1; p s3 s0; p s0 s0; p s1 s2 s0; pf0; p s1 s2 s0",
    "p ehi c c; p s1 ehi c",
    "wu; bg x7; wj 1; wj 1; wu",
    "bg g5; bg q6; wj 1 2",
    "pf1; bg s2 s0; bg s0 s0; wj 1; wj 2",
    "gw 1 2; gb 3; qb 4; gg 5; qq 6",
    "gp s1 s0; pf1; gp s1 s0; gp g2 q0",
    "np s0 s0; np s1 s1; np s1 s0",
    "qe hi 3; q 0; qe abc 0",
    "bg s1; p s2 s3; bg s4; g 5; wj 2; q 6; wj 1",
    "bg s9; bg s8; bg s7; p c c; w; wj 2",
];

// ------------------------------------------------------------------------------------------
// exploration

struct Explorer {
    depth: usize,
    max_dfs: usize,
    random: usize,
}

/// Runs one (program, schedule) pair and prints its line.  `first` holds the observation of the first
/// schedule of this program.
fn run_case(prog: &str, script: &str, chooser: Chooser, first: &mut Option<String>) -> Vec<(u8, u8)> {
    let mut taken = vec![];
    let mut oracle = String::new();
    let mut case = String::new();
    let obs = guarded(|| {
        let o = run_sched(script, chooser);
        let obs = observe(&o);
        taken = o.taken.clone();
        case = format!("{prog} @ {}", digits(&o.taken));
        oracle = if o.deadlock {
            "FAIL:deadlock".into()
        } else if o.stuck {
            "FAIL:TIMEOUT".into()
        } else if o.zombies != 0 {
            "FAIL:zombie".into()
        } else if let Some(what) = &o.fds_fail {
            format!("FAIL:descriptors({what})")
        } else if let Some(what) = &o.jobs_fail {
            format!("FAIL:jobs({what})")
        } else if first.as_ref().is_some_and(|f| *f != obs) {
            format!("FAIL:schedule-dependent(first={})", first.as_ref().unwrap())
        } else {
            "ok".into()
        };
        obs
    });
    if case.is_empty() {
        case = format!("{prog} @ ?");
        oracle = "FAIL:panic".into();
    }
    if first.is_none() {
        *first = Some(obs.clone());
    }
    emit(&case, &obs, &oracle);
    taken
}

/// All schedules that differ within the first `depth` scheduling choices (continuation: lowest task
/// first), each exactly once: a run with prefix P (then zeros) spawns, for every later position within
/// the depth bound and every alternative there, the prefix that deviates at that position.  The queue is
/// FIFO, so a cap cuts off the schedules with the most deviations, not the early positions.  Then seeded
/// random schedules.
fn explore(prog: &str, ex: &Explorer, seed: u64) {
    let Some(script) = render(prog) else {
        emit(&format!("{prog} @ -"), "bad-case", "-");
        return;
    };
    let mut first: Option<String> = None;
    let mut queue: std::collections::VecDeque<Vec<u8>> = std::collections::VecDeque::new();
    queue.push_back(vec![]);
    let mut runs = 0usize;
    while let Some(prefix) = queue.pop_front() {
        let from = prefix.len();
        let taken = run_case(prog, &script, Chooser { prefix, rng: None, taken: vec![] }, &mut first);
        runs += 1;
        if runs >= ex.max_dfs {
            break;
        }
        if queue.len() < ex.max_dfs {
            for i in from..taken.len().min(ex.depth) {
                let (c, n) = taken[i];
                for alt in 0..n {
                    if alt != c {
                        let mut p: Vec<u8> = taken[..i].iter().map(|(c, _)| *c).collect();
                        p.push(alt);
                        queue.push_back(p);
                    }
                }
            }
        }
    }
    for k in 0..ex.random {
        let rng = Rng::new(seed ^ 0xC13_0000 ^ ((k as u64) << 32) ^ 0x5bd1e995);
        run_case(prog, &script, Chooser { prefix: vec![], rng: Some(rng), taken: vec![] }, &mut first);
    }
}

fn main() {
    let opts = Opts::from_args();
    if !opts.extra.iter().any(|a| a == "--script") {
        quiet_panics();
    }
    // debugging aid: `c13 --script 'text' [--sched digits | --rand seed]`, `c13 --render 'program'`
    let get = |k: &str| opts.extra.iter().position(|a| a == k).map(|i| opts.extra[i + 1].clone());
    if let Some(p) = get("--render") {
        println!("{}", render(&p).unwrap_or_else(|| "bad-case".into()));
        return;
    }
    if let Some(script) = get("--script") {
        let chooser = Chooser {
            prefix: get("--sched").map(|s| parse_digits(&s)).unwrap_or_default(),
            rng: get("--rand").map(|s| Rng::new(s.parse().unwrap())),
            taken: vec![],
        };
        let o = run_sched(&script, chooser);
        print!("{}", String::from_utf8_lossy(&o.stdout));
        eprint!("{}", String::from_utf8_lossy(&o.stderr));
        eprintln!(
            "[exit {} stuck {} zombies {} procs {} choices {} widths {}]",
            o.status,
            o.stuck,
            o.zombies,
            o.procs,
            digits(&o.taken),
            o.taken.iter().map(|(_, n)| n.to_string()).collect::<String>()
        );
        return;
    }

    // corpus / replay: exact (program, schedule) pairs; each compared with the FIFO-like schedule `-`
    let (fixed, only) = opts.fixed_cases();
    for case in &fixed {
        let (prog, sched) = match case.split_once('@') {
            Some((p, s)) => (p.trim().to_string(), s.trim().to_string()),
            None => (case.trim().to_string(), "-".to_string()),
        };
        let Some(script) = render(&prog) else {
            emit(case, "bad-case", "-");
            continue;
        };
        // reference observation: the schedule that always picks the lowest task (not printed)
        let mut first: Option<String> = None;
        let _ = guarded(|| {
            let o = run_sched(&script, Chooser { prefix: vec![], rng: None, taken: vec![] });
            first = Some(observe(&o));
            String::new()
        });
        run_case(&prog, &script, Chooser { prefix: parse_digits(&sched), rng: None, taken: vec![] }, &mut first);
    }
    if only {
        return;
    }

    let thorough = opts.thorough();
    let ex = if thorough {
        Explorer { depth: 12, max_dfs: 1500, random: 200 }
    } else {
        Explorer { depth: 6, max_dfs: 60, random: 20 }
    };
    let mut rng = Rng::new(opts.seed ^ 0x00C1_3C13);
    let nprog = if thorough { 400 } else { 120 };
    let mut index = 0usize;
    let mut progs: Vec<String> = FIXED_PROGRAMS.iter().map(|s| s.to_string()).collect();
    while progs.len() < nprog {
        let p = if progs.len() % 3 == 2 { gen_jobs_program(&mut rng, thorough) } else { gen_program(&mut rng, thorough) };
        if !progs.contains(&p) {
            progs.push(p);
        }
    }
    for p in &progs {
        // whole programs are sharded (the oracle compares the schedules of one program)
        if index % opts.shard.1 == opts.shard.0 {
            explore(p, &ex, opts.seed.wrapping_add(index as u64));
        }
        index += 1;
    }
}
