//! C07 — quoted output reads back verbatim; state listings recreate the state.
//!
//! Case lines (see /verif/lean/YashModel/Quote/Main.lean):
//!   `q <hex s>`      real `yash_quote::quoted(s)`, then the REAL shell reads `probe <quoted>` back
//!                    observation `<hex quoted> <fields>`; oracle: exactly one field, equal to `s`
//!   `w <hex text>`   arbitrary argument text through the real `Lexer` (`skip_blanks`, `token`): the fields
//!                    of literal-only words or `none`; oracle: when literal-only, the real shell run of
//!                    `probe <text>` yields the same fields
//!   `d <hex text>`   the same for the arguments of a declaration utility (`typeset <text>`): `name=value` words
//!                    are not subject to pathname expansion, tilde expansion is looked for after `=` and `:`
//!   `v s:<hex>` / `v a:<hex>,…`  `Value::quote` of a scalar / array through the API (`QuotedValue`)
//!   `s <hex text>`   a whole multi-line text through the real `Lexer` (token classes) and the real `Parser`
//!                    (`command_line` → `simple_command`, `array_values`, `Assign::try_from`,
//!                    `determine_expansion_mode`, declaration utilities = the built-ins of a real environment):
//!                    the assignments and fields of its newline-separated simple commands, or `none`;
//!                    oracle (listing-shaped texts built with the real quoter): reads back as the entries
//!   `c <codepoint>`  `char::is_whitespace`, `quoted(c).needs_quoting()`, `is_blank`, `is_token_delimiter_char`
//!   `L <listing case>`  definition history in one virtual shell, listings printed, evaluated in a fresh one
//!
//! `<fields>` is `none` or `some:` + comma-separated hex fields.

use futures_util::FutureExt as _;
use std::panic::{AssertUnwindSafe, catch_unwind};
use yash_syntax::parser::lex::{Lexer, TokenId, is_blank, is_token_delimiter_char};
use yash_syntax::syntax::{TextUnit, Word, WordUnit};
use yverif::proto::{Opts, dec_str, emit, enc_str, guarded, quiet_panics};
use yverif::rng::Rng;
use yverif::shell::run_script;

mod listing {
    //! Listings leg.  Case: `L <op> <op> …`, each op colon-separated with hex strings:
    //!   `v:<name>:<value>:<attrs>`   `typeset [-x] [-r] -- 'name=value'`     attrs ⊆ "xr" or `-`
    //!                                (`pv:` / `pn:` = the name starts with `+`; was listed without `--` until /repo 70b6315)
    //!   `n:<name>:<attrs>`           `typeset [-x] [-r] -- 'name'` (no value; keeps an existing value)
    //!   `a:<name>:<v1>,<v2>…:<attrs>` `name=('v1' 'v2' …)` then `typeset -x…` (name: any run of literal characters;
    //!                                `aq:` = the quoter quotes the name — the listed line is not an assignment: known finding)
    //!   `l:<name>:<value>`           `alias -- 'name=value'`   (`lg:` = both parts unquoted with `[` … `]` across)
    //!   `t:<COND>:<action>`          `trap -- 'action' COND`
    //!   `e:<name>:<value>`           variable created through the API before the script (name contains `=`)
    //!   `m:<octal>`                  `umask <octal>`
    //!   `ms:<symbolic>`              `umask -- <symbolic>`  (who/operator/permission clauses)
    //!   `o:<option>:<0|1>`           `set ±o option` (`portable` is switched on only before the option listings)
    //!   `f:<name>:<body index>[:r]`  `'name'() body` [then `typeset -fr -- 'name'`]
    //!                                (`fq:` = name needs quoting, `fk:` = name is a keyword)
    //! Observation: the texts printed by `alias`, `typeset -p`, `export -p`, `readonly -p`, `set`, `trap`,
    //! `alias -- names`, `typeset -p -- names`, `trap -p CONDS`, `set -o`, `umask -S`, and `trap`, `alias`,
    //! `typeset -p`, `set +o` run in a subshell (`(…)`, `… | cat`, `$(…)`),
    //! `umask`, `set +o` and the attribute lines (`typeset -fr [-- ]name`) of `typeset -fp` (hex).  Oracle: every listing (also `typeset -fp [-- names]`, `trap -p`) evaluated in a fresh
    //! shell recreates what it lists (state snapshots compared), and every listed command line is made of
    //! literal-only words for the real lexer.
    use super::*;
    use std::cell::RefCell;
    use yash_env::builtin::{Builtin, Type};
    use yash_env::option::State;
    use yash_env::semantics::{ExitStatus, Field};
    use yash_env::system::{Mode, Umask as _};
    use yash_env::trap::{Action, Condition};
    use yash_env::variable::{Scope, Value};
    use yverif::shell::{BuiltinFuture, Config, VEnv, run_with};

    pub const SEP: &str = "SEPQZJX";
    pub const BODIES: &[&str] = &[
        "{ :; }",
        "{ echo a; }",
        "(echo 'x y')",
        "{ echo \"$1\" | cat; }",
        "for i in 1 2; do :; done",
        "{ x='a b'; }",
        "case $1 in (a) :;; esac",
        "if :; then echo \\\\; fi",
    ];
    pub const CONDS: &[&str] = &["EXIT", "HUP", "INT", "QUIT", "TERM", "USR1", "USR2"];
    /// condition numbers of the virtual system (yash-env/src/system/virtual/signal.rs; extracted for the model as
    /// `ListingTables.virtualSignals`); a wrong number here shows as a model/impl disagreement
    pub const COND_NUMBERS: &[(&str, u32)] = &[("EXIT", 0), ("HUP", 1), ("INT", 2), ("QUIT", 3), ("TERM", 15), ("USR1", 124), ("USR2", 125)];
    pub const OPTS: &[&str] = &["clobber", "glob", "hashondefinition", "ignoreeof", "notify", "pipefail", "unset", "vi"];
    const KEYWORDS: &[&str] = &["if", "then", "else", "elif", "fi", "do", "done", "case", "esac", "while", "until", "for", "in", "function", "{", "}", "!", "[[", "]]", "select", "namespace"];

    thread_local! {
        static SNAP: RefCell<Vec<Vec<String>>> = const { RefCell::new(Vec::new()) };
    }

    /// harness-side quoting, independent of yash-quote: `'…'` with `'\''` for each quote
    pub fn sq(s: &str) -> String {
        format!("'{}'", s.replace('\'', "'\\''"))
    }

    fn h(s: &str) -> String {
        enc_str(s)
    }

    /// `snap`: records the state (sorted canonical lines) and leaves it in a thread-local
    fn snap_main(env: &mut VEnv, _args: Vec<Field>) -> BuiltinFuture<'_> {
        let mut lines = vec![];
        for (name, var) in env.variables.iter(Scope::Global) {
            let val = match &var.value {
                None => "N".to_string(),
                Some(Value::Scalar(s)) => format!("S:{}", h(s)),
                Some(Value::Array(v)) => format!("A:{}", v.iter().map(|s| h(s)).collect::<Vec<_>>().join(",")),
            };
            lines.push(format!("V {} {}{} {}", h(name), var.is_exported as u8, var.is_read_only() as u8, val));
        }
        for a in env.aliases.iter() {
            lines.push(format!("L {} {} {}", h(&a.0.name), h(&a.0.replacement), a.0.global as u8));
        }
        for f in env.functions.iter() {
            lines.push(format!("F {} {} {}", h(&f.name), f.is_read_only() as u8, h(&f.body.to_string())));
        }
        for o in yash_env::option::Option::iter() {
            lines.push(format!("O {} {}", o, (env.options.get(o) == State::On) as u8));
        }
        let conds: Vec<Condition> = Condition::iter(&env.system).collect();
        for c in conds {
            let name = c.to_string(&env.system);
            if let Ok(st) = env.traps.peek_state(&env.system, c) {
                match &st.action {
                    Action::Default => {}
                    Action::Ignore => lines.push(format!("T {} -", name)),
                    Action::Command(cmd) => lines.push(format!("T {} {}", name, h(cmd))),
                }
            }
        }
        let m = env.system.umask(Mode::empty());
        env.system.umask(m);
        lines.push(format!("M {:03o}", m.bits() & 0o777));
        lines.sort();
        SNAP.with(|s| s.borrow_mut().push(lines));
        Box::pin(async move { ExitStatus::SUCCESS.into() })
    }

    /// Runs a script with `snap` available; `pre` = variables created through the API before the first
    /// command (names the `typeset` built-in cannot create, e.g. containing `=`).
    /// Returns (stdout, the snapshots taken by each `snap`).
    fn run_pre(script: &str, pre: &[(String, String)], ignored: &[String]) -> Result<(String, Vec<Vec<String>>), String> {
        use yash_env::system::Disposition;
        use yash_env::system::r#virtual::{SIGHUP, SIGINT, SIGQUIT, SIGTERM, SIGUSR1, SIGUSR2};
        SNAP.with(|s| s.borrow_mut().clear());
        let mut out = String::new();
        let pre: Vec<(String, String)> = pre.to_vec();
        let ignored: Vec<String> = ignored.to_vec();
        let r = guarded(|| {
            let (o, _) = run_with(
                Config::new(script),
                move |env, state| {
                    // signals ignored on entry to the shell (`ti:` ops): the disposition the process starts with
                    for c in &ignored {
                        let n = match c.as_str() {
                            "HUP" => SIGHUP,
                            "INT" => SIGINT,
                            "QUIT" => SIGQUIT,
                            "TERM" => SIGTERM,
                            "USR1" => SIGUSR1,
                            _ => SIGUSR2,
                        };
                        if let Some(p) = state.borrow_mut().processes.get_mut(&env.main_pid) {
                            p.set_disposition(n, Disposition::Ignore);
                        }
                    }
                    env.builtins.insert("snap", Builtin::new(Type::Mandatory, snap_main));
                    for (n, v) in &pre {
                        let _ = env.variables.get_or_new(n.as_str(), Scope::Global).assign(v.as_str(), None);
                    }
                },
                |_, _| (),
            );
            out = o.stdout_str();
            if o.stuck { "STUCK".into() } else { String::new() }
        });
        if !r.is_empty() {
            return Err(r);
        }
        Ok((out, SNAP.with(|s| std::mem::take(&mut *s.borrow_mut()))))
    }

    /// the snapshot taken by the last `snap` of a script
    fn run(script: &str) -> Result<(String, Option<Vec<String>>), String> {
        run_pre(script, &[], &[]).map(|(o, mut v)| (o, v.pop()))
    }

    thread_local! {
        static DEFAULT_VARS: RefCell<Option<Vec<String>>> = const { RefCell::new(None) };
    }

    /// names of the variables a fresh shell starts with (unset first, so that listings show the history only)
    fn default_vars() -> Vec<String> {
        if let Some(v) = DEFAULT_VARS.with(|d| d.borrow().clone()) {
            return v;
        }
        let names: Vec<String> = match run("snap\n") {
            Ok((_, Some(lines))) => lines
                .iter()
                .filter_map(|l| l.strip_prefix("V "))
                .filter_map(|l| dec_str(l.split(' ').next().unwrap()))
                .collect(),
            _ => vec![],
        };
        DEFAULT_VARS.with(|d| *d.borrow_mut() = Some(names.clone()));
        names
    }

    fn attrs_opts(a: &str) -> String {
        let mut s = String::new();
        if a.contains('x') {
            s.push_str("-x ");
        }
        if a.contains('r') {
            s.push_str("-r ");
        }
        s
    }

    /// what a history turns into
    struct Script {
        defs: String,
        /// variables created through the API (`e:` ops)
        pre: Vec<(String, String)>,
        /// signals ignored on entry (`ti:` ops)
        ignored: Vec<String>,
        /// `o:portable:1` : switched on only before the option listings (other listings cannot run with it)
        portable: bool,
        vars: Vec<String>,
        aliases: Vec<String>,
        fns: Vec<String>,
    }

    fn push_unique(v: &mut Vec<String>, s: String) {
        if !v.contains(&s) {
            v.push(s);
        }
    }

    /// the definition script of a history; `None` if the case text is malformed
    fn script_of(case: &str) -> Option<Script> {
        let mut sc = String::new();
        let defaults = default_vars();
        if !defaults.is_empty() {
            sc.push_str(&format!("unset -v {}\n", defaults.join(" ")));
        }
        let mut late = String::new();
        // aliases are defined after everything else: an alias named like a command used in a function
        // body (`:`) would otherwise be substituted into the definitions that follow it
        let mut aliases = String::new();
        let mut out = Script { defs: String::new(), pre: vec![], ignored: vec![], portable: false, vars: vec![], aliases: vec![], fns: vec![] };
        for op in case.split_whitespace().skip(1) {
            let f: Vec<&str> = op.split(':').collect();
            match f.as_slice() {
                ["v" | "pv", n, v, a] => {
                    let name = dec_str(n)?;
                    sc.push_str(&format!("typeset {}-- {}\n", attrs_opts(a), sq(&format!("{}={}", name, dec_str(v)?))));
                    push_unique(&mut out.vars, name);
                }
                ["n" | "pn", n, a] => {
                    let name = dec_str(n)?;
                    sc.push_str(&format!("typeset {}-- {}\n", attrs_opts(a), sq(&name)));
                    push_unique(&mut out.vars, name);
                }
                ["e", n, v] => {
                    let name = dec_str(n)?;
                    if !name.contains('=') {
                        return None;
                    }
                    out.pre.push((name, dec_str(v)?));
                }
                ["a" | "aq" | "aQ", n, vs, a] => {
                    let name = dec_str(n)?;
                    let vals: Vec<String> = if *vs == "." {
                        vec![]
                    } else {
                        vs.split(',').map(|v| dec_str(v).map(|v| sq(&v))).collect::<Option<_>>()?
                    };
                    sc.push_str(&format!("{}=({})\n", name, vals.join(" ")));
                    if !attrs_opts(a).is_empty() {
                        sc.push_str(&format!("typeset {}-- {}\n", attrs_opts(a), sq(&name)));
                    }
                    push_unique(&mut out.vars, name);
                }
                ["l" | "lg", n, v] => {
                    let name = dec_str(n)?;
                    aliases.push_str(&format!("alias -- {}\n", sq(&format!("{}={}", name, dec_str(v)?))));
                    push_unique(&mut out.aliases, name);
                }
                ["ti", c] => {
                    if !CONDS.contains(c) || *c == "EXIT" {
                        return None;
                    }
                    push_unique(&mut out.ignored, c.to_string());
                }
                ["t", c, a] => sc.push_str(&format!("trap -- {} {}\n", sq(&dec_str(a)?), c)),
                // the condition given by NUMBER (0 = EXIT; signal numbers of the virtual system)
                ["tn", _c, n, a] => {
                    let n: u32 = n.parse().ok()?;
                    sc.push_str(&format!("trap -- {} {}\n", sq(&dec_str(a)?), n))
                }
                ["m", m] => sc.push_str(&format!("umask {m}\n")),
                ["ms", m] => {
                    if m.is_empty() || !m.chars().all(|c| "ugoarwxXs+-=,".contains(c)) {
                        return None;
                    }
                    sc.push_str(&format!("umask -- {m}\n"))
                }
                ["o", "portable", st] => out.portable = *st == "1",
                ["o", o, st] => late.push_str(&format!("set {}o {}\n", if *st == "1" { '-' } else { '+' }, o)),
                ["f" | "fq" | "fk", n, b] => {
                    let name = dec_str(n)?;
                    sc.push_str(&format!("{}() {}\n", sq(&name), BODIES.get(b.parse::<usize>().ok()?)?));
                    push_unique(&mut out.fns, name);
                }
                ["f" | "fq" | "fk", n, b, "r"] => {
                    let raw = dec_str(n)?;
                    let name = sq(&raw);
                    sc.push_str(&format!("{}() {}\n", name, BODIES.get(b.parse::<usize>().ok()?)?));
                    sc.push_str(&format!("typeset -fr -- {name}\n"));
                    push_unique(&mut out.fns, raw);
                }
                _ => return None,
            }
        }
        sc.push_str(&aliases);
        sc.push_str(&late);
        out.defs = sc;
        out.vars.sort();
        out.vars.reverse();
        out.aliases.sort();
        out.aliases.reverse();
        out.fns.sort();
        out.fns.reverse();
        Some(out)
    }

    /// logical command lines of a listing (unquoted newlines found by the real lexer)
    fn logical_lines(text: &str) -> Option<Vec<String>> {
        let chars: Vec<char> = text.chars().collect();
        let mut lexer = Lexer::with_code(text);
        let mut lines = vec![];
        let mut start = 0usize;
        loop {
            lexer.skip_blanks_and_comment().now_or_never()?.ok()?;
            let t = lexer.token().now_or_never()?.ok()?;
            match t.id {
                TokenId::Operator(yash_syntax::parser::lex::Operator::Newline) => {
                    lines.push(chars[start..t.index].iter().collect::<String>());
                    start = t.index + 1;
                }
                TokenId::EndOfInput => break,
                _ => {}
            }
        }
        if start < chars.len() {
            lines.push(chars[start..].iter().collect());
        }
        Some(lines)
    }

    /// file names that the unquoted pattern `p` could match (one bracket expression replaced by a member)
    fn bracket_candidates(p: &str) -> Vec<String> {
        let c: Vec<char> = p.chars().collect();
        let mut out = vec![];
        for i in 0..c.len() {
            if c[i] != '[' {
                continue;
            }
            for j in i + 2..c.len() {
                if c[j] == ']' {
                    for m in &c[i + 1..j] {
                        let cand: String = c[..i].iter().chain(std::iter::once(m)).chain(c[j + 1..].iter()).collect();
                        if !cand.contains('/') && !cand.is_empty() && !out.contains(&cand) {
                            out.push(cand);
                        }
                    }
                    break;
                }
            }
        }
        out
    }

    /// (key, kind of state it lists = how it is checked after re-evaluation, command; `@v` `@a` `@f` = the
    /// names of the history's variables / aliases / functions in descending order, `@c` = conditions)
    const KINDS: &[(&str, &str, &str)] = &[
        ("A", "A", "alias"),
        ("V", "V", "typeset -p"),
        ("X", "X", "export -p"),
        ("R", "R", "readonly -p"),
        ("S", "S", "set"),
        ("T", "T", "trap"),
        ("U", "U", "umask"),
        ("Us", "Us", "umask -S"),
        ("F", "F", "typeset -fp"),
        ("Ao", "A", "alias -- @a"),
        ("Vo", "V", "typeset -p -- @v"),
        ("Fo", "F", "typeset -fp -- @f"),
        ("Fr", "Fr", "typeset -fpr"),
        ("Tc", "T", "trap -p @c"),
        ("Tp", "T", "trap -p"),
        // listings taken in a subshell: parentheses, a pipeline component, a command substitution
        ("Ts", "T", "(trap)"),
        ("Tk", "T", "trap | cat"),
        ("As", "A", "(alias)"),
        ("Vs", "V", "(typeset -p)"),
        ("Tq", "T", "SAVEDQZJX=$(trap); echo \"$SAVEDQZJX\"; unset -v SAVEDQZJX"),
        // one operand does not exist: `alias` prints the others, the `typeset` family prints NOTHING (the error
        // discards the output); `export` / `readonly` are special built-ins (the error ends the shell): subshell
        ("Am", "A", "alias -- @a NOSUCHQZJX"),
        ("Vm", "-", "typeset -p -- @v NOSUCHQZJX"),
        ("Xm", "-", "(export -p -- @v NOSUCHQZJX)"),
        ("Rm", "-", "(readonly -p -- @v NOSUCHQZJX)"),
        ("Fm", "-", "typeset -fp -- @f NOSUCHQZJX"),
        // `command -v` on the alias names: prints command lines that redefine the aliases (docs/builtins/command.md)
        ("Cv", "Ac", "command -v -- @a"),
        // after `set -o portable` (if the history asks for it) and a second `snap`
        ("O", "O", "set +o"),
        ("Oh", "-", "set -o"),
        ("Os", "O", "(set +o)"),
    ];
    /// observation order (texts the model predicts)
    const OBS: &[&str] = &["A", "V", "X", "R", "S", "T", "U", "O", "Ao", "Vo", "Tc", "Oh", "Us", "Ts", "Tk", "Tq", "As", "Vs", "Os", "Cv", "Am", "Vm", "Xm", "Rm", "Fm"];

    fn var_fields(l: &str) -> Option<(String, String, String)> {
        // "V <name> <xr> <value>"
        let mut it = l.strip_prefix("V ")?.splitn(3, ' ');
        Some((it.next()?.to_string(), it.next()?.to_string(), it.next()?.to_string()))
    }

    /// Does the state `s2` (after evaluating the listing of kind `k`) contain what `s1` lists?
    fn recreated(k: &str, s1: &[String], s2: &[String]) -> Result<(), String> {
        let has = |l: &String| s2.contains(l);
        let vars2: Vec<(String, String, String)> = s2.iter().filter_map(|l| var_fields(l)).collect();
        let find2 = |n: &str| vars2.iter().find(|v| v.0 == n);
        for l in s1 {
            let ok = match (k, l.as_bytes()[0] as char) {
                ("Fr", 'F') => l.split(' ').nth(2) != Some("1") || has(l),
                ("Ac", 'L') => {
                    let name = l.split(' ').nth(1).and_then(dec_str).unwrap_or_default();
                    KEYWORDS.contains(&name.as_str()) || has(l)
                }
                ("A", 'L') | ("T", 'T') | ("U", 'M') | ("Us", 'M') | ("O", 'O') | ("F", 'F') => has(l),
                ("V", 'V') => {
                    let (n, _, _) = var_fields(l).ok_or("snapshot")?;
                    // names containing `=` are skipped by the printer as the code does
                    dec_str(&n).map(|n| n.contains('=')).unwrap_or(true) || has(l)
                }
                ("X", 'V') | ("R", 'V') | ("S", 'V') => {
                    let (n, a, v) = var_fields(l).ok_or("snapshot")?;
                    let name = dec_str(&n).ok_or("snapshot")?;
                    let listed = match k {
                        "X" => a.starts_with('1') && !name.contains('='),
                        "R" => a.ends_with('1') && !name.contains('='),
                        _ => v != "N" && yash_syntax::parser::lex::is_name(&name),
                    };
                    !listed
                        || match find2(&n) {
                            Some((_, a2, v2)) => {
                                *v2 == v
                                    && match k {
                                        "X" => a2.starts_with('1'),
                                        "R" => a2.ends_with('1'),
                                        _ => true,
                                    }
                            }
                            None => false,
                        }
                }
                _ => true,
            };
            if !ok {
                return Err(format!("lost:{}", l.replace(' ', "_")));
            }
        }
        if k == "T" {
            // nothing but the listed traps
            if s2.iter().filter(|l| l.starts_with("T ")).count() != s1.iter().filter(|l| l.starts_with("T ")).count() {
                return Err("extra-trap".into());
            }
        }
        if k == "A" && s2.iter().filter(|l| l.starts_with("L ")).count() != s1.iter().filter(|l| l.starts_with("L ")).count() {
            return Err("extra-alias".into());
        }
        Ok(())
    }

    /// Does the listing `text` of kind `k` recreate the state `s1` once the quoted array names (finding 6:
    /// `'a*'=(…)` is not an assignment) are replaced by identifiers?  Checked: every other entry as usual, the
    /// elements of each such array (under the identifier), its attributes (the attribute line keeps the name).
    fn only_quoted_array_names(k: &str, text: &str, aq: &[(String, String)], s1: &[String]) -> bool {
        let Some(lines) = logical_lines(text) else { return false };
        // only the names that ARE arrays when the listing is taken (a later scalar definition replaces an array)
        let aq: Vec<(String, String)> = aq
            .iter()
            .filter(|(name, _)| s1.iter().filter_map(|l| var_fields(l)).any(|f| f.0 == h(name) && f.2.starts_with("A:")))
            .cloned()
            .collect();
        let aq = &aq[..];
        if aq.is_empty() {
            return false;
        }
        let mut re = String::new();
        let mut replaced = vec![false; aq.len()];
        for l in &lines {
            let mut l = l.clone();
            for (i, (_, q)) in aq.iter().enumerate() {
                if l.starts_with(&format!("{q}=(")) && !replaced[i] {
                    l = format!("QZJXA{i}{}", &l[q.len()..]);
                    replaced[i] = true;
                    break;
                }
            }
            re.push_str(&l);
            re.push('\n');
        }
        re.push_str("snap\n");
        let Ok((_, Some(s2))) = run(&re) else { return false };
        let is_aq = |l: &String| var_fields(l).is_some_and(|(n, _, _)| aq.iter().any(|(name, _)| h(name) == n));
        let rest: Vec<String> = s1.iter().filter(|l| !is_aq(l)).cloned().collect();
        if recreated(k, &rest, &s2).is_err() {
            return false;
        }
        let vars2: Vec<(String, String, String)> = s2.iter().filter_map(|l| var_fields(l)).collect();
        for (i, (name, _)) in aq.iter().enumerate() {
            let Some((_, a, v)) = s1.iter().filter_map(|l| var_fields(l)).find(|f| f.0 == h(name)) else { return false };
            let listed = match k {
                "X" => a.starts_with('1'),
                "R" => a.ends_with('1'),
                _ => true,
            };
            if !listed {
                if replaced[i] {
                    return false;
                }
                continue;
            }
            // the elements, under the identifier
            if !replaced[i] || !vars2.iter().any(|f| f.0 == h(&format!("QZJXA{i}")) && f.2 == v) {
                return false;
            }
            // the attributes, through the attribute line `typeset -x 'a*'` / `export 'a*'` / `readonly 'a*'`
            let want_line = k != "V" || a != "00";
            let got = vars2.iter().find(|f| f.0 == h(name));
            let ok = match (want_line, got) {
                (false, None) => true,
                (true, Some((_, a2, v2))) => {
                    v2 == "N"
                        && match k {
                            "X" => a2.starts_with('1'),
                            "R" => a2.ends_with('1'),
                            _ => *a2 == a,
                        }
                }
                _ => false,
            };
            if !ok {
                return false;
            }
        }
        true
    }

    pub fn run_case(case: &str) {
        let Some(sc) = script_of(case) else {
            emit(case, "bad-case", "-");
            return;
        };
        let mut script = sc.defs.clone();
        script.push_str("snap\n");
        let join = |v: &Vec<String>| v.iter().map(|n| sq(n)).collect::<Vec<_>>().join(" ");
        let var_ops: Vec<String> = sc.vars.iter().filter(|n| !n.contains('=')).cloned().collect();
        let conds: Vec<&str> = CONDS.iter().rev().copied().collect();
        for (k, _, cmd) in KINDS {
            if *k == "O" {
                if sc.portable {
                    script.push_str("set -o portable\n");
                }
                script.push_str("snap\n");
            }
            let cmd = cmd
                .replace("@a", &join(&sc.aliases))
                .replace("@v", &join(&var_ops))
                .replace("@f", &join(&sc.fns))
                .replace("@c", &conds.join(" "));
            script.push_str(&format!("echo {SEP}\n{cmd}\n"));
        }
        script.push_str(&format!("echo {SEP}\n"));
        if std::env::var("C07_DEBUG").is_ok() {
            eprintln!("--- script\n{script}");
        }
        let (out, s1, s1o) = match run_pre(&script, &sc.pre, &sc.ignored) {
            Ok((o, mut v)) if v.len() == 2 => {
                let b = v.pop().unwrap();
                (o, v.pop().unwrap(), b)
            }
            Ok(_) => {
                emit(case, "no-snapshot", "FAIL:definitions-did-not-run");
                return;
            }
            Err(p) => {
                emit(case, &p, &format!("FAIL:{p}"));
                return;
            }
        };
        if std::env::var("C07_DEBUG").is_ok() {
            eprintln!("--- out\n{out}--- snapshot\n{}", s1.join("\n"));
        }
        let marker = format!("{SEP}\n");
        let parts: Vec<&str> = out.split(marker.as_str()).collect();
        if parts.len() != KINDS.len() + 2 {
            emit(case, "listing-sections-missing", "FAIL:listing-sections-missing");
            return;
        }
        let mut texts: Vec<&str> = parts[1..=KINDS.len()].to_vec();
        // `echo "$(trap)"`: the substitution drops the trailing newline and `echo` adds one; nothing listed = one empty line
        let qi = KINDS.iter().position(|k| k.0 == "Tq").unwrap();
        if texts[qi] == "\n" {
            texts[qi] = "";
        }
        let text_of = |key: &str| texts[KINDS.iter().position(|k| k.0 == key).unwrap()];
        // arrays whose name the quoter quotes (known finding 6): (name, quoted spelling)
        let mut aq_names: Vec<(String, String)> = case
            .split_whitespace()
            .skip(1)
            .filter_map(|op| {
                let f: Vec<&str> = op.split(':').collect();
                if matches!(f[0], "aq" | "aQ") { dec_str(f.get(1)?) } else { None }
            })
            .map(|n| {
                let q = yash_quote::quoted(&n).to_string();
                (n, q)
            })
            .collect();
        // a name defined twice is one variable
        aq_names.sort();
        aq_names.dedup();
        // every failure, in the order of KINDS; `known` = explained completely by finding 6
        let mut failures: Vec<(String, bool)> = vec![];
        for (i, (key, k, _)) in KINDS.iter().enumerate() {
            if *k == "-" {
                continue; // not meant to be evaluated (`set -o`)
            }
            let text = texts[i];
            // the script a fresh shell evaluates
            let mut re = String::new();
            let mut not_literal = false;
            match *k {
                "A" => {
                    let Some(lines) = logical_lines(text) else {
                        failures.push((format!("FAIL:{key}:listing-does-not-lex"), false));
                        continue;
                    };
                    for l in &lines {
                        // hostile directory: files that an unquoted bracket pattern in the entry would match
                        if lexer_read_back(l).is_none() {
                            not_literal = true;
                            for cand in bracket_candidates(l) {
                                re.push_str(&format!("echo >{}\n", sq(&cand)));
                            }
                        }
                    }
                    for l in &lines {
                        re.push_str(&format!("alias -- {l}\n"));
                    }
                }
                "Ac" => {
                    // the lines are commands already; a reserved word is printed as the bare word (not an alias line)
                    let Some(lines) = logical_lines(text) else {
                        failures.push((format!("FAIL:{key}:listing-does-not-lex"), false));
                        continue;
                    };
                    for l in lines.iter().filter(|l| l.starts_with("alias ")) {
                        re.push_str(l);
                        re.push('\n');
                    }
                }
                "U" | "Us" => re.push_str(&format!("umask {text}")),
                _ => {
                    re.push_str(text);
                    if matches!(*k, "V" | "X" | "R" | "T" | "O") {
                        if let Some(lines) = logical_lines(text) {
                            for l in lines {
                                let decl = matches!(*k, "V" | "X" | "R");
                                if !l.contains("=(") && !l.starts_with('#') && lexer_read_back_mode(&l, decl).is_none() {
                                    not_literal = true;
                                }
                            }
                        }
                    }
                }
            }
            re.push_str("\nsnap\n");
            let before = if *k == "O" { &s1o } else { &s1 };
            let res = match run(&re) {
                Ok((_, Some(s2))) => recreated(k, before, &s2),
                Ok((_, None)) => Err("listing-did-not-evaluate".into()),
                Err(p) => Err(p),
            };
            if let Err(e) = res {
                // finding 6 explains this failure iff the listing, with nothing changed but the quoted array
                // names replaced by identifiers, recreates everything: the other entries, the elements of
                // these arrays, and their attributes (through the attribute lines)
                let known = matches!(*k, "V" | "X" | "R") && !aq_names.is_empty() && only_quoted_array_names(k, text, &aq_names, before);
                failures.push((format!("FAIL:{key}:{e}"), known));
            } else if not_literal {
                failures.push((format!("FAIL:{key}:not-literal-only"), false));
            }
        }
        // a case keeps the marker `aq:` (the key of the known finding) only if finding 6 explains EVERY failure;
        // otherwise it is reported under `aQ:` (same meaning for the model), which no known finding matches
        let other = failures.iter().find(|f| !f.1).map(|f| f.0.clone());
        let verdict: Option<String> = other.clone().or_else(|| failures.first().map(|f| f.0.clone()));
        let renamed;
        let case = if other.is_some() && !aq_names.is_empty() {
            renamed = case.replace(" aq:", " aQ:");
            renamed.as_str()
        } else {
            case
        };
        let mut obs: Vec<String> = OBS.iter().map(|k| format!("{k}={}", h(text_of(k)))).collect();
        // attribute lines of `typeset -fp` (function bodies are not predicted by the model)
        let fa: String = logical_lines(text_of("F"))
            .unwrap_or_default()
            .iter()
            .filter(|l| l.starts_with("typeset -f"))
            .map(|l| format!("{l}\n"))
            .collect();
        obs.push(format!("Fa={}", h(&fa)));
        emit(case, &obs.join(" "), &verdict.unwrap_or_else(|| "ok".into()));
    }

    // ---------------------------------------------------------------------------------------- generator

    fn ident(r: &mut Rng) -> String {
        let first = *r.pick(&['a', 'b', 'x', '_', 'A']);
        let mut s = first.to_string();
        for _ in 0..r.below(3) {
            s.push(*r.pick(&['a', 'b', '0', '_', 'Z']));
        }
        s
    }

    /// names that look like options or operands needing `--`: leading `-`, `--`, `+`, alone or followed by
    /// letters, blanks, quotes, other specials, non-ASCII
    fn dash_name(r: &mut Rng) -> String {
        let mut s = r.pick(&["-", "-", "--", "-p", "-x", "-r", "-f", "-a", "-o", "+x", "+", "+o", "-\u{e9}", "-\u{3000}"]).to_string();
        if r.chance(1, 2) {
            s.push_str(&weird(r, 2, false));
        }
        if r.chance(1, 6) {
            s.push_str(r.pick(&[" b", "'", "\"", "$x", "*", "~", "#", "\n", ";"]));
        }
        s
    }

    /// names an array assignment `NAME=(…)` can create: the parser (`Assign::try_from`) takes any non-empty run
    /// of unquoted literal characters before the `=`, not only identifiers.  Half identifiers, a third other
    /// names the quoter prints bare (`a.b`, `-a`, `+x`, `]`, `é` …), the rest names the quoter quotes (`a*`,
    /// `a:~`, `a[]`, `{a}` …; marked `aq`: the listed line `'a*'=(…)` is not an assignment — known finding)
    pub fn array_name(r: &mut Rng) -> String {
        match r.below(12) {
            0..=5 => ident(r),
            6..=9 => r
                .pick(&["a.b", "a-b", "-a", "-", "--", "+x", "a,b", "a%", "a/b", "@", "a:b", "]", "a]", "\u{e9}", "a^", "{a", "a}", "1a", "0", "a+", "-x", "a~", "a#"])
                .to_string(),
            _ => r.pick(&["a*", "a?", "*", "a:~", "a[]", "{a}", "[b]", "?"]).to_string(),
        }
    }

    fn weird(r: &mut Rng, max: usize, allow_eq: bool) -> String {
        loop {
            let mut s = random_string(r, CORE, max);
            // one string in eight carries a control character, DEL, a Unicode blank / separator or a bidi mark
            if max >= 3 && r.chance(1, 8) {
                let cs: Vec<char> = s.chars().collect();
                let i = r.below(cs.len() + 1);
                s = cs[..i].iter().chain(std::iter::once(r.pick(EXOTIC))).chain(cs[i..].iter()).collect();
            }
            if allow_eq || !s.contains('=') {
                return s;
            }
        }
    }

    pub fn gen_ident(r: &mut Rng) -> String {
        ident(r)
    }
    pub fn gen_dash_name(r: &mut Rng) -> String {
        dash_name(r)
    }
    pub fn gen_weird(r: &mut Rng, max: usize, allow_eq: bool) -> String {
        weird(r, max, allow_eq)
    }

    pub fn gen_case(r: &mut Rng) -> String {
        let n = 1 + r.below(8);
        let mut ops: Vec<String> = vec![];
        let mut readonly: Vec<String> = vec![];
        let mut ro_fns: Vec<String> = vec![];
        let mut arrays: Vec<String> = vec![];
        // one history in six starts in a shell that inherited ignored signals (they cannot be trapped or reset
        // in a non-interactive shell, and `trap` lists them as `trap -- '' SIG`)
        if r.chance(1, 6) {
            for _ in 0..1 + r.below(2) {
                let c = *r.pick(&CONDS[1..]);
                let op = format!("ti:{c}");
                if !ops.contains(&op) {
                    ops.push(op);
                }
            }
        }
        for _ in 0..n {
            if r.chance(1, 30) {
                // a variable only the API can create: its name contains `=` (the printers skip it)
                let mut cs: Vec<char> = weird(r, 2, true).chars().collect();
                let i = r.below(cs.len() + 1);
                cs.insert(i, '=');
                let name: String = cs.into_iter().collect();
                ops.push(format!("e:{}:{}", h(&name), h(&weird(r, 4, true))));
                continue;
            }
            match r.below(12) {
                0..=3 => {
                    // scalar / valueless variable
                    let name = match r.below(8) {
                        0..=3 => ident(r),
                        4 | 5 => dash_name(r),
                        _ => weird(r, 4, false),
                    };
                    if readonly.contains(&name) || (name.is_empty() && r.chance(3, 4)) {
                        continue;
                    }
                    let plus = if name.starts_with('+') { "p" } else { "" };
                    let attrs = *r.pick(&["-", "-", "x", "r", "xr"]);
                    if attrs.contains('r') {
                        readonly.push(name.clone());
                    }
                    if r.chance(1, 5) {
                        if arrays.contains(&name) {
                            continue;
                        }
                        ops.push(format!("{plus}n:{}:{}", h(&name), attrs));
                    } else {
                        arrays.retain(|a| *a != name);
                        ops.push(format!("{plus}v:{}:{}:{}", h(&name), h(&weird(r, 6, true)), attrs));
                    }
                }
                4 => {
                    let name = array_name(r);
                    if readonly.contains(&name) || KEYWORDS.contains(&name.as_str()) {
                        continue;
                    }
                    let k = r.below(4);
                    let vals: Vec<String> = (0..k).map(|_| h(&weird(r, 4, true))).collect();
                    let attrs = *r.pick(&["-", "-", "x", "r"]);
                    if attrs.contains('r') {
                        readonly.push(name.clone());
                    }
                    arrays.push(name.clone());
                    let kind = if yash_quote::quoted(&name).needs_quoting() { "aq" } else { "a" };
                    ops.push(format!("{kind}:{}:{}:{}", h(&name), if vals.is_empty() { ".".into() } else { vals.join(",") }, attrs));
                }
                5..=7 => {
                    let mut name = match r.below(8) {
                        0..=3 => ident(r),
                        4 => dash_name(r),
                        _ => weird(r, 4, false),
                    };
                    if name.is_empty() || name.contains('=') {
                        continue;
                    }
                    let mut value = weird(r, 8, true);
                    if r.chance(1, 25) {
                        // both parts unquoted, `[` in the name and `]` in the value (known finding, marked `lg`)
                        name = r.pick(&["[", "a[", "[a", "[]a"]).to_string();
                        value = r.pick(&["]", "b]", "a]b", "ab]]"]).to_string();
                    }
                    let bare = |s: &str| !yash_quote::quoted(s).needs_quoting();
                    let glob = bare(&name) && bare(&value) && name.contains('[') && value.contains(']');
                    ops.push(format!("{}:{}:{}", if glob { "lg" } else { "l" }, h(&name), h(&value)));
                }
                8 => {
                    let c = *r.pick(CONDS);
                    if r.chance(1, 3) {
                        // the model checks (name, number) against the table extracted from virtual/signal.rs
                        let n = COND_NUMBERS.iter().find(|p| p.0 == c).map(|p| p.1).unwrap_or(0);
                        ops.push(format!("tn:{c}:{n}:{}", h(&weird(r, 8, true))))
                    } else {
                        ops.push(format!("t:{c}:{}", h(&weird(r, 8, true))))
                    }
                }
                9 => {
                    if r.chance(1, 2) {
                        ops.push(format!("m:{:03o}", r.below(512)))
                    } else {
                        // symbolic mode: clauses of who, operator, permission (or permission copy)
                        let n = 1 + r.below(3);
                        let clauses: Vec<String> = (0..n)
                            .map(|_| {
                                let mut c = r.pick(&["", "u", "g", "o", "a", "ug", "go", "uo", "ugo", "au"]).to_string();
                                for _ in 0..1 + r.below(2) {
                                    c.push(*r.pick(&['=', '+', '-']));
                                    c.push_str(r.pick(&["", "r", "w", "x", "rw", "rx", "wx", "rwx", "X", "rX", "wXs", "s", "u", "g", "o"]));
                                }
                                c
                            })
                            .collect();
                        ops.push(format!("ms:{}", clauses.join(",")))
                    }
                }
                10 => {
                    if r.chance(1, 5) {
                        ops.push(format!("o:portable:{}", r.below(2)))
                    } else {
                        ops.push(format!("o:{}:{}", r.pick(OPTS), r.below(2)))
                    }
                }
                _ => {
                    let name = match r.below(24) {
                        0..=15 => ident(r),
                        16..=18 => dash_name(r),
                        19 => r.pick(KEYWORDS).to_string(),
                        _ => weird(r, 3, true),
                    };
                    if name.is_empty() || ro_fns.contains(&name) {
                        continue;
                    }
                    let ro = r.chance(1, 3);
                    if ro {
                        ro_fns.push(name.clone());
                    }
                    let kind = if name.parse::<yash_syntax::parser::lex::Keyword>().is_ok() {
                        "fk"
                    } else if yash_quote::quoted(&name).needs_quoting() {
                        "fq"
                    } else {
                        "f"
                    };
                    ops.push(format!("{}:{}:{}{}", kind, h(&name), r.below(BODIES.len()), if ro { ":r" } else { "" }));
                }
            }
        }
        format!("L {}", ops.join(" "))
    }

    pub fn run_generated(o: &Opts) {
        let n = if o.thorough() { 20_000 } else { 1_500 };
        let mut rng = Rng::new(o.seed ^ 0xC07_3);
        for k in 0..n {
            let mut r = rng.fork();
            if k % o.shard.1 != o.shard.0 {
                continue;
            }
            let case = gen_case(&mut r);
            if case == "L " {
                continue;
            }
            run_case(&case);
        }
    }
}

// ------------------------------------------------------------------------------------------------
// alphabets

const CORE: &[char] = &[
    '\'', '"', '\\', '$', '`', ' ', '\n', '\t', ';', '&', '|', '<', '(', '#', '~', ':', '=', '*', '[', ']',
    '{', '}', 'a', '\u{3000}',
];
const EXTRA: &[char] = &[
    ')', '>', '?', '!', '%', '^', '-', ',', '/', '.', '+', '@', 'b', '0', '7', '_', '\u{a0}', '\u{85}',
    '\r', '\u{e9}',
];
/// characters that are invalid or odd "in some other way": C0 controls (no NUL), DEL, C1 NEL, the Unicode
/// blanks / line separators of `char::is_whitespace`, bidi and zero-width marks, a combining mark, an astral character
const EXOTIC: &[char] = &[
    '\u{1}', '\u{7}', '\u{8}', '\u{b}', '\u{c}', '\u{e}', '\u{1b}', '\u{1c}', '\u{1f}', '\u{7f}', '\u{85}', '\u{a0}', '\u{ad}',
    '\u{1680}', '\u{2000}', '\u{2003}', '\u{200a}', '\u{200b}', '\u{200e}', '\u{2028}', '\u{2029}', '\u{202e}', '\u{202f}', '\u{205f}',
    '\u{2066}', '\u{3000}', '\u{feff}', '\u{301}', '\u{1f600}', '\u{fffd}',
];
/// strings that are special as a whole word
const EXOTIC_WORDS: &[&str] = &[
    "if", "then", "else", "elif", "fi", "do", "done", "case", "esac", "while", "until", "for", "in", "function", "select",
    "namespace", "{", "}", "!", "[[", "]]", "{}", "{a}", "}{", "~", "~a", "~/", "~a/b", "a~", "#", "#a", "a#", "##", "-", "--",
    "-n", "+", "=", "a=", "=a", "[", "]", "[]", "[a]", "*", "?", ":", ":~", "a:~", "~:~", "%", "@", "0", "1>", "\\", "''", "\"\"",
];
/// alphabet of the raw-text (`w`) leg: everything the lexer treats specially in a word
const LEXA: &[char] = &[
    '\'', '"', '\\', '$', '`', ' ', '\n', ';', '#', '~', ':', '/', '*', '[', ']', 'a', '{', '(', '\u{3000}',
];

fn full() -> Vec<char> {
    CORE.iter().chain(EXTRA.iter()).copied().collect()
}

/// all strings over `alpha` of length 0..=max, shortest first
fn enumerate(alpha: &[char], max: usize, mut f: impl FnMut(String)) {
    let n = alpha.len();
    for len in 0..=max {
        let total = n.pow(len as u32);
        for mut num in 0..total {
            let mut cs = vec![' '; len];
            for k in (0..len).rev() {
                cs[k] = alpha[num % n];
                num /= n;
            }
            f(cs.into_iter().collect());
        }
    }
}

fn random_string(r: &mut Rng, alpha: &[char], max: usize) -> String {
    let len = r.below(max + 1);
    let mode = r.below(4);
    (0..len)
        .map(|_| match mode {
            // mostly letters with a few specials: long bare runs, `:~`, `{…}`, `[…]`
            0 if !r.chance(1, 4) => *r.pick(&['a', 'b', ':', '~', '{', '}', '[', ']', '/', '-', '#']),
            // arbitrary scalar values now and then
            1 if r.chance(1, 8) => char::from_u32(r.below(0x3100) as u32).unwrap_or('x'),
            _ => *r.pick(alpha),
        })
        .collect()
}

// ------------------------------------------------------------------------------------------------
// q leg: real quoter + real shell

fn show_back(f: &Result<Option<Vec<String>>, String>) -> String {
    match f {
        Ok(f) => show_fields(f),
        Err(p) => p.clone(),
    }
}

fn show_fields(f: &Option<Vec<String>>) -> String {
    match f {
        None => "none".into(),
        Some(v) => format!("some:{}", v.iter().map(|s| enc_str(s)).collect::<Vec<_>>().join(",")),
    }
}

/// Parses one `probe` output line `<status>:<hex>,<hex>…` into fields.
fn parse_probe_line(line: &str) -> Option<Vec<String>> {
    let (_, rest) = line.split_once(':')?;
    if rest.is_empty() {
        return Some(vec![]);
    }
    rest.split(',').map(dec_str).collect()
}

/// Runs `probe <arg text>` for every text, many per shell; `None` = the shell did not read the text as
/// the arguments of that one command; `Err` = the shell panicked.
fn shell_read_back(texts: &[String]) -> Vec<Result<Option<Vec<String>>, String>> {
    let mut out = Vec::with_capacity(texts.len());
    for chunk in texts.chunks(200) {
        let mut script = String::new();
        for (i, t) in chunk.iter().enumerate() {
            script.push_str(&format!("probe {i} {t}\n"));
        }
        let (text, stuck) = match catch_unwind(AssertUnwindSafe(|| run_script(&script))) {
            Ok(o) => (o.stdout_str(), o.stuck),
            Err(_) => (String::new(), true),
        };
        let lines: Vec<&str> = text.lines().collect();
        let mut ok = lines.len() == chunk.len() && !stuck;
        let mut res = vec![];
        if ok {
            for (i, l) in lines.iter().enumerate() {
                match parse_probe_line(l) {
                    Some(mut f) if !f.is_empty() && f[0] == i.to_string() => {
                        f.remove(0);
                        res.push(Ok(Some(f)));
                    }
                    _ => {
                        ok = false;
                        break;
                    }
                }
            }
        }
        if ok {
            out.extend(res);
        } else {
            // something in this batch upset the shell: one shell per text
            for t in chunk {
                let mut fields = None;
                let r = guarded(|| {
                    let o = run_script(&format!("probe {t}\n"));
                    let text = o.stdout_str();
                    let lines: Vec<&str> = text.lines().collect();
                    if lines.len() == 1 && !o.stuck {
                        fields = parse_probe_line(lines[0]);
                    }
                    String::new()
                });
                out.push(if r.starts_with("PANIC") { Err(r) } else { Ok(fields) });
            }
        }
    }
    out
}

fn run_q(strings: &[String]) {
    // `quote` (the `Cow` entry point) gives the text; `quoted` (the `Display` entry point) must agree
    let quoted: Vec<String> = strings.iter().map(|s| yash_quote::quote(s).into_owned()).collect();
    let back = shell_read_back(&quoted);
    for ((s, q), f) in strings.iter().zip(&quoted).zip(&back) {
        let d = yash_quote::quoted(s);
        let borrowed = matches!(yash_quote::quote(s), std::borrow::Cow::Borrowed(_));
        let oracle = if d.to_string() != *q || d.as_raw() != s.as_str() || borrowed == d.needs_quoting() {
            "FAIL:quote-and-quoted-disagree".to_string()
        } else {
            match f {
                Ok(Some(v)) if v.len() == 1 && v[0] == *s => "ok".to_string(),
                _ => "FAIL:readback".to_string(),
            }
        };
        emit(&format!("q {}", enc_str(s)), &format!("{} {}", enc_str(q), show_back(f)), &oracle);
    }
}

// ------------------------------------------------------------------------------------------------
// w leg: real lexer on raw text

/// characters a literal-only unit denotes, `None` if the unit is anything else
fn unit_chars(u: &WordUnit) -> Option<String> {
    match u {
        WordUnit::Unquoted(TextUnit::Literal(c)) | WordUnit::Unquoted(TextUnit::Backslashed(c)) => Some(c.to_string()),
        WordUnit::SingleQuote(s) => Some(s.clone()),
        WordUnit::DoubleQuote(t) => {
            let mut s = String::new();
            for u in &t.0 {
                match u {
                    TextUnit::Literal(c) | TextUnit::Backslashed(c) => s.push(*c),
                    _ => return None,
                }
            }
            Some(s)
        }
        _ => None,
    }
}

fn is_lit(u: &WordUnit, c: char) -> bool {
    *u == WordUnit::Unquoted(TextUnit::Literal(c))
}

/// field of a literal-only word; `None` if it has an expansion, a tilde expansion (front or after a
/// colon, as `parse_tilde_everywhere` decides) or an unquoted pattern character
fn field_of(word: &Word) -> Option<String> {
    let mut w = word.clone();
    w.parse_tilde_everywhere();
    let parts: Vec<String> = w.units.iter().map(unit_chars).collect::<Option<_>>()?;
    if w.units.iter().any(|u| is_lit(u, '*') || is_lit(u, '?')) {
        return None;
    }
    for (i, u) in w.units.iter().enumerate() {
        // a quoted `]` never closes a bracket expression
        if is_lit(u, '[') && w.units[i + 1..].iter().any(|u| is_lit(u, ']')) {
            return None;
        }
    }
    Some(parts.concat())
}

/// `determine_expansion_mode` of yash-syntax/src/parser/simple_command.rs for an argument of a declaration
/// utility: a word `name=value` whose name part consists of unquoted literals is expanded in `Single` mode
/// (no pathname expansion) with tilde expansions parsed after the `=` and after each later colon.
fn field_of_decl(word: &Word) -> Option<String> {
    let eq = word.units.iter().position(|u| is_lit(u, '='));
    if let Some(eq) = eq {
        let name_literal = eq > 0
            && word.units[..eq].iter().all(|u| matches!(u, WordUnit::Unquoted(TextUnit::Literal(_))));
        if name_literal {
            let mut w = word.clone();
            w.parse_tilde_everywhere_after(eq + 1);
            let parts: Vec<String> = w.units.iter().map(unit_chars).collect::<Option<_>>()?;
            return Some(parts.concat());
        }
    }
    field_of(word)
}

/// What the parser's token loop does for the arguments of a simple command:
/// `skip_blanks_and_comment` then `token` — with a comment or an operator reported as `None`.
fn lexer_read_back(text: &str) -> Option<Vec<String>> {
    lexer_read_back_mode(text, false)
}

/// `decl`: the first word is the name of a declaration utility (`typeset`, `export`, `readonly`)
fn lexer_read_back_mode(text: &str, decl: bool) -> Option<Vec<String>> {
    let mut lexer = Lexer::with_code(text);
    let mut fields = vec![];
    loop {
        lexer.skip_blanks().now_or_never()?.ok()?;
        match lexer.peek_char().now_or_never()?.ok()? {
            None => break,
            Some('#') => return None,
            Some(_) => {}
        }
        let token = lexer.token().now_or_never()?.ok()?;
        match token.id {
            TokenId::Token(_) if decl && !fields.is_empty() => fields.push(field_of_decl(&token.word)?),
            TokenId::Token(_) => fields.push(field_of(&token.word)?),
            TokenId::EndOfInput => break,
            _ => return None,
        }
    }
    Some(fields)
}

fn run_w(texts: &[String]) {
    let mut masked = 0usize;
    let obs: Vec<String> = texts
        .iter()
        .map(|t| {
            let o = guarded(|| show_fields(&lexer_read_back(t)));
            // Known defect outside this property (C06, parser totality): `${` at the end of input makes
            // `Lexer::braced_param` panic (`peek_char().await?.unwrap()`).  The text is not literal-only
            // either way, so the panic is reported as `none` here; any other panic stays `PANIC`.
            if o.starts_with("PANIC") && t.replace("\\\n", "").contains("${") {
                masked += 1;
                "none".to_string()
            } else {
                o
            }
        })
        .collect();
    if masked > 0 {
        eprintln!("c07: {masked} raw texts containing `${{` made the real lexer panic (reported as `none`; see notes/C07.md)");
    }
    // literal-only texts also go through the whole shell (not those ending in a backslash: in a script
    // that would continue the line)
    let idx: Vec<usize> = (0..texts.len())
        .filter(|&i| obs[i].starts_with("some:") && !texts[i].ends_with('\\'))
        .collect();
    let sel: Vec<String> = idx.iter().map(|&i| texts[i].clone()).collect();
    let back = shell_read_back(&sel);
    let mut oracle = vec!["-".to_string(); texts.len()];
    for (k, &i) in idx.iter().enumerate() {
        oracle[i] = if show_back(&back[k]) == obs[i] { "ok".into() } else { format!("FAIL:shell={}", show_back(&back[k])) };
    }
    for (i, t) in texts.iter().enumerate() {
        emit(&format!("w {}", enc_str(t)), &obs[i], &oracle[i]);
    }
}

/// `d` leg: like `w`, the text being the arguments of the declaration utility `typeset`
fn run_d(texts: &[String]) {
    for t in texts {
        let o = guarded(|| {
            let f = lexer_read_back_mode(&format!("typeset {t}"), true).map(|mut f| {
                f.remove(0);
                f
            });
            show_fields(&f)
        });
        let o = if o.starts_with("PANIC") && t.replace("\\\n", "").contains("${") { "none".to_string() } else { o };
        emit(&format!("d {}", enc_str(t)), &o, "-");
    }
}

/// `v` leg: `Value::quote` (yash-env/src/variable/value.rs `QuotedValue`) through the API.
/// case `v s:<hex>` (scalar) or `v a:<hex>,<hex>…` / `v a:.` (array); observation: hex of the quoted text.
fn run_v(case: &str, spec: &str) {
    use std::borrow::Cow;
    use yash_env::variable::Value;
    let value = match spec.split_once(':') {
        Some(("s", t)) => dec_str(t).map(Value::scalar),
        Some(("a", ".")) => Some(Value::array(Vec::<String>::new())),
        Some(("a", t)) => t.split(',').map(dec_str).collect::<Option<Vec<String>>>().map(Value::from),
        _ => None,
    };
    let Some(value) = value else {
        emit(case, "bad-case", "-");
        return;
    };
    let mut oracle = "ok".to_string();
    let obs = guarded(|| {
        let q = value.quote();
        let text = q.to_string();
        let cow: Cow<str> = q.into();
        if *cow != *text || q.as_ref() != &value {
            oracle = "FAIL:cow-and-display-disagree".into();
        }
        enc_str(&text)
    });
    emit(case, &obs, &oracle);
}

// ------------------------------------------------------------------------------------------------
// s leg: a whole text read as newline-separated simple commands by the real lexer + parser

mod script {
    use super::*;
    use std::cell::RefCell;
    use std::rc::Rc;
    use yash_syntax::parser::Parser;
    use yash_syntax::parser::lex::Operator;
    use yash_syntax::syntax::{Command, ExpansionMode, Value};
    use yverif::shell::{Config, run_with};

    /// characters of a word all of whose units are literal / quoted (no expansion, no tilde unit)
    fn plain(word: &Word) -> Option<String> {
        Some(word.units.iter().map(unit_chars).collect::<Option<Vec<String>>>()?.concat())
    }

    /// only newline, `(` and `)` operator tokens (everything else is outside the model)
    fn tokens_in_scope(text: &str) -> Option<()> {
        let mut lexer = Lexer::with_code(text);
        loop {
            lexer.skip_blanks_and_comment().now_or_never()?.ok()?;
            let t = lexer.token().now_or_never()?.ok()?;
            match t.id {
                TokenId::Operator(Operator::Newline | Operator::OpenParen | Operator::CloseParen) => {}
                TokenId::Token(_) => {}
                TokenId::EndOfInput => return Some(()),
                _ => return None,
            }
        }
    }

    fn read(text: &str, glossary: &dyn yash_syntax::decl_util::Glossary) -> Option<Vec<String>> {
        tokens_in_scope(text)?;
        let mut lexer = Lexer::with_code(text);
        let mut parser = Parser::config().declaration_utilities(glossary).input(&mut lexer);
        let mut cmds = vec![];
        loop {
            let Some(list) = parser.command_line().now_or_never()?.ok()? else { break };
            for item in &list.0 {
                if item.async_flag.is_some() || !item.and_or.rest.is_empty() {
                    return None;
                }
                let p = &item.and_or.first;
                if p.negation || p.commands.len() != 1 {
                    return None;
                }
                let Command::Simple(sc) = &*p.commands[0] else { return None };
                if !sc.redirs.is_empty() {
                    return None;
                }
                let mut parts = vec![];
                for a in &sc.assigns {
                    match &a.value {
                        Value::Scalar(w) => parts.push(format!("s{}={}", enc_str(&a.name), enc_str(&plain(w)?))),
                        Value::Array(ws) => {
                            let vs: Vec<String> = ws.iter().map(|w| field_of(w).map(|f| enc_str(&f))).collect::<Option<_>>()?;
                            parts.push(format!("a{}={}", enc_str(&a.name), if vs.is_empty() { ".".to_string() } else { vs.join("+") }));
                        }
                    }
                }
                for (w, mode) in &sc.words {
                    let f = match mode {
                        ExpansionMode::Multiple => field_of(w)?,
                        ExpansionMode::Single => plain(w)?,
                    };
                    parts.push(format!("w{}", enc_str(&f)));
                }
                cmds.push(parts.join(","));
            }
        }
        Some(cmds)
    }

    /// observation per text; all texts are read inside one configured environment (its built-ins are the glossary)
    pub fn observe(texts: &[String]) -> Vec<String> {
        let out: Rc<RefCell<Vec<String>>> = Rc::new(RefCell::new(vec![]));
        for chunk in texts.chunks(2000) {
            let chunk: Vec<String> = chunk.to_vec();
            let n = chunk.len();
            let sink = Rc::clone(&out);
            let before = out.borrow().len();
            run_with(
                Config::new(":\n"),
                move |env, _| {
                    for t in &chunk {
                        let o = guarded(|| match read(t, &*env) {
                            None => "none".to_string(),
                            Some(c) => format!("some:{}", c.join(";")),
                        });
                        // known defect outside this property (C06): `${` at the end of input panics
                        let o = if o.starts_with("PANIC") && t.replace("\\\n", "").contains("${") { "none".to_string() } else { o };
                        sink.borrow_mut().push(o);
                    }
                },
                |_, _| (),
            );
            while out.borrow().len() < before + n {
                out.borrow_mut().push("no-environment".to_string());
            }
        }
        Rc::try_unwrap(out).map(|c| c.into_inner()).unwrap_or_default()
    }

    const PIECES: &[&str] = &[
        "typeset", "export", "readonly", "command", "alias", "trap", "set", "if", "}", "!", "a", "b=", "a=", "=", "(", ")", "\n",
        "\n", " ", " ", "  ", "#", "'x y'", "\"q\"", "\\\n", "\\", "~", ":", "[", "]", "*", ";", "$", "x", "-x", "--", "'", "\"",
        "\t", "1", "a=b", "c:~d", "\u{3000}", "a=(", "=(", "+o", "vi", "''", "&", "{", "a b", "\\ ", "\\=",
    ];

    /// a line shaped like the listings, built with the REAL quoter; second component: the observation the
    /// property demands (`None`: no demand, e.g. the known cross-bracket alias entries)
    fn listing_line(r: &mut Rng) -> (String, Option<String>) {
        let q = |s: &str| yash_quote::quoted(s).to_string();
        let name = |r: &mut Rng| match r.below(6) {
            0 | 1 => listing::gen_ident(r),
            2 => listing::gen_dash_name(r),
            _ => listing::gen_weird(r, 4, false),
        };
        let w = |s: &str| format!("w{}", enc_str(s));
        match r.below(9) {
            0..=2 => {
                let b = *r.pick(&["typeset", "export", "readonly"]);
                let n = name(r);
                let v = listing::gen_weird(r, 6, true);
                let mut line = b.to_string();
                let mut exp = vec![w(b)];
                if b == "typeset" {
                    for o in ["-r", "-x"] {
                        if r.chance(1, 3) {
                            line.push_str(&format!(" {o}"));
                            exp.push(w(o));
                        }
                    }
                }
                if n.starts_with(['-', '+']) || r.chance(1, 4) {
                    line.push_str(" --");
                    exp.push(w("--"));
                }
                if r.chance(1, 5) {
                    line.push_str(&format!(" {}", q(&n)));
                    exp.push(w(&n));
                } else {
                    line.push_str(&format!(" {}={}", q(&n), q(&v)));
                    exp.push(w(&format!("{n}={v}")));
                }
                (line, Some(exp.join(",")))
            }
            3 => {
                let n = listing::gen_ident(r);
                let v = listing::gen_weird(r, 6, true);
                (format!("{n}={}", q(&v)), Some(format!("s{}={}", enc_str(&n), enc_str(&v))))
            }
            4 => {
                let n = listing::array_name(r);
                let k = r.below(4);
                let mut vs: Vec<String> = (0..k).map(|_| listing::gen_weird(r, 4, true)).collect();
                if r.chance(1, 4) {
                    vs.push(r.pick(&["if", "}", "!", "done", "in"]).to_string());
                }
                // the name is printed through the quoter, as `print_one` does
                let text = format!("{}=({})", q(&n), vs.iter().map(|v| q(v)).collect::<Vec<_>>().join(" "));
                let e = if vs.is_empty() { ".".to_string() } else { vs.iter().map(|v| enc_str(v)).collect::<Vec<_>>().join("+") };
                // a quoted name is not an assignment (known finding): no demand, model and parser must still agree
                let demand = (!yash_quote::quoted(&n).needs_quoting()).then(|| format!("a{}={}", enc_str(&n), e));
                (text, demand)
            }
            5 => {
                let a = listing::gen_weird(r, 8, true);
                let c = *r.pick(listing::CONDS);
                (format!("trap -- {} {c}", q(&a)), Some([w("trap"), w("--"), w(&a), w(c)].join(",")))
            }
            6 => {
                let o = *r.pick(listing::OPTS);
                let f = *r.pick(&["-o", "+o"]);
                if r.chance(1, 3) { (format!("#set {f} {o}"), Some(String::new())) } else { (format!("set {f} {o}"), Some([w("set"), w(f), w(o)].join(","))) }
            }
            7 => {
                let n = name(r);
                let v = listing::gen_weird(r, 8, true);
                let bare = |s: &str| !yash_quote::quoted(s).needs_quoting();
                let cross = bare(&n) && bare(&v) && n.contains('[') && v.contains(']');
                let exp = [w("alias"), w("--"), w(&format!("{n}={v}"))].join(",");
                (format!("alias -- {}={}", q(&n), q(&v)), if cross { None } else { Some(exp) })
            }
            _ => {
                let n = name(r);
                let sep = if n.starts_with(['-', '+']) { "-- " } else { "" };
                (format!("typeset -fr {sep}{}", q(&n)), Some([w("typeset"), w("-fr")].into_iter().chain((!sep.is_empty()).then(|| w("--"))).chain([w(&n)]).collect::<Vec<_>>().join(",")))
            }
        }
    }

    /// (text, demanded observation)
    pub fn gen_text(r: &mut Rng) -> (String, Option<String>) {
        if r.chance(1, 2) {
            let n = 1 + r.below(9);
            let t: String = (0..n).map(|_| *r.pick(PIECES)).collect();
            (t, None)
        } else {
            let n = 1 + r.below(5);
            let mut text = String::new();
            let mut exp: Option<Vec<String>> = Some(vec![]);
            for _ in 0..n {
                let (l, e) = listing_line(r);
                text.push_str(&l);
                text.push('\n');
                match (e, exp.as_mut()) {
                    (Some(e), Some(v)) => {
                        if !e.is_empty() {
                            v.push(e)
                        }
                    }
                    _ => exp = None,
                }
            }
            (text, exp.map(|v| format!("some:{}", v.join(";"))))
        }
    }

    pub fn run(cases: &[(String, Option<String>)]) {
        let texts: Vec<String> = cases.iter().map(|c| c.0.clone()).collect();
        let obs = observe(&texts);
        for ((t, want), o) in cases.iter().zip(&obs) {
            let oracle = match want {
                None => "-".to_string(),
                Some(w) if w == o => "ok".to_string(),
                Some(_) => "FAIL:listing-shaped-text-does-not-read-back".to_string(),
            };
            emit(&format!("s {}", enc_str(t)), o, &oracle);
        }
    }
}

// ------------------------------------------------------------------------------------------------
// c leg

fn run_c(cp: u32) {
    let case = format!("c {cp}");
    match char::from_u32(cp) {
        None => emit(&case, "bad-case", "-"),
        Some(c) => {
            let s = c.to_string();
            let obs = format!(
                "ws={} needs={} blank={} delim={}",
                c.is_whitespace() as u8,
                yash_quote::quoted(&s).needs_quoting() as u8,
                is_blank(c) as u8,
                is_token_delimiter_char(c) as u8
            );
            emit(&case, &obs, "-");
        }
    }
}

// ------------------------------------------------------------------------------------------------

fn run_fixed(case: &str) {
    let w: Vec<&str> = case.split_whitespace().collect();
    match w.as_slice() {
        ["q", t] => match dec_str(t) {
            Some(s) => run_q(&[s]),
            None => emit(case, "bad-case", "-"),
        },
        ["w", t] => match dec_str(t) {
            Some(s) => run_w(&[s]),
            None => emit(case, "bad-case", "-"),
        },
        ["v", t] => run_v(case, t),
        ["d", t] => match dec_str(t) {
            Some(s) => run_d(&[s]),
            None => emit(case, "bad-case", "-"),
        },
        ["s", t] => match dec_str(t) {
            Some(s) => script::run(&[(s, None)]),
            None => emit(case, "bad-case", "-"),
        },
        ["c", t] => match t.parse() {
            Ok(n) => run_c(n),
            Err(_) => emit(case, "bad-case", "-"),
        },
        ["L", ..] => listing::run_case(case),
        _ => emit(case, "bad-case", "-"),
    }
}

fn main() {
    quiet_panics();
    let o = Opts::from_args();
    let (fixed, only) = o.fixed_cases();
    for c in &fixed {
        run_fixed(c);
    }
    if only {
        return;
    }
    let thorough = o.thorough();
    let mine = |k: usize| k % o.shard.1 == o.shard.0;
    let full = full();

    // ---- q leg: exhaustive small strings, then random long ones
    let mut strings: Vec<String> = vec![];
    let mut k = 0usize;
    let mut seen = std::collections::HashSet::new();
    let mut push = |s: String, strings: &mut Vec<String>| {
        if seen.insert(s.clone()) {
            if mine(k) {
                strings.push(s);
            }
            k += 1;
        }
    };
    enumerate(&full, 3, |s| push(s, &mut strings));
    enumerate(CORE, if thorough { 4 } else { 3 }, |s| push(s, &mut strings));
    let mut rng = Rng::new(o.seed ^ 0xC07);
    for _ in 0..(if thorough { 100_000 } else { 5_000 }) {
        let mut r = rng.fork();
        let alpha: &[char] = if r.chance(1, 2) { CORE } else { &full };
        push(random_string(&mut r, alpha, 40), &mut strings);
    }
    // whole strings that are special as a WORD: reserved words, a lone / leading `~` `#`, braces, `!`, option-like
    for w in EXOTIC_WORDS {
        push(w.to_string(), &mut strings);
    }
    // control characters (no NUL), DEL, NEL, line / paragraph separator, bidi and zero-width marks, every
    // Unicode blank (`is_blank` is `char::is_whitespace` minus newline): alone, doubled, and mixed with core characters
    for &c in EXOTIC {
        push(c.to_string(), &mut strings);
        for &d in &['a', '\'', ' ', '~', '#', '='] {
            push(format!("{c}{d}"), &mut strings);
            push(format!("{d}{c}"), &mut strings);
        }
    }
    let mut rng = Rng::new(o.seed ^ 0xC07_7);
    let mixed: Vec<char> = EXOTIC.iter().chain(CORE.iter()).copied().collect();
    for _ in 0..(if thorough { 40_000 } else { 2_000 }) {
        let mut r = rng.fork();
        let alpha: &[char] = if r.chance(1, 2) { EXOTIC } else { &mixed };
        push(random_string(&mut r, alpha, 12), &mut strings);
    }
    run_q(&strings);

    // ---- w leg
    let mut texts: Vec<String> = vec![];
    let mut k = 0usize;
    enumerate(LEXA, if thorough { 4 } else { 3 }, |s| {
        if mine(k) {
            texts.push(s);
        }
        k += 1;
    });
    let mut rng = Rng::new(o.seed ^ 0xC07_2);
    for _ in 0..(if thorough { 100_000 } else { 3_000 }) {
        let mut r = rng.fork();
        let s = random_string(&mut r, LEXA, 14);
        if mine(k) {
            texts.push(s);
        }
        k += 1;
    }
    run_w(&texts);

    // ---- d leg: arguments of a declaration utility
    let mut texts: Vec<String> = vec![];
    let mut rng = Rng::new(o.seed ^ 0xC07_4);
    const DECLA: &[char] = &['=', '=', '~', ':', '[', ']', '*', '\'', '"', '\\', ' ', 'a', '/', '$'];
    for k in 0..(if thorough { 100_000 } else { 4_000 }) {
        let mut r = rng.fork();
        let s = random_string(&mut r, DECLA, 10);
        if mine(k) {
            texts.push(s);
        }
    }
    run_d(&texts);

    // ---- v leg: `Value::quote` on scalars and arrays
    let mut rng = Rng::new(o.seed ^ 0xC07_5);
    for k in 0..(if thorough { 20_000 } else { 1_500 }) {
        let mut r = rng.fork();
        let case = if r.chance(1, 4) {
            format!("v s:{}", enc_str(&random_string(&mut r, CORE, 6)))
        } else {
            let n = r.below(5);
            if n == 0 {
                "v a:.".to_string()
            } else {
                let vs: Vec<String> = (0..n).map(|_| enc_str(&random_string(&mut r, CORE, 4))).collect();
                format!("v a:{}", vs.join(","))
            }
        };
        if mine(k) {
            run_v(&case, case.split_once(' ').unwrap().1);
        }
    }

    // ---- s leg: whole texts through the real lexer and parser
    let mut rng = Rng::new(o.seed ^ 0xC07_6);
    let mut cases = vec![];
    for k in 0..(if thorough { 200_000 } else { 8_000 }) {
        let mut r = rng.fork();
        let c = script::gen_text(&mut r);
        if mine(k) {
            cases.push(c);
        }
    }
    script::run(&cases);

    // ---- c leg: every code point in thorough tier
    let top: u32 = if thorough { 0x110000 } else { 0x3100 };
    for cp in 0..top {
        if mine(cp as usize) && char::from_u32(cp).is_some() {
            run_c(cp);
        }
    }

    // ---- listing leg
    listing::run_generated(&o);
}
