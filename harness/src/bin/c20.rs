//! C20 — built-in argument syntax.
//!
//! Case lines (see /verif/lean/YashModel/Args/Main.lean):
//!   `P <mode> <specs> <arg>*`                     one vector against the real `parse_arguments`
//!   `S <cmd> <mode> <specs> <setup> <probe> <arg>* ( | <arg>* )*`  equivalent spellings of one invocation
//!   `M <cmd> <mode> <specs> <setup> <probe> <arg>*`                a malformed invocation
//!   `T <portable> <names> <arg>*` / `H <names> <argv0> <arg>*` / `K <portable> <sigterm> <names> <arg>*`
//!       the bespoke parsers set/syntax.rs, yash-cli startup/args.rs, kill/syntax.rs called directly; <names> = the
//!       answers of yash_env::option / Signals::str2sig the parser can ask for on this vector (a parameter of the model)
//!   `B <portable> <cmd> <setup> <probe> <arg>* ( | <arg>* )*`  hand-written equivalent spellings of an invocation of a built-in with a
//!       bespoke parser (set, kill, typeset +x, pwd, true …), shell level only (oracle: identical stdout/status/stderr-emptiness/probe)
//!   `E <portable> <cmd> <setup> <probe> <arg>*`  an invocation the built-in must reject (syntax or operand error): diagnostic,
//!       non-zero status, nothing on stdout, state probe unchanged
//!   `J <step> ( ; <step> )*`  getopts sessions in ONE shell environment: `S <i|a|l> <optstring> <limit|*> <arg>*` (spelling:
//!       implicit positional parameters | explicit "$@" | literal vector; run to completion or for <limit> calls), `R <value>` (OPTIND=value)
//!   `G <optstring> <arg>*`                        `while getopts optstring v arg…` run to the end in a virtual shell
//!   `Y <ln><p> <table> <arg>*`                    typeset/syntax.rs `parse` + `interpret` called directly (tables `@typeset`,
//!       `@export`, `@readonly` = the real constants, or an explicit `<short>:<long>:<attr>` list)
//!   `Q <builtin> <portable> <arg>*`               cd / pwd / unset / unalias `syntax::parse` (parse_arguments + the built-in's own checks)
//!   `U <names> <init> <params0> <arg>*`           `set arg…` run in a virtual shell whose option states are <init> (`name.bit;…`, all
//!       options) and whose positional parameters are <params0> (`_` or comma-separated hex): observation = exit status, diagnostic,
//!       output, the options whose state changed, the positional parameters afterwards (model: set.rs `main` / `modify`)
//!
//! Observation of `P`: options (spec, spelling, argument) + operands, or the error class with the
//! option character / spec(s) it names.  Oracle of `P` (independent of the Lean model): the clauses of
//! the property statement evaluated on the real parser — every argument in option position is
//! rewritten into its equivalent spelling (group -> separate, attached -> next, abbreviation -> full
//! name, `=arg` -> next) and must parse to the same options/operands; `--` and the first operand must
//! end option parsing; unknown / ambiguous / missing argument / unexpected `=arg` must be errors.
//!
//! `S`/`M` run real built-ins in a fresh virtual shell (`yverif::shell`): observation = how the real
//! `parse_arguments` classifies the spellings with the built-in's table (read from the translator
//! output, the Rust constants being private); oracle = all spellings give identical stdout, exit
//! status, stderr-emptiness and state probe (`S`), or a diagnostic, non-zero status, nothing on
//! stdout and an unchanged state probe (`M`).

use std::collections::BTreeSet;
use yash_builtin::common::syntax::{
    Mode, OptionArgumentSpec, OptionSpec, OptionSpelling, ParseError, parse_arguments,
};
use yash_env::semantics::Field;
use yverif::proto::{Opts, dec_str, emit, enc_str, guarded, quiet_panics};
use yverif::rng::Rng;
use yverif::shell;

#[derive(Clone, Debug, PartialEq, Eq)]
struct SpecD {
    short: Option<char>,
    long: Option<String>,
    arg: bool,
    ext: bool,
}

fn opt_str(t: &str) -> Option<Option<String>> {
    if t == "~" { Some(None) } else { dec_str(t).map(Some) }
}

fn parse_spec(t: &str) -> Option<SpecD> {
    let f: Vec<&str> = t.split(':').collect();
    if f.len() != 4 {
        return None;
    }
    let short = match opt_str(f[0])? {
        None => None,
        Some(s) => {
            let mut cs = s.chars();
            let c = cs.next()?;
            if cs.next().is_some() {
                return None;
            }
            Some(c)
        }
    };
    let bit = |s: &str| match s {
        "0" => Some(false),
        "1" => Some(true),
        _ => None,
    };
    Some(SpecD { short, long: opt_str(f[1])?, arg: bit(f[2])?, ext: bit(f[3])? })
}

fn parse_specs(t: &str) -> Option<Vec<SpecD>> {
    if t == "_" {
        return Some(vec![]);
    }
    t.split(',').map(parse_spec).collect()
}

fn show_specd(s: &SpecD) -> String {
    format!(
        "{}:{}:{}:{}",
        s.short.map(|c| enc_str(&c.to_string())).unwrap_or_else(|| "~".into()),
        s.long.as_deref().map(enc_str).unwrap_or_else(|| "~".into()),
        s.arg as u8,
        s.ext as u8
    )
}

fn show_specs(specs: &[SpecD]) -> String {
    if specs.is_empty() {
        "_".into()
    } else {
        specs.iter().map(show_specd).collect::<Vec<_>>().join(",")
    }
}

fn real_specs(specs: &[SpecD]) -> Vec<OptionSpec<'_>> {
    specs
        .iter()
        .map(|d| {
            let mut s = OptionSpec::new();
            if let Some(c) = d.short {
                s = s.short(c);
            }
            let mut s: OptionSpec<'_> = s;
            if let Some(l) = &d.long {
                s.set_long(l);
            }
            if d.arg {
                s.set_argument(OptionArgumentSpec::Required);
            }
            s.set_extension(d.ext);
            s
        })
        .collect()
}

fn parse_mode(t: &str) -> Option<Mode> {
    let b: Vec<char> = t.chars().collect();
    if b.len() != 3 || b.iter().any(|c| *c != '0' && *c != '1') {
        return None;
    }
    let mut m = Mode::default();
    m.long_option_names = b[0] == '1';
    m.extension_options = b[1] == '1';
    m.option_arguments_in_same_field = b[2] == '1';
    Some(m)
}

fn show_spec(s: &OptionSpec<'_>) -> String {
    format!(
        "{}:{}:{}:{}",
        s.get_short().map(|c| enc_str(&c.to_string())).unwrap_or_else(|| "~".into()),
        s.get_long().map(enc_str).unwrap_or_else(|| "~".into()),
        (s.get_argument() == OptionArgumentSpec::Required) as u8,
        s.is_extension() as u8
    )
}

fn show_err(e: &ParseError<'_>) -> String {
    let ch = |c: &char| enc_str(&c.to_string());
    match e {
        ParseError::UnknownShortOption(c, _) => format!("err:unknownShort:{}", ch(c)),
        ParseError::UnknownLongOption(_) => "err:unknownLong".into(),
        ParseError::NonPortableShortOption(c, _, s) => {
            format!("err:nonPortableShort:{}:{}", ch(c), show_spec(s))
        }
        ParseError::NonPortableLongOption(_, s) => format!("err:nonPortableLong:{}", show_spec(s)),
        ParseError::AmbiguousLongOption(_, ss) => format!(
            "err:ambiguous:{}",
            ss.iter().map(|s| show_spec(s)).collect::<Vec<_>>().join("+")
        ),
        ParseError::MissingOptionArgument(_, s) => format!("err:missing:{}", show_spec(s)),
        ParseError::UnseparatedOptionArgument(_, s) => format!("err:unseparated:{}", show_spec(s)),
        ParseError::UnexpectedOptionArgument(_, s) => format!("err:unexpected:{}", show_spec(s)),
        _ => "err:other".into(),
    }
}

/// Runs the real parser; `spelling` = include `OptionSpelling` in the observation.
fn observe(specs: &[SpecD], mode: Mode, args: &[String], spelling: bool) -> String {
    guarded(|| {
        let rs = real_specs(specs);
        let fields: Vec<Field> = args.iter().map(|a| Field::dummy(a.clone())).collect();
        match parse_arguments(&rs, mode, fields) {
            Err(e) => show_err(&e),
            Ok((options, operands)) => {
                let os: Vec<String> = options
                    .iter()
                    .map(|o| {
                        let sp = match o.spelling {
                            OptionSpelling::Short(i) => format!("@s{i}"),
                            OptionSpelling::Long => "@l".to_string(),
                            _ => "@?".to_string(),
                        };
                        format!(
                            "{}{}={}",
                            show_spec(o.spec),
                            if spelling { sp.as_str() } else { "" },
                            o.argument.as_ref().map(|f| enc_str(&f.value)).unwrap_or_else(|| "~".into())
                        )
                    })
                    .collect();
                let ops: Vec<String> = operands.iter().map(|f| enc_str(&f.value)).collect();
                format!("ok [{}] [{}]", os.join(";"), ops.join(","))
            }
        }
    })
}

// ------------------------------------------------------------------------------------------
// Rust-side oracle for `P` cases (Mode::with_extensions and Mode::default only)

/// Which arguments are examined as a possible option, and where the options end — decided by an independent
/// argument-at-a-time reader of the documented syntax over the table (NOT by the parser under test): `--` ends
/// the options, so does the first operand; a letter that takes an argument takes the rest of its group or the
/// next argument; a long option that takes an argument and has no `=` takes the next argument.  The walk stops
/// at the first argument the syntax rejects (that argument is still in option position).
/// Returns (indices in option position, `Some(i)` = the options end at `args[i]` (`--` or the first operand, or
/// `args.len()`), `None` = an argument was rejected).
fn option_positions(specs: &[SpecD], mode: Mode, args: &[String]) -> (Vec<usize>, Option<usize>) {
    let ext = mode == Mode::with_extensions();
    let mut pos = vec![];
    let mut i = 0;
    while i < args.len() {
        pos.push(i);
        let cs: Vec<char> = args[i].chars().collect();
        if cs.len() >= 2 && cs[0] == '-' && cs[1] != '-' {
            let mut k = 1;
            let mut takes_next = false;
            while k < cs.len() {
                match first_short(specs, cs[k]) {
                    None => return (pos, None),
                    Some(s) if s.ext && !ext => return (pos, None),
                    Some(s) if s.arg => {
                        if k + 1 < cs.len() {
                            if !ext {
                                return (pos, None);
                            }
                        } else {
                            takes_next = true;
                        }
                        break;
                    }
                    Some(_) => k += 1,
                }
            }
            i += 1;
            if takes_next {
                if i >= args.len() {
                    return (pos, None);
                }
                i += 1;
            }
        } else if cs.len() >= 3 && cs[0] == '-' && cs[1] == '-' {
            if !ext {
                return (pos, None);
            }
            let body: String = cs[2..].iter().collect();
            let (name, has_eq) = match body.split_once('=') {
                Some((n, _)) => (n.to_string(), true),
                None => (body.clone(), false),
            };
            match resolve_long(specs, &name) {
                (Some(s), _) => {
                    if s.arg && !has_eq {
                        if i + 1 >= args.len() {
                            return (pos, None);
                        }
                        i += 2;
                    } else if !s.arg && has_eq {
                        return (pos, None);
                    } else {
                        i += 1;
                    }
                }
                _ => return (pos, None),
            }
        } else {
            return (pos, Some(i));
        }
    }
    (pos, Some(args.len()))
}

fn operands_of(obs: &str) -> Option<&str> {
    let i = obs.rfind(" [")?;
    obs.strip_prefix("ok ").map(|_| &obs[i + 2..obs.len() - 1])
}

fn options_of(obs: &str) -> Option<&str> {
    let i = obs.rfind(" [")?;
    obs.strip_prefix("ok [").map(|r| &r[..i - 5])
}

fn first_short<'a>(specs: &'a [SpecD], c: char) -> Option<&'a SpecD> {
    specs.iter().find(|s| s.short == Some(c))
}

/// (resolved spec, number of candidates)
fn resolve_long<'a>(specs: &'a [SpecD], name: &str) -> (Option<&'a SpecD>, usize) {
    if let Some(s) = specs.iter().find(|s| s.long.as_deref() == Some(name)) {
        return (Some(s), 1);
    }
    let c: Vec<&SpecD> = specs
        .iter()
        .filter(|s| s.long.as_deref().is_some_and(|l| l.starts_with(name)))
        .collect();
    if c.len() == 1 { (Some(c[0]), 1) } else { (None, c.len()) }
}

fn oracle_p(specs: &[SpecD], mode: Mode, args: &[String]) -> String {
    let ext = mode == Mode::with_extensions();
    if !ext && mode != Mode::default() {
        return "-".into();
    }
    let base = observe(specs, mode, args, false);
    let mut checked = 0;
    let same = |what: &str, i: usize, repl: Vec<String>| -> Option<String> {
        let mut v = args[..i].to_vec();
        v.extend(repl);
        v.extend_from_slice(&args[i + 1..]);
        let o = observe(specs, mode, &v, false);
        if o == base { None } else { Some(format!("FAIL:{what}@{i} rewritten gives {o}")) }
    };
    let (positions, end) = option_positions(specs, mode, args);
    // `--` ends option parsing: whatever the options were, the operands are exactly the arguments after the first
    // `--` in option position (or from the first operand on), verbatim — another `--` among them included
    if let Some(e) = end {
        checked += 1;
        let from = if e < args.len() && args[e] == "--" { e + 1 } else { e };
        let want: Vec<String> = args[from.min(args.len())..].iter().map(|a| enc_str(a)).collect();
        match operands_of(&base) {
            Some(got) if got == want.join(",") => {}
            _ => return format!("FAIL:operands must be the arguments from index {from} on, verbatim: {base}"),
        }
    }
    for i in positions {
        let t = &args[i];
        let cs: Vec<char> = t.chars().collect();
        let portable_ok = |s: &SpecD| ext || !s.ext;
        if cs.len() >= 2 && cs[0] == '-' && cs[1] != '-' {
            // cluster of short options
            let c = cs[1];
            let rest: String = cs[2..].iter().collect();
            match first_short(specs, c) {
                None => {
                    checked += 1;
                    if base != format!("err:unknownShort:{}", enc_str(&c.to_string())) {
                        return format!("FAIL:unknown-short@{i} not rejected: {base}");
                    }
                }
                Some(s) if !portable_ok(s) => {
                    checked += 1;
                    if !base.starts_with("err:nonPortableShort:") {
                        return format!("FAIL:portable@{i} extension option accepted: {base}");
                    }
                }
                Some(s) if !s.arg => {
                    if !rest.is_empty() && !rest.starts_with('-') {
                        checked += 1;
                        if let Some(f) = same("group", i, vec![format!("-{c}"), format!("-{rest}")]) {
                            return f;
                        }
                    }
                }
                Some(_) => {
                    if rest.is_empty() {
                        if i + 1 == args.len() {
                            checked += 1;
                            if !base.starts_with("err:missing:") {
                                return format!("FAIL:missing-argument@{i} not rejected: {base}");
                            }
                        }
                    } else if ext {
                        checked += 1;
                        if let Some(f) = same("attached", i, vec![format!("-{c}"), rest]) {
                            return f;
                        }
                    } else {
                        checked += 1;
                        if !base.starts_with("err:unseparated:") {
                            return format!("FAIL:portable@{i} attached argument accepted: {base}");
                        }
                    }
                }
            }
        } else if cs.len() >= 3 && cs[0] == '-' && cs[1] == '-' {
            let body: String = cs[2..].iter().collect();
            let (name, eqarg) = match body.split_once('=') {
                Some((n, a)) => (n.to_string(), Some(a.to_string())),
                None => (body.clone(), None),
            };
            let tail = eqarg.as_ref().map(|a| format!("={a}")).unwrap_or_default();
            checked += 1;
            match resolve_long(specs, &name) {
                (None, 0) => {
                    if base != "err:unknownLong" {
                        return format!("FAIL:unknown-long@{i} not rejected: {base}");
                    }
                }
                (None, _) => {
                    if !base.starts_with("err:ambiguous:") {
                        return format!("FAIL:ambiguous@{i} not rejected: {base}");
                    }
                }
                (Some(s), _) if !ext => {
                    let _ = s;
                    if !base.starts_with("err:nonPortableLong:") {
                        return format!("FAIL:portable@{i} long option accepted: {base}");
                    }
                }
                (Some(s), _) => {
                    let full = s.long.clone().unwrap();
                    if full != name && !full.contains('=') {
                        if let Some(f) = same("prefix", i, vec![format!("--{full}{tail}")]) {
                            return f;
                        }
                    }
                    match (s.arg, &eqarg) {
                        (true, Some(a)) if !name.is_empty() => {
                            if let Some(f) = same("eq-arg", i, vec![format!("--{name}"), a.clone()]) {
                                return f;
                            }
                        }
                        (true, None) => {
                            if i + 1 == args.len() && !base.starts_with("err:missing:") {
                                return format!("FAIL:missing-argument@{i} not rejected: {base}");
                            }
                        }
                        (false, Some(_)) => {
                            if !base.starts_with("err:unexpected:") {
                                return format!("FAIL:unexpected-argument@{i} not rejected: {base}");
                            }
                        }
                        _ => {}
                    }
                }
            }
        } else {
            // `--` or the first operand: the options are those of the prefix, the operands all the rest
            checked += 1;
            let pre = observe(specs, mode, &args[..i], false);
            let from = if t == "--" { i + 1 } else { i };
            let want: Vec<String> = args[from..].iter().map(|a| enc_str(a)).collect();
            if operands_of(&base) != Some(want.join(",").as_str()) || options_of(&base) != options_of(&pre) {
                return format!("FAIL:end-of-options@{i}: {base} after prefix {pre}");
            }
        }
    }
    if checked == 0 { "-".into() } else { "ok".into() }
}

fn run_p(case: &str, w: &[&str]) -> (String, String) {
    let (Some(mode), Some(specs)) = (w.get(1).and_then(|m| parse_mode(m)), w.get(2).and_then(|s| parse_specs(s)))
    else {
        return ("bad-case".into(), "-".into());
    };
    let Some(args) = w[3..].iter().map(|a| dec_str(a)).collect::<Option<Vec<String>>>() else {
        return ("bad-case".into(), "-".into());
    };
    let _ = case;
    (observe(&specs, mode, &args, true), guarded(|| oracle_p(&specs, mode, &args)))
}

// ------------------------------------------------------------------------------------------
// `S` / `M`: real built-ins in the virtual shell

fn sh_quote(s: &str) -> String {
    format!("'{}'", s.replace('\'', "'\\''"))
}

struct ShellObs {
    stdout: String,
    status: String,
    stderr_empty: bool,
    probe: String,
}

/// Runs `setup; cmd args…; echo status; probe` and splits the output.
fn run_invocation(setup: &str, cmd: &str, args: Option<&[String]>, probe: &str, portable: bool) -> ShellObs {
    let mut script = String::new();
    if portable {
        script.push_str("set -o portable\n");
    }
    script.push_str(setup);
    script.push('\n');
    if let Some(args) = args {
        script.push_str(cmd);
        for a in args {
            script.push(' ');
            script.push_str(&sh_quote(a));
        }
        script.push('\n');
    } else {
        script.push_str("st 0\n");
    }
    script.push_str("echo \"@@status=$?\"\n");
    script.push_str(probe);
    script.push('\n');
    let o = shell::run_script(&script);
    let out = o.stdout_str();
    let (before, after) = match out.split_once("@@status=") {
        Some((b, a)) => (b.to_string(), a.to_string()),
        // a special built-in error interrupted the shell: no status line
        None => (out.clone(), format!("exit{}\n", o.exit_status)),
    };
    let (status, probe_out) = after.split_once('\n').map(|(a, b)| (a.to_string(), b.to_string())).unwrap_or((after.clone(), String::new()));
    ShellObs {
        stdout: before,
        status: if o.stuck { "STUCK".into() } else { status },
        stderr_empty: o.stderr.is_empty(),
        probe: probe_out,
    }
}

fn split_bar(ts: &[&str]) -> Vec<Vec<String>> {
    let mut out = vec![];
    let mut cur = vec![];
    for t in ts {
        if *t == "|" {
            out.push(std::mem::take(&mut cur));
        } else {
            cur.push(t.to_string());
        }
    }
    out.push(cur);
    out
}

fn run_s(w: &[&str]) -> (String, String) {
    let bad = || ("bad-case".to_string(), "-".to_string());
    if w.len() < 6 {
        return bad();
    }
    let (Some(cmd), Some(mode), Some(specs), Some(setup), Some(probe)) =
        (dec_str(w[1]), parse_mode(w[2]), parse_specs(w[3]), dec_str(w[4]), dec_str(w[5]))
    else {
        return bad();
    };
    let mut spellings: Vec<Vec<String>> = vec![];
    for sp in split_bar(&w[6..]) {
        match sp.iter().map(|a| dec_str(a)).collect::<Option<Vec<String>>>() {
            Some(v) => spellings.push(v),
            None => return bad(),
        }
    }
    let views: Vec<String> = spellings.iter().map(|a| observe(&specs, mode, a, false)).collect();
    let classes: BTreeSet<&String> = views.iter().collect();
    let obs = format!("n={} classes={} first={}", spellings.len(), classes.len(), views.first().cloned().unwrap_or_else(|| "-".into()));
    let oracle = guarded(|| {
        let portable = mode == Mode::default();
        let first = run_invocation(&setup, &cmd, Some(&spellings[0]), &probe, portable);
        // catalogue entries are valid invocations
        if !first.stderr_empty {
            return format!("FAIL:valid invocation {:?} printed a diagnostic (status {})", spellings[0], first.status);
        }
        for sp in &spellings[1..] {
            let o = run_invocation(&setup, &cmd, Some(sp), &probe, portable);
            if o.stdout != first.stdout || o.status != first.status || o.stderr_empty != first.stderr_empty || o.probe != first.probe {
                return format!(
                    "FAIL:spelling {:?} differs from {:?}: status {} vs {}, stdout {} vs {}, stderr-empty {} vs {}, probe {} vs {}",
                    sp, spellings[0], o.status, first.status, enc_str(&o.stdout), enc_str(&first.stdout),
                    o.stderr_empty, first.stderr_empty, enc_str(&o.probe), enc_str(&first.probe)
                );
            }
        }
        "ok".into()
    });
    (obs, oracle)
}

fn run_m(w: &[&str]) -> (String, String) {
    let bad = || ("bad-case".to_string(), "-".to_string());
    if w.len() < 6 {
        return bad();
    }
    let (Some(cmd), Some(mode), Some(specs), Some(setup), Some(probe)) =
        (dec_str(w[1]), parse_mode(w[2]), parse_specs(w[3]), dec_str(w[4]), dec_str(w[5]))
    else {
        return bad();
    };
    let Some(args) = w[6..].iter().map(|a| dec_str(a)).collect::<Option<Vec<String>>>() else {
        return bad();
    };
    let v = observe(&specs, mode, &args, false);
    let obs = if v.starts_with("err:") { format!("rejected {v}") } else { format!("accepted {v}") };
    let oracle = guarded(|| {
        let portable = mode == Mode::default();
        let o = run_invocation(&setup, &cmd, Some(&args), &probe, portable);
        let reference = run_invocation(&setup, &cmd, None, &probe, portable);
        if o.stderr_empty {
            return "FAIL:no diagnostic".into();
        }
        if o.status == "0" {
            return "FAIL:zero exit status".into();
        }
        if !o.stdout.is_empty() {
            return format!("FAIL:output {}", enc_str(&o.stdout));
        }
        if o.probe != reference.probe {
            return format!("FAIL:state changed: {} vs {}", enc_str(&o.probe), enc_str(&reference.probe));
        }
        "ok".into()
    });
    (obs, oracle)
}


// ------------------------------------------------------------------------------------------
// `G`: the getopts built-in's own walker (yash-builtin/src/getopts/), driven like a script drives it

struct GetoptsRun {
    /// per successful call: option variable, $OPTARG (`~` = unset), $OPTIND
    events: Vec<(String, String, String)>,
    /// after the call that returned non-zero: status, variable, $OPTARG, $OPTIND (or `LOOP`)
    end: Option<(String, String, String, String)>,
    diag_lines: usize,
}

fn getopts_run(spec: &str, args: &[String]) -> GetoptsRun {
    let mut call = format!("getopts {} v", sh_quote(spec));
    for a in args {
        call.push(' ');
        call.push_str(&sh_quote(a));
    }
    let script = format!(
        "n=0\nwhile :; do {call}; s=$?; case $s in 0) ;; *) break;; esac; echo \"$v|${{OPTARG-~}}|$OPTIND\"; \
         n=$((n+1)); case $n in 60) echo LOOP; break;; esac; done\necho \"end|$s|$v|${{OPTARG-~}}|$OPTIND\"\n"
    );
    let o = shell::run_script(&script);
    let mut events = vec![];
    let mut end = None;
    for l in o.stdout_str().lines() {
        let f: Vec<&str> = l.split('|').collect();
        if f.len() == 5 && f[0] == "end" {
            end = Some((f[1].to_string(), f[2].to_string(), f[3].to_string(), f[4].to_string()));
        } else if f.len() == 3 {
            events.push((f[0].to_string(), f[1].to_string(), f[2].to_string()));
        } else {
            // LOOP or anything unexpected: no regular end
            return GetoptsRun { events, end: None, diag_lines: o.stderr_str().lines().count() };
        }
    }
    if o.stuck {
        end = None;
    }
    GetoptsRun { events, end, diag_lines: o.stderr_str().lines().count() }
}

fn tilde_hex(s: &str) -> String {
    if s == "~" { "~".into() } else { enc_str(s) }
}

fn show_getopts(r: &GetoptsRun) -> String {
    let evs: Vec<String> =
        r.events.iter().map(|(v, a, i)| format!("{},{},{}", enc_str(v), tilde_hex(a), i)).collect();
    let end = match &r.end {
        Some((s, v, a, i)) => format!("{},{},{},st{}", enc_str(v), tilde_hex(a), i, s),
        None => "LOOP".into(),
    };
    format!("[{}] end={} diag={}", evs.join(";"), end, r.diag_lines)
}

/// 0 = no argument, 1 = takes an argument, 2 = unknown (the documented meaning of an optstring)
fn g_judge(spec: &str, c: char) -> u8 {
    if c == ':' {
        return 2;
    }
    let cs: Vec<char> = spec.chars().collect();
    match cs.iter().position(|&x| x == c) {
        None => 2,
        Some(i) => (cs.get(i + 1) == Some(&':')) as u8,
    }
}

/// The fully separated spelling: every group in option position split into one argument per letter,
/// attached option-arguments moved to the next argument.  Groups containing the letter `-` are kept.
fn g_separate(spec: &str, args: &[String]) -> Vec<String> {
    let mut out = vec![];
    let mut i = 0;
    while i < args.len() {
        let cs: Vec<char> = args[i].chars().collect();
        if cs.len() < 2 || cs[0] != '-' || args[i] == "--" {
            break;
        }
        let letters = &cs[1..];
        let keep = letters.contains(&'-');
        let mut pending = false;
        let mut parts = vec![];
        let mut k = 0;
        while k < letters.len() {
            let c = letters[k];
            if g_judge(spec, c) == 1 {
                parts.push(format!("-{c}"));
                if k + 1 < letters.len() {
                    parts.push(letters[k + 1..].iter().collect());
                } else {
                    pending = true;
                }
                break;
            }
            parts.push(format!("-{c}"));
            k += 1;
        }
        if keep {
            out.push(args[i].clone());
        } else {
            out.extend(parts);
        }
        i += 1;
        if pending && i < args.len() {
            out.push(args[i].clone());
            i += 1;
        }
    }
    out.extend_from_slice(&args[i.min(args.len())..]);
    out
}

/// what a script sees, independent of the spelling: (variable, OPTARG) per call, number of
/// diagnostics, the operands left after `shift $((OPTIND-1))`
fn g_property_view(args: &[String], r: &GetoptsRun) -> String {
    let evs: Vec<String> = r.events.iter().map(|(v, a, _)| format!("{},{}", enc_str(v), tilde_hex(a))).collect();
    let rest = match &r.end {
        Some((s, v, a, i)) => match i.parse::<usize>() {
            Ok(n) if n >= 1 => {
                let ops: Vec<String> = args.iter().skip(n - 1).map(|a| enc_str(a)).collect();
                format!("st{s},{},{} operands=[{}]", enc_str(v), tilde_hex(a), ops.join(","))
            }
            _ => format!("bad-OPTIND:{i}"),
        },
        None => "LOOP".into(),
    };
    format!("[{}] diag={} {}", evs.join(";"), r.diag_lines, rest)
}

/// Where the operands start, by the documented meaning of the optstring alone (independent of getopts/model.rs):
/// `--` ends the options and is skipped, the first argument that is not `-x…` ends them too; a letter that takes an
/// argument takes the rest of its group or else the next argument.
fn g_operands_from(spec: &str, args: &[String]) -> usize {
    let mut i = 0;
    while i < args.len() {
        let cs: Vec<char> = args[i].chars().collect();
        if args[i] == "--" {
            return i + 1;
        }
        if cs.len() < 2 || cs[0] != '-' {
            return i;
        }
        let mut takes_next = false;
        for k in 1..cs.len() {
            if g_judge(spec, cs[k]) == 1 {
                takes_next = k + 1 == cs.len();
                break;
            }
        }
        i += 1;
        if takes_next && i < args.len() {
            i += 1;
        }
    }
    args.len()
}

fn run_g(w: &[&str]) -> (String, String) {
    let bad = || ("bad-case".to_string(), "-".to_string());
    if w.len() < 2 {
        return bad();
    }
    let Some(spec) = dec_str(w[1]) else { return bad() };
    let Some(args) = w[2..].iter().map(|a| dec_str(a)).collect::<Option<Vec<String>>>() else {
        return bad();
    };
    let run = std::cell::RefCell::new(None);
    let obs = guarded(|| {
        let r = getopts_run(&spec, &args);
        let s = show_getopts(&r);
        *run.borrow_mut() = Some(r);
        s
    });
    let oracle = guarded(|| {
        let Some(r) = run.borrow_mut().take() else { return "-".into() };
        // `--` ends option parsing: the operands a script is left with (`shift $((OPTIND-1))`) are exactly the
        // arguments after the first `--` in option position / from the first operand on — another `--` included
        if let Some((_, _, _, i)) = &r.end {
            if let Ok(n) = i.parse::<usize>() {
                let from = g_operands_from(&spec, &args);
                if n != from + 1 {
                    return format!("FAIL:operands must start at argument {} but OPTIND is {n}", from + 1);
                }
            }
        }
        let sep = g_separate(&spec, &args);
        if sep == args {
            return if r.end.is_some() { "ok".into() } else { "-".into() };
        }
        let r2 = getopts_run(&spec, &sep);
        let (a, b) = (g_property_view(&args, &r), g_property_view(&sep, &r2));
        if a == b {
            "ok".into()
        } else {
            format!("FAIL:grouping: as given {a} but separated {:?} gives {b}", sep)
        }
    });
    (obs, oracle)
}

// ------------------------------------------------------------------------------------------
// `T` / `H` / `K`: the bespoke parsers (set, the shell's command line, kill), called directly

use yash_env::option::{Option as ShOpt, State as OptState};
use yash_env::system::Signals as _;

fn st_bit(s: OptState) -> u8 {
    (s == OptState::On) as u8
}

fn suffixes(args: &[String]) -> Vec<String> {
    let mut v: BTreeSet<String> = BTreeSet::new();
    v.insert(String::new());
    for a in args {
        for (i, _) in a.char_indices() {
            v.insert(a[i..].to_string());
        }
    }
    v.into_iter().collect()
}

/// the answers of yash_env::option (and of str2sig) that a parser can ask for on this vector
fn names_dict(args: &[String], signals: bool) -> String {
    let mut e: Vec<String> = vec![];
    let mut opts: BTreeSet<String> = BTreeSet::new();
    let info = |o: ShOpt, opts: &mut BTreeSet<String>| {
        opts.insert(format!(
            "o:{}:{}:{}:{}",
            enc_str(o.long_name()),
            o.is_modifiable() as u8,
            o.portable_short_name().map(|(c, s)| format!("{}.{}", enc_str(&c.to_string()), st_bit(s))).unwrap_or_else(|| "~".into()),
            o.portable_long_name().map(|(n, s)| format!("{}.{}", enc_str(n), st_bit(s))).unwrap_or_else(|| "~".into()),
        ));
    };
    let chars: BTreeSet<char> = args.iter().flat_map(|a| a.chars()).collect();
    for c in chars {
        if let Some((o, s)) = yash_env::option::parse_short(c) {
            e.push(format!("s:{}:{}:{}", enc_str(&c.to_string()), enc_str(o.long_name()), st_bit(s)));
            info(o, &mut opts);
        }
    }
    // `char::is_alphanumeric` (Rust std, not yash code) of the non-ASCII characters: the model's parameter
    let non_ascii: BTreeSet<char> = args.iter().flat_map(|a| a.chars()).filter(|c| !c.is_ascii()).collect();
    for c in non_ascii {
        e.push(format!("a:{}:{}", enc_str(&c.to_string()), c.is_alphanumeric() as u8));
    }
    let sufs = suffixes(args);
    for s in &sufs {
        match yash_env::option::parse_long(&yash_env::option::canonicalize(s)) {
            Ok((o, st)) => {
                e.push(format!("l:{}:{}:{}", enc_str(s), enc_str(o.long_name()), st_bit(st)));
                info(o, &mut opts);
            }
            Err(yash_env::option::FromStrError::NoSuchOption) => {} // absent = no such option
            Err(yash_env::option::FromStrError::Ambiguous) => e.push(format!("l:{}:A", enc_str(s))),
        }
    }
    e.extend(opts);
    if signals {
        let env = yash_env::Env::new_virtual();
        let mut keys: BTreeSet<String> = BTreeSet::new();
        for s in &sufs {
            let u = s.to_ascii_uppercase();
            if let Some(r) = u.strip_prefix("SIG") {
                keys.insert(r.to_string());
            }
            keys.insert(u);
        }
        for k in keys {
            if let Some(n) = env.system.str2sig(&k) {
                e.push(format!("g:{}:{}", enc_str(&k), n.as_raw()));
            }
        }
    }
    if e.is_empty() { "_".into() } else { e.join(",") }
}

fn show_opts(os: &[(ShOpt, OptState)]) -> String {
    os.iter().map(|(o, s)| format!("{}={}", o.long_name(), st_bit(*s))).collect::<Vec<_>>().join(";")
}

fn show_strs<'a, I: Iterator<Item = &'a str>>(l: I) -> String {
    l.map(enc_str).collect::<Vec<_>>().join(",")
}

fn observe_set(portable: bool, args: &[String]) -> String {
    use yash_builtin::set::Command as C;
    use yash_builtin::set::syntax::Error as E;
    guarded(|| {
        let fields: Vec<Field> = args.iter().map(|a| Field::dummy(a.clone())).collect();
        let p = if portable { OptState::On } else { OptState::Off };
        let ch = |c: &char| enc_str(&c.to_string());
        match yash_builtin::set::syntax::parse(fields, p) {
            Ok(C::PrintVariables) => "ok vars".into(),
            Ok(C::PrintOptionsHumanReadable) => "ok human".into(),
            Ok(C::PrintOptionsMachineReadable) => "ok machine".into(),
            Ok(C::Modify { options, positional_params }) => format!(
                "ok modify [{}] params={}",
                show_opts(&options),
                positional_params
                    .map(|l| format!("[{}]", show_strs(l.iter().map(|f| f.value.as_str()))))
                    .unwrap_or_else(|| "~".into())
            ),
            Err(e) => match e {
                E::UnknownShortOption(c, _) => format!("err:unknownShort:{}", ch(&c)),
                E::UnknownLongOption(_) => "err:unknownLong".into(),
                E::AmbiguousLongOption(_) => "err:ambiguousLong".into(),
                E::MissingOptionArgument(_) => "err:missingArgument".into(),
                E::UnmodifiableShortOption(c, _) => format!("err:unmodifiableShort:{}", ch(&c)),
                E::UnmodifiableLongOption(_) => "err:unmodifiableLong".into(),
                E::NonPortableShortOption(c, _) => format!("err:nonPortableShort:{}", ch(&c)),
                E::NonPortableLongOption(..) => "err:nonPortableLong".into(),
                E::UnseparatedOptionArgument(..) => "err:unseparated".into(),
                _ => "err:other".into(),
            },
        }
    })
}

fn observe_sh(argv: &[String]) -> String {
    use yash_cli::startup::args::{Error as E, InitFile, Parse, Source};
    guarded(|| {
        let ch = |c: &char| enc_str(&c.to_string());
        match yash_cli::startup::args::parse(argv.iter().cloned()) {
            Ok(Parse::Help) => "ok help".into(),
            Ok(Parse::Version) => "ok version".into(),
            Ok(Parse::Run(r)) => {
                let src = match &r.work.source {
                    Source::Stdin => "stdin".to_string(),
                    Source::File { path } => format!("file:{}", enc_str(path)),
                    Source::String(s) => format!("string:{}", enc_str(s)),
                };
                let ini = |i: &InitFile| match i {
                    InitFile::None => "none".to_string(),
                    InitFile::Default => "default".to_string(),
                    InitFile::File { path } => format!("file:{}", enc_str(path)),
                };
                format!(
                    "ok run src={} profile={} rcfile={} opts=[{}] arg0={} params=[{}]",
                    src,
                    ini(&r.work.profile),
                    ini(&r.work.rcfile),
                    show_opts(&r.options),
                    enc_str(&r.arg0),
                    show_strs(r.positional_params.iter().map(|s| s.as_str()))
                )
            }
            Err(e) => match e {
                E::UnknownShortOption(c) => format!("err:unknownShort:{}", ch(&c)),
                E::UnknownLongOption(_) => "err:unknownLong".into(),
                E::AmbiguousLongOption(_) => "err:ambiguousLong".into(),
                E::MissingOptionArgument(_) => "err:missingArgument".into(),
                E::UnexpectedOptionArgument(_) => "err:unexpectedArgument".into(),
                E::ConflictingSources => "err:conflictingSources".into(),
                E::UnnegatableShortOption(c) => format!("err:unnegatableShort:{}", ch(&c)),
                E::UnnegatableLongOption(_) => "err:unnegatableLong".into(),
                E::MissingCommandString => "err:missingCommandString".into(),
                E::NonPortableShortOption(c) => format!("err:nonPortableShort:{}", ch(&c)),
                E::NonPortableShortOptionNegation(c) => format!("err:nonPortableShortNegation:{}", ch(&c)),
                E::NonPortableLongOption(..) => "err:nonPortableLong".into(),
                E::UnseparatedOptionArgument { .. } => "err:unseparated".into(),
            },
        }
    })
}

fn observe_kill(portable: bool, args: &[String]) -> String {
    use yash_builtin::kill::Command as C;
    use yash_builtin::kill::syntax::Error as E;
    guarded(|| {
        let mut env = yash_env::Env::new_virtual();
        if portable {
            env.options.set(ShOpt::Portable, OptState::On);
        }
        let fields: Vec<Field> = args.iter().map(|a| Field::dummy(a.clone())).collect();
        let ch = |c: &char| enc_str(&c.to_string());
        match yash_builtin::kill::syntax::parse(&env, fields) {
            Ok(C::Send { signal, signal_origin, targets }) => format!(
                "ok send {} origin={} [{}]",
                signal,
                signal_origin.is_some() as u8,
                show_strs(targets.iter().map(|f| f.value.as_str()))
            ),
            Ok(C::Print { signals, verbose }) => {
                format!("ok print [{}] verbose={}", show_strs(signals.iter().map(|f| f.value.as_str())), verbose as u8)
            }
            Ok(_) => "ok other".into(),
            Err(e) => match e {
                E::UnknownOption(_) => "err:unknownOption".into(),
                E::NonPortableOption(c, _) => format!("err:nonPortableOption:{}", ch(&c)),
                E::ConflictingOptions { list_option_name, .. } => format!("err:conflictingOptions:{}", ch(&list_option_name)),
                E::MissingSignal { signal_option_name, .. } => format!("err:missingSignal:{}", ch(&signal_option_name)),
                E::UnseparatedSignalArgument { .. } => "err:unseparatedSignalArgument".into(),
                E::NonPortableSignalNumber { number, .. } => format!("err:nonPortableSignalNumber:{number}"),
                E::NonPortableSignalPrefix { .. } => "err:nonPortableSignalPrefix".into(),
                E::MultipleSignals(..) => "err:multipleSignals".into(),
                E::InvalidSignal(_) => "err:invalidSignal".into(),
                E::MultipleListOperands(..) => "err:multipleListOperands".into(),
                E::NonPortableListOperand(_) => "err:nonPortableListOperand".into(),
                E::MissingTarget => "err:missingTarget".into(),
                _ => "err:other".into(),
            },
        }
    })
}

/// `-xyz` -> `-x -y -z`, `-xoNAME` -> `-x -o NAME` (same for `+`); with `long`, `--NAME` -> `-o NAME` and
/// `++NAME` -> `+o NAME`.  Clusters containing their own sign as a letter are kept.
fn separate_so(args: &[String], long: bool) -> Vec<String> {
    let mut out = vec![];
    let mut i = 0;
    while i < args.len() {
        let cs: Vec<char> = args[i].chars().collect();
        let short = cs.len() >= 2 && (cs[0] == '-' || cs[0] == '+') && cs[1] != cs[0];
        if short {
            let sign = cs[0];
            let letters = &cs[1..];
            let pos_o = letters.iter().position(|&c| c == 'o');
            let pending = pos_o == Some(letters.len() - 1);
            if letters.contains(&sign) {
                out.push(args[i].clone());
            } else {
                let upto = pos_o.map(|p| p + 1).unwrap_or(letters.len());
                for c in &letters[..upto] {
                    out.push(format!("{sign}{c}"));
                }
                if let Some(p) = pos_o {
                    if p + 1 < letters.len() {
                        out.push(letters[p + 1..].iter().collect());
                    }
                }
            }
            i += 1;
            if pending && i < args.len() {
                out.push(args[i].clone());
                i += 1;
            }
            continue;
        }
        if long && cs.len() > 2 && cs[0] == '-' && cs[1] == '-' {
            out.push("-o".into());
            out.push(cs[2..].iter().collect());
            i += 1;
            continue;
        }
        if long && cs.len() >= 2 && cs[0] == '+' && cs[1] == '+' {
            out.push("+o".into());
            out.push(cs[2..].iter().collect());
            i += 1;
            continue;
        }
        break;
    }
    out.extend_from_slice(&args[i.min(args.len())..]);
    out
}

/// kill (portable off): `-lv` -> `-l -v`; `-sX`/`-nX` -> `-s X`/`-n X` and `-X` -> `-s X` when X is a signal specification
fn separate_kill(args: &[String]) -> Vec<String> {
    let env = yash_env::Env::new_virtual();
    let is_sig = |s: &str| yash_builtin::kill::syntax::parse_signal(&env.system, s, true).is_some();
    let mut out = vec![];
    let mut i = 0;
    while i < args.len() {
        let a = &args[i];
        if !(a.starts_with('-') && a.len() > 1) || a == "--" {
            break;
        }
        let options: Vec<char> = a.chars().skip(1).collect();
        let npre = options.iter().take_while(|&&c| c == 'l' || c == 'v').count();
        let flags: Vec<String> = options[..npre].iter().map(|c| format!("-{c}")).collect();
        i += 1;
        if npre == options.len() {
            out.extend(flags);
            continue;
        }
        let c = options[npre];
        let remainder: String = options[npre + 1..].iter().collect();
        let whole: String = options.iter().collect();
        if c == 's' || c == 'n' {
            if remainder.is_empty() {
                out.extend(flags);
                out.push(format!("-{c}"));
                if i < args.len() {
                    out.push(args[i].clone());
                    i += 1;
                }
            } else if is_sig(&remainder) {
                out.extend(flags);
                out.push(format!("-{c}"));
                out.push(remainder);
            } else {
                out.push(a.clone());
            }
        } else if npre == 0 && is_sig(&whole) {
            out.push("-s".into());
            out.push(whole);
        } else {
            out.push(a.clone());
        }
    }
    out.extend_from_slice(&args[i.min(args.len())..]);
    out
}

/// `--NAME` / `++NAME` and the argument of a separate `-o` / `+o` written with their alphanumerics only, ASCII lower case
fn plain_names(args: &[String]) -> Vec<String> {
    let plain = |s: &str| -> String { s.chars().filter(|c| c.is_alphanumeric()).map(|c| c.to_ascii_lowercase()).collect() };
    let mut out = vec![];
    let mut i = 0;
    while i < args.len() {
        let a = &args[i];
        if a == "--" || a == "-" {
            break;
        }
        if (a.starts_with("--") && a.len() > 2) || a.starts_with("++") {
            let p = plain(&a[2..]);
            // an empty name would turn `--x` into the separator `--`
            out.push(if p.is_empty() { a.clone() } else { format!("{}{}", &a[..2], p) });
        } else if (a == "-o" || a == "+o") && i + 1 < args.len() {
            out.push(a.clone());
            i += 1;
            out.push(plain(&args[i]));
        } else if a.len() >= 2 && (a.starts_with('-') || a.starts_with('+')) && !a.contains('o') {
            out.push(a.clone());
        } else {
            break;
        }
        i += 1;
    }
    out.extend_from_slice(&args[i.min(args.len())..]);
    out
}

fn spelling_oracle(portable: bool, given: &str, separated: Option<String>) -> String {
    match separated {
        None => "-".into(),
        Some(b) if b == given => "ok".into(),
        Some(b) => {
            // the attached / long forms are rejected by design while `portable` is (or has been turned) on
            let by_design = |o: &str| o.contains("portable=1") || o.starts_with("err:nonPortable") || o.starts_with("err:unseparated");
            if portable || by_design(given) || by_design(&b) {
                "-".into()
            } else {
                format!("FAIL:separated spelling gives {b}")
            }
        }
    }
}

/// Where the operands of `set` / of the shell's command line start, by the documented syntax alone: groups `-x…` / `+x…`
/// (the letter `o` takes the rest of the group or the next argument as a name), long options `--NAME` / `++NAME`
/// (for the command line only the ones listed in `long_arity`, anything else is not judged), then one separator `-` or
/// `--` (skipped) or the first operand.  `Some((from, separator))`; `None` = not judged / runs off the end.
fn so_operands_from(args: &[String], long_arity: Option<&dyn Fn(&str) -> Option<usize>>) -> Option<(usize, bool)> {
    let mut i = 0;
    while i < args.len() {
        let cs: Vec<char> = args[i].chars().collect();
        if args[i] == "-" || args[i] == "--" {
            return Some((i + 1, true));
        }
        if cs.len() < 2 || !(cs[0] == '-' || cs[0] == '+') {
            return Some((i, false));
        }
        if cs[1] == cs[0] {
            match long_arity {
                None => i += 1,
                Some(f) => i += f(&args[i])?,
            }
            continue;
        }
        let takes_next = cs[1..].iter().position(|&c| c == 'o') == Some(cs.len() - 2);
        i += 1;
        if takes_next {
            if i >= args.len() {
                return None;
            }
            i += 1;
        }
    }
    Some((args.len(), false))
}

fn run_t(w: &[&str]) -> (String, String) {
    let bad = || ("bad-case".to_string(), "-".to_string());
    if w.len() < 3 {
        return bad();
    }
    let portable = w[1] == "1";
    let Some(args) = w[3..].iter().map(|a| dec_str(a)).collect::<Option<Vec<String>>>() else { return bad() };
    let obs = observe_set(portable, &args);
    let sep = separate_so(&args, true);
    let mut oracle = spelling_oracle(portable, &obs, (sep != args).then(|| observe_set(portable, &sep)));
    // option names: only alphanumerics matter and ASCII case is ignored, so writing a name without its other
    // characters and in lower case must not change anything (`--ERR-EXITé` like `--errexité`)
    if !oracle.starts_with("FAIL") && !portable {
        let plain = plain_names(&args);
        if plain != args {
            let o2 = observe_set(portable, &plain);
            if o2 != obs && !o2.starts_with("err:nonPortable") && !obs.starts_with("err:nonPortable") && !obs.contains("portable=1") {
                oracle = format!("FAIL:name spelled plainly {plain:?} gives {o2}");
            } else if oracle == "-" {
                oracle = "ok".into();
            }
        }
    }
    // while `portable` is on, groups may still be split into letters (an attached name stays attached, long options are
    // left alone): `-eu` like `-e -u`, `-euoNAME` like `-e -u -oNAME` — same command or same error on the real parser
    if portable && !oracle.starts_with("FAIL") {
        let mut letters: Vec<String> = vec![];
        let mut i = 0;
        while i < args.len() {
            let cs: Vec<char> = args[i].chars().collect();
            if cs.len() >= 2 && (cs[0] == '-' || cs[0] == '+') && cs[1] != cs[0] && !cs[1..].contains(&cs[0]) {
                let mut k = 1;
                while k < cs.len() {
                    if cs[k] == 'o' {
                        letters.push(format!("{}{}", cs[0], cs[k..].iter().collect::<String>()));
                        break;
                    }
                    letters.push(format!("{}{}", cs[0], cs[k]));
                    k += 1;
                }
                let takes_next = cs[cs.len() - 1] == 'o' && cs[1..].iter().position(|&c| c == 'o') == Some(cs.len() - 2);
                i += 1;
                if takes_next && i < args.len() {
                    letters.push(args[i].clone());
                    i += 1;
                }
            } else if cs.len() >= 2 && (cs[0] == '-' || cs[0] == '+') && cs[1] != cs[0] {
                letters.push(args[i].clone());
                let takes_next = cs[cs.len() - 1] == 'o' && cs[1..].iter().position(|&c| c == 'o') == Some(cs.len() - 2);
                i += 1;
                if takes_next && i < args.len() {
                    letters.push(args[i].clone());
                    i += 1;
                }
            } else {
                break;
            }
        }
        letters.extend_from_slice(&args[i.min(args.len())..]);
        let print = |l: &[String]| l.is_empty() || (l.len() == 1 && (l[0] == "-o" || l[0] == "+o"));
        if letters != args && !print(&args) && !print(&letters) {
            let o2 = observe_set(true, &letters);
            if o2 != obs {
                oracle = format!("FAIL:under portable, letters written separately {letters:?} give {o2}");
            } else {
                oracle = "ok".into();
            }
        }
    }
    // the separator ends option parsing: the new positional parameters are exactly the arguments after the first `-` / `--`
    // in option position (or from the first operand on), verbatim; none of both = the parameters are left alone
    if !oracle.starts_with("FAIL") && obs.starts_with("ok modify") {
        if let Some((from, sep)) = so_operands_from(&args, None) {
            let want = if from >= args.len() && !sep {
                "params=~".to_string()
            } else {
                format!("params=[{}]", show_strs(args[from..].iter().map(|s| s.as_str())))
            };
            if !obs.ends_with(&format!(" {want}")) {
                oracle = format!("FAIL:operands must be the arguments from index {from} on, verbatim ({want}): {obs}");
            } else if oracle == "-" {
                oracle = "ok".into();
            }
        }
    }
    // malformed (unknown / unmodifiable letter or name, missing name) <=> rejected, by the independent reader
    if !oracle.starts_with("FAIL") {
        match set_reader_defect(portable, &args) {
            Some(true) if !obs.starts_with("err:") => oracle = format!("FAIL:malformed vector accepted: {obs}"),
            Some(false) if obs.starts_with("err:") => oracle = format!("FAIL:well-formed vector rejected: {obs}"),
            Some(_) if oracle == "-" => oracle = "ok".into(),
            _ => {}
        }
    }
    (obs, oracle)
}

fn run_h(w: &[&str]) -> (String, String) {
    let bad = || ("bad-case".to_string(), "-".to_string());
    if w.len() < 2 {
        return bad();
    }
    let Some(argv) = w[2..].iter().map(|a| dec_str(a)).collect::<Option<Vec<String>>>() else { return bad() };
    let obs = observe_sh(&argv);
    let oracle = if argv.is_empty() {
        "-".to_string()
    } else {
        let mut sep = vec![argv[0].clone()];
        sep.extend(separate_so(&argv[1..], false));
        let first = spelling_oracle(false, &obs, (sep != argv).then(|| observe_sh(&sep)));
        // `--name=ARG` as the first argument means `--name ARG` for the options that take an argument
        let eq = argv.get(1).and_then(|a| a.strip_prefix("--")).and_then(|b| b.split_once('=')).and_then(|(n, v)| {
            (!n.is_empty() && ("profile".starts_with(n) || "rcfile".starts_with(n))).then(|| {
                let mut w = vec![argv[0].clone(), format!("--{n}"), v.to_string()];
                w.extend_from_slice(&argv[2..]);
                w
            })
        });
        match eq {
            Some(w) if !first.starts_with("FAIL") => {
                let o2 = observe_sh(&w);
                if o2 == obs { "ok".to_string() } else { format!("FAIL:`--name=ARG` differs from `--name ARG`: {o2}") }
            }
            _ => first,
        }
    };
    // the separator ends option parsing: command string / script file / arg0 / positional parameters are the arguments after
    // the first `-` / `--` in option position (or from the first operand on), verbatim
    let oracle = if !oracle.starts_with("FAIL") && obs.starts_with("ok run ") && !argv.is_empty() {
        let arity = |a: &str| -> Option<usize> {
            match a {
                "--profile" | "--rcfile" => Some(2),
                "--noprofile" | "--norcfile" => Some(1),
                _ if a.starts_with("--profile=") || a.starts_with("--rcfile=") => Some(1),
                _ => None,
            }
        };
        match so_operands_from(&argv[1..], Some(&arity)) {
            Some((from, _)) => {
                let e: Vec<&str> = argv[1..][from.min(argv.len() - 1)..].iter().map(|s| s.as_str()).collect();
                let field = |k: &str| obs.split(' ').find_map(|f| f.strip_prefix(k)).unwrap_or("").to_string();
                let src = field("src=");
                let arg0 = field("arg0=");
                let params = field("params=");
                let want = |l: &[&str]| format!("[{}]", show_strs(l.iter().copied()));
                let good = if let Some(p) = src.strip_prefix("file:") {
                    !e.is_empty() && p == enc_str(e[0]) && arg0 == enc_str(e[0]) && params == want(&e[1..])
                } else if let Some(c) = src.strip_prefix("string:") {
                    !e.is_empty()
                        && c == enc_str(e[0])
                        && arg0 == enc_str(e.get(1).copied().unwrap_or(argv[0].as_str()))
                        && params == want(e.get(2..).unwrap_or(&[]))
                } else {
                    params == want(&e) && arg0 == enc_str(&argv[0])
                };
                if good {
                    if oracle == "-" { "ok".to_string() } else { oracle }
                } else {
                    format!("FAIL:operands must be the arguments {e:?} (from index {} on, verbatim): {obs}", from + 1)
                }
            }
            None => oracle,
        }
    } else {
        oracle
    };
    let oracle = match sh_reader_defect(argv.get(1..).unwrap_or(&[])) {
        Some(true) if !oracle.starts_with("FAIL") && !obs.starts_with("err:") => format!("FAIL:group with a letter that is no option accepted: {obs}"),
        Some(true) if oracle == "-" => "ok".to_string(),
        _ => oracle,
    };
    (obs, oracle)
}

fn run_k(w: &[&str]) -> (String, String) {
    let bad = || ("bad-case".to_string(), "-".to_string());
    if w.len() < 4 {
        return bad();
    }
    let portable = w[1] == "1";
    let Some(args) = w[4..].iter().map(|a| dec_str(a)).collect::<Option<Vec<String>>>() else { return bad() };
    let obs = observe_kill(portable, &args);
    let mut oracle = if portable {
        "-".to_string()
    } else {
        let sep = separate_kill(&args);
        spelling_oracle(false, &obs, (sep != args).then(|| observe_kill(false, &sep)))
    };
    // `--` ends option parsing: when the leading arguments are options (`-…`, where a final `s` / `n` behind `l` / `v` flags
    // takes the next argument) followed by `--`, the targets / signals are exactly the arguments after it, verbatim
    if !oracle.starts_with("FAIL") && obs.starts_with("ok ") {
        let mut i = 0;
        let mut sep = None;
        while i < args.len() {
            let cs: Vec<char> = args[i].chars().collect();
            if args[i] == "--" {
                sep = Some(i);
                break;
            }
            if cs.len() < 2 || cs[0] != '-' {
                break;
            }
            let npre = cs[1..].iter().take_while(|&&c| c == 'l' || c == 'v').count();
            let takes_next = npre + 2 == cs.len() && (cs[npre + 1] == 's' || cs[npre + 1] == 'n');
            i += if takes_next { 2 } else { 1 };
        }
        if let Some(k) = sep {
            let want = format!("[{}]", show_strs(args[k + 1..].iter().map(|s| s.as_str())));
            if !obs.split(' ').any(|f| f == want) {
                oracle = format!("FAIL:operands must be the arguments after the `--` at index {k}, verbatim {want}: {obs}");
            } else if oracle == "-" {
                oracle = "ok".into();
            }
        }
    }
    (obs, oracle)
}

/// The documented argument syntax of `set` read one argument at a time, independently of set/syntax.rs (it only asks
/// yash_env::option what a letter / a name denotes): `Some(true)` = the vector has, in option position, a group with a
/// letter that is no modifiable option, a `-o`/`+o` without a name, or a name (`-o NAME`, `-oNAME`, `--NAME`, `++NAME`)
/// that is unknown, ambiguous or not modifiable — malformed whatever the `portable` state; `Some(false)` = well formed
/// and `portable` neither on nor named; `None` = not judged (the `portable` option restricts the accepted spellings).
fn set_reader_defect(portable0: bool, args: &[String]) -> Option<bool> {
    use yash_env::option::{canonicalize, parse_long, parse_short};
    if args.is_empty() || (args.len() == 1 && (args[0] == "-o" || args[0] == "+o")) {
        return if portable0 { None } else { Some(false) };
    }
    let mut involved = portable0;
    let mut name_defect = |raw: &str| -> bool {
        match parse_long(&canonicalize(raw)) {
            Ok((o, _)) => {
                if o == ShOpt::Portable {
                    involved = true;
                }
                !o.is_modifiable()
            }
            Err(_) => true,
        }
    };
    let mut i = 0;
    while i < args.len() {
        let cs: Vec<char> = args[i].chars().collect();
        // operand, or the separator `-`
        if cs.len() < 2 || !(cs[0] == '-' || cs[0] == '+') {
            break;
        }
        if cs[1] == cs[0] {
            // `--` is the separator; `--NAME` / `++NAME` (the latter also with an empty NAME) are long options
            if cs.len() == 2 && cs[0] == '-' {
                break;
            }
            let name: String = cs[2..].iter().collect();
            if name_defect(&name) {
                return Some(true);
            }
            i += 1;
            continue;
        }
        // a group of option letters behind one sign; `o` takes the rest of the group or the next argument as a name
        let mut k = 1;
        while k < cs.len() {
            let c = cs[k];
            if c == 'o' {
                let raw: String = if k + 1 < cs.len() {
                    cs[k + 1..].iter().collect()
                } else {
                    i += 1;
                    match args.get(i) {
                        Some(a) => a.clone(),
                        None => return Some(true),
                    }
                };
                if name_defect(&raw) {
                    return Some(true);
                }
                break;
            }
            match parse_short(c) {
                Some((o, _)) if o.is_modifiable() => {}
                _ => return Some(true),
            }
            k += 1;
        }
        i += 1;
    }
    if involved { None } else { Some(false) }
}

/// the same for the leading arguments of the shell's own command line, as far as they are groups of plain letters
/// (not `o`, not `V`): `Some(true)` = a group contains a letter that is no option
fn sh_reader_defect(args: &[String]) -> Option<bool> {
    for a in args {
        let cs: Vec<char> = a.chars().collect();
        if cs.len() < 2 || !(cs[0] == '-' || cs[0] == '+') || cs[1] == cs[0] {
            return None;
        }
        for &c in &cs[1..] {
            if c == 'o' || c == 'V' {
                return None;
            }
            if yash_env::option::parse_short(c).is_none() {
                return Some(true);
            }
        }
    }
    None
}

fn opt_by_name(name: &str) -> Option<ShOpt> {
    ShOpt::iter().find(|o| o.long_name() == name)
}

struct SetRun {
    status: i32,
    diag: bool,
    stdout: String,
    options: Vec<(ShOpt, OptState)>,
    params: Vec<String>,
    stuck: bool,
}

/// `set ARGS…` as the only command of a script, in a shell with the given option states and positional parameters
fn set_run(init: &[(ShOpt, OptState)], params0: &[String], args: &[String]) -> SetRun {
    let mut script = String::from("set");
    for a in args {
        script.push(' ');
        script.push_str(&sh_quote(a));
    }
    let mut cfg = shell::Config::new(&script);
    cfg.positional_params = params0.to_vec();
    let init: Vec<(ShOpt, OptState)> = init.to_vec();
    let (o, fin) = shell::run_with(
        cfg,
        move |env, _| {
            for (opt, st) in &init {
                env.options.set(*opt, *st);
            }
        },
        |env, _| {
            let options: Vec<(ShOpt, OptState)> = ShOpt::iter().map(|o| (o, env.options.get(o))).collect();
            let params: Vec<String> = env.variables.positional_params().values.clone();
            (options, params)
        },
    );
    let (options, params) = fin.unwrap_or_default();
    SetRun { status: o.exit_status, diag: !o.stderr.is_empty(), stdout: o.stdout_str(), options, params, stuck: o.stuck }
}

fn run_u(w: &[&str]) -> (String, String) {
    let bad = || ("bad-case".to_string(), "-".to_string());
    if w.len() < 4 {
        return bad();
    }
    let mut init: Vec<(ShOpt, OptState)> = vec![];
    for e in w[2].split(';') {
        let Some((n, b)) = e.split_once('.') else { return bad() };
        let Some(o) = opt_by_name(n) else { return bad() };
        init.push((o, if b == "1" { OptState::On } else { OptState::Off }));
    }
    let params0: Vec<String> = if w[3] == "_" {
        vec![]
    } else {
        match w[3].split(',').map(dec_str).collect::<Option<Vec<String>>>() {
            Some(v) => v,
            None => return bad(),
        }
    };
    let Some(args) = w[4..].iter().map(|a| dec_str(a)).collect::<Option<Vec<String>>>() else { return bad() };
    let state0 = |o: ShOpt| init.iter().rev().find(|(p, _)| *p == o).map(|(_, s)| *s);
    guarded_pair(|| {
        let r = set_run(&init, &params0, &args);
        if r.stuck {
            return ("STUCK".to_string(), "-".to_string());
        }
        let changed: Vec<String> = r
            .options
            .iter()
            .filter(|(o, s)| state0(*o) != Some(*s))
            .map(|(o, s)| format!("{}={}", o.long_name(), st_bit(*s)))
            .collect();
        // what `set` with no argument prints depends on the variables, which are not part of the case
        let out = if r.stdout.is_empty() {
            "-".to_string()
        } else if args.is_empty() {
            "vars".to_string()
        } else {
            enc_str(&r.stdout)
        };
        let obs = format!(
            "st={} diag={} out={} chg=[{}] params=[{}]",
            r.status,
            r.diag as u8,
            out,
            changed.join(";"),
            show_strs(r.params.iter().map(|s| s.as_str()))
        );
        let untouched = changed.is_empty() && r.params == params0;
        let portable0 = state0(ShOpt::Portable) == Some(OptState::On);
        let rejected_cleanly = r.diag && r.status != 0 && r.stdout.is_empty() && untouched;
        // an accepted invocation that modifies: the positional parameters afterwards are the arguments after the first
        // separator / from the first operand on, verbatim (or unchanged when there is neither)
        let print_form = args.is_empty() || (args.len() == 1 && (args[0] == "-o" || args[0] == "+o"));
        let operands_wrong = if r.status == 0 && !r.diag && !print_form {
            so_operands_from(&args, None).and_then(|(from, sep)| {
                let want: Vec<String> = if from >= args.len() && !sep { params0.clone() } else { args[from..].to_vec() };
                (r.params != want).then(|| format!("FAIL:positional parameters must be {want:?} (arguments from index {from} on, verbatim) but are {:?}", r.params))
            })
        } else {
            None
        };
        let oracle = match set_reader_defect(portable0, &args) {
            _ if operands_wrong.is_some() => operands_wrong.unwrap(),
            Some(true) if !rejected_cleanly => format!(
                "FAIL:malformed invocation not rejected without effect: status {}, diagnostic {}, output {}, options changed [{}], parameters {:?}",
                r.status, r.diag, !r.stdout.is_empty(), changed.join(";"), r.params
            ),
            Some(false) if r.status != 0 || r.diag => format!("FAIL:well-formed invocation rejected: status {}, diagnostic {}", r.status, r.diag),
            _ if r.status != 0 && !rejected_cleanly => format!(
                "FAIL:non-zero status {} but diagnostic {}, output {}, options changed [{}], parameters {:?}",
                r.status, r.diag, !r.stdout.is_empty(), changed.join(";"), r.params
            ),
            _ if r.status == 0 && r.diag => "FAIL:diagnostic with zero status".to_string(),
            Some(_) => "ok".to_string(),
            None => "-".to_string(),
        };
        (obs, oracle)
    })
}

// ------------------------------------------------------------------------------------------
// `Y`: the bespoke parser of the typeset family (typeset/syntax.rs `parse` + `interpret`) called directly
//
//   `Y <ln><p> <table> <arg>*`   <ln> = Mode::long_option_names, <p> = the `portable` state handed to `interpret`,
//   <table> = `@typeset` | `@export` | `@readonly` (the REAL constants; the model uses the re-extracted
//   `Generated.ArgSpecs.typesetTables`) or `_` / comma-separated `<short>:<long>:<attr>` (attr 0 none, 1 ReadOnly, 2 Export)
//
// Observation: `err:<class>[:char]` or `ok [<short>.<attr>=<state>;…] [operands] => <command | ierr:… | skip>` (the
// occurrences are printed as well as the command, so a parser mistake that `interpret` happens to absorb still shows).
// Oracle (Rust only): an independent argument-at-a-time reader of the documented syntax over the table must give the
// same answer, and the canonical spelling (one `-c` / `+c` per option, computed by that reader) must parse alike.

use yash_builtin::typeset::syntax as ty;

#[derive(Clone, Debug, PartialEq, Eq)]
struct TSpecD {
    short: char,
    long: String,
    attr: u8,
}

fn ty_attr(a: Option<ty::Attr>) -> u8 {
    match a {
        None => 0,
        Some(ty::Attr::ReadOnly) => 1,
        Some(ty::Attr::Export) => 2,
    }
}

fn y_table(t: &str) -> Option<Vec<TSpecD>> {
    let real = |l: &[ty::OptionSpec<'static>]| -> Vec<TSpecD> {
        l.iter().map(|s| TSpecD { short: s.short, long: s.long.to_string(), attr: ty_attr(s.attr) }).collect()
    };
    match t {
        "@typeset" => Some(real(ty::ALL_OPTIONS)),
        "@export" => Some(real(yash_builtin::export::PORTABLE_OPTIONS)),
        "@readonly" => Some(real(yash_builtin::readonly::PORTABLE_OPTIONS)),
        "_" => Some(vec![]),
        _ => t
            .split(',')
            .map(|e| {
                let f: Vec<&str> = e.split(':').collect();
                if f.len() != 3 {
                    return None;
                }
                let sh = dec_str(f[0])?;
                let mut cs = sh.chars();
                let (Some(c), None) = (cs.next(), cs.next()) else { return None };
                let attr = match f[2] {
                    "0" => 0,
                    "1" => 1,
                    "2" => 2,
                    _ => return None,
                };
                Some(TSpecD { short: c, long: dec_str(f[1])?, attr })
            })
            .collect(),
    }
}

fn show_ytable(t: &[TSpecD]) -> String {
    if t.is_empty() {
        return "_".into();
    }
    t.iter().map(|s| format!("{}:{}:{}", enc_str(&s.short.to_string()), enc_str(&s.long), s.attr)).collect::<Vec<_>>().join(",")
}

fn y_interpretable(t: &[TSpecD]) -> bool {
    t.iter().all(|s| s.attr != 0 || matches!(s.short, 'f' | 'g' | 'p' | 'X'))
}

fn y_occ(short: char, attr: u8, on: bool) -> String {
    format!("{}.{}={}", enc_str(&short.to_string()), attr, on as u8)
}

fn y_attrs<I: Iterator<Item = (u8, bool)>>(l: I) -> String {
    l.map(|(a, s)| format!("{}={}", if a == 1 { "ro" } else { "ex" }, s as u8)).collect::<Vec<_>>().join(";")
}

/// the real `parse` (+ `interpret`) on one vector
fn observe_typeset(table: &[TSpecD], ln: bool, portable: bool, args: &[String]) -> String {
    use yash_builtin::typeset::{Command as C, FunctionAttr, Scope, VariableAttr};
    guarded(|| {
        let specs: Vec<ty::OptionSpec<'_>> = table
            .iter()
            .map(|s| ty::OptionSpec {
                short: s.short,
                long: s.long.as_str(),
                attr: match s.attr {
                    1 => Some(ty::Attr::ReadOnly),
                    2 => Some(ty::Attr::Export),
                    _ => None,
                },
            })
            .collect();
        let mut mode = Mode::default();
        mode.long_option_names = ln;
        let fields: Vec<Field> = args.iter().map(|a| Field::dummy(a.clone())).collect();
        let ch = |c: char| enc_str(&c.to_string());
        let on = |s: OptState| s == OptState::On;
        match ty::parse(&specs, mode, fields) {
            Err(e) => {
              // the report (and `ParseError::field`) is built as the built-in would, its text is not compared
              let _ = e.to_report();
              match e {
                ty::ParseError::UnknownShortOption(c, _) => format!("err:unknownShort:{}", ch(c)),
                ty::ParseError::UnknownLongOption(_) => "err:unknownLong".into(),
                ty::ParseError::AmbiguousLongOption(_) => "err:ambiguousLong".into(),
                ty::ParseError::NonPortableLongOption(_) => "err:nonPortableLong".into(),
                ty::ParseError::UncancelableShortOption(c, _) => format!("err:uncancelableShort:{}", ch(c)),
                ty::ParseError::UncancelableLongOption(_) => "err:uncancelableLong".into(),
                _ => "err:other".into(),
              }
            }
            Ok((options, operands)) => {
                let occs = options.iter().map(|o| y_occ(o.spec.short, ty_attr(o.spec.attr), on(o.state))).collect::<Vec<_>>().join(";");
                let ops = show_strs(operands.iter().map(|f| f.value.as_str()));
                let interp = if !y_interpretable(table) {
                    "skip".to_string()
                } else {
                    let vattr = |a: &VariableAttr| if *a == VariableAttr::ReadOnly { 1u8 } else { 2u8 };
                    let fattr = |a: &FunctionAttr| match a {
                        FunctionAttr::ReadOnly => 1u8,
                        _ => 9u8,
                    };
                    let strs = |l: &[Field]| show_strs(l.iter().map(|f| f.value.as_str()));
                    match ty::interpret(options, operands, if portable { OptState::On } else { OptState::Off }) {
                        Ok(C::SetVariables(v)) => format!(
                            "setvars [{}] g={} [{}]",
                            y_attrs(v.attrs.iter().map(|(a, s)| (vattr(a), on(*s)))),
                            (v.scope == Scope::Global) as u8,
                            strs(&v.variables)
                        ),
                        Ok(C::PrintVariables(v)) => format!(
                            "printvars [{}] g={} [{}]",
                            y_attrs(v.attrs.iter().map(|(a, s)| (vattr(a), on(*s)))),
                            (v.scope == Scope::Global) as u8,
                            strs(&v.variables)
                        ),
                        Ok(C::SetFunctions(v)) => {
                            format!("setfns [{}] [{}]", y_attrs(v.attrs.iter().map(|(a, s)| (fattr(a), on(*s)))), strs(&v.functions))
                        }
                        Ok(C::PrintFunctions(v)) => {
                            format!("printfns [{}] [{}]", y_attrs(v.attrs.iter().map(|(a, s)| (fattr(a), on(*s)))), strs(&v.functions))
                        }
                        Err(ty::InterpretError::OptionInapplicableForFunction { clashing, function }) => format!(
                            "ierr:inapplicable:{}:{}",
                            y_occ(clashing.spec.short, ty_attr(clashing.spec.attr), on(clashing.state)),
                            y_occ(function.spec.short, ty_attr(function.spec.attr), on(function.state))
                        ),
                        Err(ty::InterpretError::MissingOperand) => "ierr:missingOperand".into(),
                        Err(ty::InterpretError::UnexpectedOperands { operands, .. }) => {
                            format!("ierr:unexpectedOperands:[{}]", strs(&operands))
                        }
                        Err(_) => "ierr:other".into(),
                    }
                };
                format!("ok [{occs}] [{ops}] => {interp}")
            }
        }
    })
}

/// The independent reader (no yash code): one argument at a time; a group is `sign letter…` whose first letter is
/// not the same sign, a long option `--name` / `++name`, `--` the separator, anything else the first operand.
/// Returns the parse part of the observation and the canonical spelling of the vector.
fn y_reader(table: &[TSpecD], ln: bool, args: &[String]) -> (String, Vec<String>) {
    let mut occs: Vec<String> = vec![];
    let mut canon: Vec<String> = vec![];
    let mut i = 0;
    let mut operands: &[String] = &[];
    while i < args.len() {
        let a = &args[i];
        let cs: Vec<char> = a.chars().collect();
        if a == "--" {
            canon.extend_from_slice(&args[i..]);
            operands = &args[i + 1..];
            i = args.len();
            break;
        }
        let sign = match cs.first() {
            Some('-') => Some(false),
            Some('+') => Some(true),
            _ => None,
        };
        let sc = |n: bool| if n { '+' } else { '-' };
        match sign {
            Some(neg) if cs.len() >= 2 && cs[1] == sc(neg) => {
                // long option
                let name: String = cs[2..].iter().collect();
                let cands: Vec<&TSpecD> = table.iter().filter(|s| s.long.starts_with(&name)).collect();
                let err = if cands.is_empty() {
                    Some("err:unknownLong")
                } else if cands.len() > 1 {
                    Some("err:ambiguousLong")
                } else if neg && cands[0].attr == 0 {
                    Some("err:uncancelableLong")
                } else if !ln {
                    Some("err:nonPortableLong")
                } else {
                    None
                };
                if let Some(e) = err {
                    canon.extend_from_slice(&args[i..]);
                    return (e.to_string(), canon);
                }
                occs.push(y_occ(cands[0].short, cands[0].attr, !neg));
                canon.push(format!("{}{}", sc(neg), cands[0].short));
            }
            Some(neg) if cs.len() >= 2 => {
                let mut mine = vec![];
                for &c in &cs[1..] {
                    match table.iter().find(|s| s.short == c) {
                        None => {
                            canon.extend_from_slice(&args[i..]);
                            return (format!("err:unknownShort:{}", enc_str(&c.to_string())), canon);
                        }
                        Some(s) if neg && s.attr == 0 => {
                            canon.extend_from_slice(&args[i..]);
                            return (format!("err:uncancelableShort:{}", enc_str(&c.to_string())), canon);
                        }
                        Some(s) => {
                            mine.push(y_occ(s.short, s.attr, !neg));
                            canon.push(format!("{}{}", sc(neg), c));
                        }
                    }
                }
                occs.extend(mine);
            }
            _ => {
                canon.extend_from_slice(&args[i..]);
                operands = &args[i..];
                i = args.len();
                break;
            }
        }
        i += 1;
    }
    let _ = i;
    (format!("ok [{}] [{}]", occs.join(";"), show_strs(operands.iter().map(|s| s.as_str()))), canon)
}

fn run_y(w: &[&str]) -> (String, String) {
    let bad = || ("bad-case".to_string(), "-".to_string());
    if w.len() < 3 || w[1].len() != 2 {
        return bad();
    }
    let ln = &w[1][0..1] == "1";
    let portable = &w[1][1..2] == "1";
    let Some(table) = y_table(w[2]) else { return bad() };
    let Some(args) = w[3..].iter().map(|a| dec_str(a)).collect::<Option<Vec<String>>>() else { return bad() };
    let obs = observe_typeset(&table, ln, portable, &args);
    let parse_part = obs.split(" => ").next().unwrap_or("").to_string();
    let (expect, canon) = y_reader(&table, ln, &args);
    // a table with a sign as an option letter, or two options under one letter, has no canonical spelling
    let well_formed = table.iter().enumerate().all(|(i, s)| s.short != '-' && s.short != '+' && table.iter().position(|t| t.short == s.short) == Some(i));
    let oracle = if parse_part != expect {
        format!("FAIL:independent reader gives {expect}")
    } else if well_formed && canon != args {
        let o2 = observe_typeset(&table, ln, portable, &canon);
        if o2 != obs { format!("FAIL:canonical spelling {canon:?} gives {o2}") } else { "ok".into() }
    } else {
        "ok".into()
    };
    (obs, oracle)
}

fn y_case(ln: bool, portable: bool, table: &str, args: &[&str]) -> String {
    let mut s = format!("Y {}{} {}", ln as u8, portable as u8, table);
    for a in args {
        s.push(' ');
        s.push_str(&enc_str(a));
    }
    s
}

const Y_TOKENS: [&str; 62] = [
    "-f", "-g", "-p", "-r", "-x", "-X", "-fg", "-gp", "-rx", "-xX", "-pz", "-z", "-fpr", "+r", "+x", "+X", "+rx", "+p", "+f", "+xp", "+xz",
    "--", "-", "+", "++", "-+", "+-", "-+r", "+-x", "-r-", "+x+", "--functions", "--f", "--global", "--print", "--p", "--readonly", "--r",
    "--export", "--e", "--ex", "--unexport", "--u", "--un", "++readonly", "++r", "++export", "++e", "++unexport", "++print", "++p", "--x",
    "--zzz", "++zzz", "--readonlyx", "name", "name=v", "", "é", "-é", "--é", "---",
];

/// tables that are not the real ones: nested long names (typeset's parser gives an exactly named option no preference),
/// a shared first letter, duplicate letters, a sign as a letter, non-ASCII names, an empty long name, the empty table
fn y_odd_tables() -> Vec<Vec<TSpecD>> {
    let t = |l: &[(char, &str, u8)]| l.iter().map(|(c, n, a)| TSpecD { short: *c, long: n.to_string(), attr: *a }).collect::<Vec<_>>();
    vec![
        t(&[('f', "functions", 0), ('p', "print", 0), ('r', "readonly", 1), ('x', "export", 2), ('e', "exportall", 2)]),
        t(&[('p', "print", 0), ('r', "re", 1), ('x', "readonly", 1), ('X', "rex", 2)]),
        t(&[('r', "readonly", 1), ('r', "really", 2), ('p', "print", 0)]),
        t(&[('-', "dash", 1), ('+', "plus", 2), ('p', "print", 0)]),
        t(&[('é', "été", 1), ('x', "", 2), ('g', "global", 0)]),
        t(&[('z', "zeta", 0), ('r', "readonly", 1)]),
        t(&[]),
    ]
}

fn typeset_cases(e: &mut Emitter, rng: &mut Rng, thorough: bool) {
    let modes: &[(bool, bool)] = &[(true, false), (false, true), (true, true), (false, false)];
    // the real tables: every vector over the token set
    let maxlen = if thorough { 3 } else { 2 };
    enumerate_tokens(e, &Y_TOKENS, maxlen, &mut |a| {
        let ms = if a.len() < 2 || (thorough && a.len() < 3) { modes } else { &modes[..2] };
        let mut v: Vec<String> = ms.iter().map(|(ln, p)| y_case(*ln, *p, "@typeset", a)).collect();
        if a.len() < 2 || (thorough && a.len() < 3) {
            v.push(y_case(true, false, "@export", a));
            v.push(y_case(false, true, "@readonly", a));
        }
        v
    });
    // odd tables and the real ones: random vectors of length 3-6 over the tokens and over tokens made from the table
    let odd = y_odd_tables();
    let n = if thorough { 60_000 } else { 3_000 };
    for k in 0..n {
        let (name, table): (String, Vec<TSpecD>) = match k % 10 {
            0 => ("@typeset".into(), y_table("@typeset").unwrap()),
            1 => ("@export".into(), y_table("@export").unwrap()),
            2 => ("@readonly".into(), y_table("@readonly").unwrap()),
            j => {
                let t = odd[(j - 3) % odd.len()].clone();
                (show_ytable(&t), t)
            }
        };
        let mut toks: Vec<String> = vec![];
        for s in &table {
            toks.push(format!("-{}", s.short));
            toks.push(format!("+{}", s.short));
            toks.push(format!("--{}", s.long));
            toks.push(format!("++{}", s.long));
            let cs: Vec<char> = s.long.chars().collect();
            if !cs.is_empty() {
                let cut = 1 + rng.below(cs.len()) as usize;
                let pre: String = cs[..cut].iter().collect();
                toks.push(format!("--{pre}"));
                toks.push(format!("++{pre}"));
            }
        }
        if table.len() >= 2 {
            let a = &table[rng.below(table.len())];
            let b = &table[rng.below(table.len())];
            toks.push(format!("-{}{}", a.short, b.short));
            toks.push(format!("+{}{}", a.short, b.short));
            toks.push(format!("-{}{}{}", b.short, a.short, b.short));
        }
        let len = 1 + rng.below(6);
        let mut args: Vec<String> = vec![];
        for _ in 0..len {
            if !toks.is_empty() && rng.below(3) != 0 {
                args.push(toks[rng.below(toks.len())].clone());
            } else {
                args.push(Y_TOKENS[rng.below(Y_TOKENS.len())].to_string());
            }
        }
        let (ln, p) = modes[rng.below(4)];
        let refs: Vec<&str> = args.iter().map(|s| s.as_str()).collect();
        e.case(&y_case(ln, p, &name, &refs));
    }
}

// ------------------------------------------------------------------------------------------
// `Q <builtin> <portable> <arg>*`: the whole `syntax::parse` of a common-parser built-in (parse_arguments + what the
// built-in's syntax.rs does afterwards: operand counts, exclusive options, required operands), called directly.
// Observation: the Command, or the error class (a CommonError with the class of the parse_arguments error).
// Oracle (Rust only): the option part rewritten into other spellings (groups split, letters replaced by long names,
// single letters merged into one group, a `--` inserted) must give the same Command / error class.

fn observe_q(builtin: &str, portable: bool, args: &[String]) -> String {
    guarded(|| {
        let mut env = yash_env::Env::new_virtual();
        if portable {
            env.options.set(ShOpt::Portable, OptState::On);
        }
        let fields: Vec<Field> = args.iter().map(|a| Field::dummy(a.clone())).collect();
        let strs = |l: &[Field]| show_strs(l.iter().map(|f| f.value.as_str()));
        match builtin {
            "cd" => {
                use yash_builtin::cd::syntax::Error as E;
                match yash_builtin::cd::syntax::parse(&env, fields) {
                    Ok(c) => format!(
                        "ok cd physical={} ensure={} operand={}",
                        (c.mode == yash_builtin::cd::Mode::Physical) as u8,
                        c.ensure_pwd as u8,
                        c.operand.map(|f| enc_str(&f.value)).unwrap_or_else(|| "~".into())
                    ),
                    Err(E::CommonError(e)) => format!("err:common:{}", show_err(&e)),
                    Err(E::EnsurePwdNotPhysical(_)) => "err:ensurePwdNotPhysical".into(),
                    Err(E::EmptyOperand(_)) => "err:emptyOperand".into(),
                    Err(E::UnexpectedOperands(o)) => format!("err:unexpectedOperands:[{}]", strs(&o)),
                    Err(_) => "err:other".into(),
                }
            }
            "pwd" => {
                use yash_builtin::pwd::syntax::Error as E;
                match yash_builtin::pwd::syntax::parse(&env, fields) {
                    Ok(m) => format!("ok pwd physical={}", (m == yash_builtin::pwd::Mode::Physical) as u8),
                    Err(E::CommonError(e)) => format!("err:common:{}", show_err(&e)),
                    Err(E::UnexpectedOperands(o)) => format!("err:unexpectedOperands:[{}]", strs(&o)),
                    Err(_) => "err:other".into(),
                }
            }
            "unset" => {
                use yash_builtin::unset::syntax::Error as E;
                match yash_builtin::unset::syntax::parse(&env, fields) {
                    Ok(c) => format!("ok unset functions={} [{}]", (c.mode == yash_builtin::unset::Mode::Functions) as u8, strs(&c.names)),
                    Err(E::CommonError(e)) => format!("err:common:{}", show_err(&e)),
                    Err(E::ConflictingOption(_)) => "err:conflictingOption".into(),
                    Err(E::MissingOperand) => "err:missingOperand".into(),
                    Err(_) => "err:other".into(),
                }
            }
            "unalias" => {
                use yash_builtin::unalias::Command as C;
                use yash_builtin::unalias::syntax::Error as E;
                match yash_builtin::unalias::syntax::parse(&env, fields) {
                    Ok(C::Remove(n)) => format!("ok unalias remove [{}]", strs(&n)),
                    Ok(C::RemoveAll) => "ok unalias all".into(),
                    Err(E::CommonError(e)) => format!("err:common:{}", show_err(&e)),
                    Err(E::ConflictingOptionAndOperand { .. }) => "err:conflictingOptionAndOperand".into(),
                    Err(E::MissingArgument) => "err:missingArgument".into(),
                    Err(_) => "err:other".into(),
                }
            }
            _ => "bad-builtin".into(),
        }
    })
}

/// other spellings of the leading option arguments (all four tables have flags only): split, long names, merged, `--`
fn q_variants(specs: &[SpecD], args: &[String]) -> Vec<Vec<String>> {
    let mut letters: Vec<char> = vec![];
    let mut i = 0;
    while i < args.len() {
        let cs: Vec<char> = args[i].chars().collect();
        if cs.len() >= 2 && cs[0] == '-' && cs[1] != '-' && cs[1..].iter().all(|c| first_short(specs, *c).is_some()) {
            letters.extend_from_slice(&cs[1..]);
            i += 1;
        } else {
            break;
        }
    }
    if letters.is_empty() {
        return vec![];
    }
    let rest = &args[i..];
    let with = |opts: Vec<String>, sep: bool| {
        let mut v = opts;
        if sep {
            v.push("--".into());
            if rest.first().map(|s| s.as_str()) == Some("--") {
                v.extend_from_slice(&rest[1..]);
                return v;
            }
            // an inserted `--` is only equivalent if the options really end here
            if rest.first().is_some_and(|a| a.starts_with('-') && a.len() > 1) {
                v.pop();
            }
        }
        v.extend_from_slice(rest);
        v
    };
    let split: Vec<String> = letters.iter().map(|c| format!("-{c}")).collect();
    let merged = vec![format!("-{}", letters.iter().collect::<String>())];
    let long: Vec<String> = letters
        .iter()
        .map(|c| match first_short(specs, *c).and_then(|s| s.long.clone()) {
            Some(l) => format!("--{l}"),
            None => format!("-{c}"),
        })
        .collect();
    vec![with(split.clone(), false), with(merged, false), with(long, false), with(split, true)]
}

fn run_q(w: &[&str], tables: &[(String, Vec<SpecD>)]) -> (String, String) {
    let bad = || ("bad-case".to_string(), "-".to_string());
    if w.len() < 3 {
        return bad();
    }
    let portable = w[2] == "1";
    let Some(args) = w[3..].iter().map(|a| dec_str(a)).collect::<Option<Vec<String>>>() else { return bad() };
    let obs = observe_q(w[1], portable, &args);
    let Some((_, specs)) = tables.iter().find(|(n, _)| n == w[1]) else { return bad() };
    let mut oracle = "-".to_string();
    for v in q_variants(specs, &args) {
        if v == args {
            continue;
        }
        let long_used = v.iter().take_while(|a| a.starts_with('-') && a.as_str() != "--").any(|a| a.starts_with("--"));
        if portable && long_used {
            continue; // long names are rejected under `portable` by design
        }
        let o2 = observe_q(w[1], portable, &v);
        if o2 != obs {
            oracle = format!("FAIL:spelling {v:?} gives {o2}");
            break;
        }
        oracle = "ok".into();
    }
    (obs, oracle)
}

fn post_cases(e: &mut Emitter, rng: &mut Rng, tables: &[(String, Vec<SpecD>)], thorough: bool) {
    for b in ["cd", "pwd", "unset", "unalias"] {
        let Some((_, specs)) = tables.iter().find(|(n, _)| n == b) else { continue };
        let mut toks: Vec<String> = vec!["--".into(), "-".into(), "x".into(), "y".into(), "".into(), "-Z".into(), "--zzz".into(), "-x".into()];
        for s in specs {
            if let Some(c) = s.short {
                toks.push(format!("-{c}"));
                for s2 in specs {
                    if let Some(c2) = s2.short {
                        toks.push(format!("-{c}{c2}"));
                    }
                }
            }
            if let Some(l) = &s.long {
                toks.push(format!("--{l}"));
                toks.push(format!("--{}", &l[..1]));
                toks.push(format!("--{l}=x"));
            }
        }
        let refs: Vec<&str> = toks.iter().map(|s| s.as_str()).collect();
        let b_owned = b.to_string();
        let mk = |p: bool, a: &[&str]| {
            let mut s = format!("Q {} {}", b_owned, p as u8);
            for x in a {
                s.push(' ');
                s.push_str(&enc_str(x));
            }
            s
        };
        enumerate_tokens(e, &refs, 2, &mut |a| vec![mk(false, a), mk(true, a)]);
        for _ in 0..(if thorough { 20_000 } else { 800 }) {
            let len = 3 + rng.below(3);
            let a: Vec<&str> = (0..len).map(|_| refs[rng.below(refs.len())]).collect();
            let p = rng.chance(1, 4);
            e.case(&mk(p, &a));
        }
    }
}

fn guarded_pair<F: FnOnce() -> (String, String)>(f: F) -> (String, String) {
    let cell = std::cell::RefCell::new(String::from("-"));
    let obs = guarded(|| {
        let (o, r) = f();
        *cell.borrow_mut() = r;
        o
    });
    (obs, cell.into_inner())
}

fn u_case(init: &[(ShOpt, OptState)], params0: &[&str], args: &[&str]) -> String {
    let v: Vec<String> = args.iter().map(|s| s.to_string()).collect();
    let init_s: Vec<String> = init.iter().map(|(o, s)| format!("{}.{}", o.long_name(), st_bit(*s))).collect();
    let p0 = if params0.is_empty() { "_".to_string() } else { params0.iter().map(|p| enc_str(p)).collect::<Vec<_>>().join(",") };
    let mut s = format!("U {} {} {}", names_dict(&v, false), init_s.join(";"), p0);
    for a in args {
        s.push(' ');
        s.push_str(&enc_str(a));
    }
    s
}

/// the option states of a freshly configured virtual shell (`sh -c script`), with the given ones overridden
fn initial_options(over: &[(ShOpt, OptState)]) -> Vec<(ShOpt, OptState)> {
    let (_, fin) = shell::run_with(
        shell::Config::new(":"),
        |_, _| (),
        |env, _| ShOpt::iter().map(|o| (o, env.options.get(o))).collect::<Vec<_>>(),
    );
    let mut v = fin.unwrap_or_default();
    for (o, s) in over {
        for e in v.iter_mut() {
            if e.0 == *o {
                e.1 = *s;
            }
        }
    }
    v
}

/// every arrangement of signs, an option letter and `o` of length 1 to 3: `-`, `+-`, `-+e`, `+o-`, `--e`, `-eo`, …
fn sign_arrangements() -> Vec<String> {
    let alphabet = ['-', '+', 'e', 'o'];
    let mut v: Vec<String> = vec![];
    for a in alphabet {
        v.push(a.to_string());
        for b in alphabet {
            v.push(format!("{a}{b}"));
            for c in alphabet {
                v.push(format!("{a}{b}{c}"));
            }
        }
    }
    v
}

/// the arrangements at every argument position: alone, before and after valid options / `--` / `-o NAME` / operands
fn sign_vectors(pairs: bool) -> Vec<Vec<String>> {
    let toks = sign_arrangements();
    let ctx: [&[&str]; 10] =
        [&["-e"], &["+u"], &["--"], &["-"], &["-o"], &["-o", "errexit"], &["errexit"], &["X"], &["--errexit"], &["-eo"]];
    let s = |l: &[&str]| l.iter().map(|x| x.to_string()).collect::<Vec<String>>();
    let mut out: Vec<Vec<String>> = vec![];
    for t in &toks {
        out.push(vec![t.clone()]);
        for c in ctx {
            let mut a = s(c);
            a.push(t.clone());
            out.push(a.clone());
            let mut b = vec![t.clone()];
            b.extend(s(c));
            out.push(b);
            for d in [&["errexit"][..], &["X"], &["-u"], &["--"]] {
                let mut e = a.clone();
                e.extend(s(d));
                out.push(e);
            }
        }
    }
    if pairs {
        for t in &toks {
            for u in &toks {
                out.push(vec![t.clone(), u.clone()]);
            }
        }
    }
    out
}

fn t_case(portable: bool, args: &[&str]) -> String {
    let v: Vec<String> = args.iter().map(|s| s.to_string()).collect();
    let mut s = format!("T {} {}", portable as u8, names_dict(&v, false));
    for a in args {
        s.push(' ');
        s.push_str(&enc_str(a));
    }
    s
}

fn h_case(argv: &[&str]) -> String {
    let v: Vec<String> = argv.iter().skip(1).map(|s| s.to_string()).collect();
    let mut s = format!("H {}", names_dict(&v, false));
    for a in argv {
        s.push(' ');
        s.push_str(&enc_str(a));
    }
    s
}

fn k_case(portable: bool, args: &[&str]) -> String {
    let v: Vec<String> = args.iter().map(|s| s.to_string()).collect();
    let sigterm = <shell::VSys as yash_env::system::Signals>::SIGTERM.as_raw();
    let mut s = format!("K {} {} {}", portable as u8, sigterm, names_dict(&v, true));
    for a in args {
        s.push(' ');
        s.push_str(&enc_str(a));
    }
    s
}

const T_TOKENS: [&str; 55] = [
    "-e", "-u", "-eu", "+e", "+eu", "-o", "+o", "errexit", "noglob", "-oerrexit", "-onoglob", "+oerrexit", "--errexit",
    "++errexit", "--noglob", "--err", "-ex", "-eo", "-euo", "--", "-", "X", "-Z", "-eZ", "-i", "-oi", "--interactive",
    "portable", "--portable", "-oportable", "--no", "--e", "-C", "nounset", "+C", "", "-e-", "++", "-oErr-Exit", "-n",
    // names with non-ASCII alphanumerics (é ß fullwidth Ａ, Arabic-Indic digit ٣) and non-ASCII punctuation (– en dash, · middle dot)
    "-oerrexité", "-oerr-exité", "--ERREXITé", "-oErr_Exité", "--x-é", "errexité", "err-exité", "--errexitß", "--Ａllexport",
    "--err٣", "--err–exit", "++x·trace", "-oé", "--é-", "+oXTRACEé",
];
const H_ARG0: [&str; 4] = ["yash", "-yash", "/bin/sh", "sh"];
const H_TOKENS: [&str; 67] = [
    "-c", "-s", "-cs", "-i", "-e", "-ec", "+e", "-V", "-eV", "+V", "-o", "errexit", "-oerrexit", "--errexit", "++errexit",
    "--profile", "--profile=p", "--pro", "--rcfile=r", "--norcfile", "--noprofile", "--nopro", "--help", "--version",
    "--ver", "--help=x", "++help", "--", "-", "cmd", "script", "--portable", "-oportable", "-ce", "+c", "--no", "--n",
    "--posixlycorrect", "-l", "--login", "-Z", "--zz", "+s", "-eo", "--r", "", "-oErr-Exit", "err-exit", "--interactive", "--cmdline",
    // option-arguments that themselves contain `=` (several, leading, trailing), empty ones, abbreviated names
    "--x-é", "--ERREXITé", "-oerr-exité", "err–exit", "--errexité", "++Xtraceß", "--Ａ",
    "--rcfile=a=b", "--profile==x", "--rc=x=", "--pro=a=b=c", "--rcfile=", "--rcfile", "a=b", "=", "--profile=a=b", "--errexit=x=y",
];
const K_TOKENS: [&str; 48] = [
    // real-time names and the edges of `str2sig` (wave 3: the model computes them from the extracted tables)
    "-RTMIN+1", "-sRTMAX-2", "RTMIN", "rtmax-0", "-sRTMAX+1", "-sRTMIN-1", "-sRTMINX", "CLD", "-sIOT", "-1",
    "-s", "-n", "-l", "-v", "-lv", "INT", "TERM", "int", "SIGINT", "sigint", "9", "0", "-9", "-INT", "-int", "-SIGINT",
    "-sINT", "-sSIGINT", "-s9", "-n9", "-nINT", "-stop", "-sigstop", "-lINT", "--", "-", "123", "%1", "-x", "-sx", "EXIT",
    "-0", "-s0", "300", "-ls", "-vINT", "-sl", "",
];

fn enumerate_tokens(e: &mut Emitter, tokens: &[&str], maxlen: usize, f: &mut dyn FnMut(&[&str]) -> Vec<String>) {
    let mut idx: Vec<usize> = vec![];
    loop {
        let args: Vec<&str> = idx.iter().map(|&i| tokens[i]).collect();
        // one index per vector (all variants of a vector stay on one shard)
        if e.mine() {
            for case in f(&args) {
                let (obs, oracle) = run_case(&case);
                emit(&case, &obs, &oracle);
            }
        }
        let mut k = idx.len();
        loop {
            if k == 0 {
                if idx.len() == maxlen {
                    return;
                }
                idx = vec![0; idx.len() + 1];
                break;
            }
            k -= 1;
            if idx[k] + 1 < tokens.len() {
                idx[k] += 1;
                for j in k + 1..idx.len() {
                    idx[j] = 0;
                }
                break;
            }
        }
    }
}

fn bespoke_cases(e: &mut Emitter, rng: &mut Rng, thorough: bool) {
    let maxlen = if thorough { 3 } else { 2 };
    enumerate_tokens(e, &T_TOKENS, maxlen, &mut |a| vec![t_case(false, a), t_case(true, a)]);
    enumerate_tokens(e, &K_TOKENS, maxlen, &mut |a| vec![k_case(false, a), k_case(true, a)]);
    enumerate_tokens(e, &H_TOKENS, maxlen, &mut |a| {
        let arg0s: &[&str] = if a.len() < 3 { &H_ARG0 } else { &H_ARG0[..1] };
        arg0s
            .iter()
            .map(|z| {
                let mut v = vec![*z];
                v.extend_from_slice(a);
                h_case(&v)
            })
            .collect()
    });
    // `sh` with no argv at all
    if e.mine() {
        let case = "H _".to_string();
        let (obs, oracle) = run_case(&case);
        emit(&case, &obs, &oracle);
    }
    // every sign / letter / `o` arrangement of length <= 3 at every argument position (set and the command line)
    let signs = sign_vectors(true);
    let npairs_from = sign_vectors(false).len();
    for (vi, v) in signs.iter().enumerate() {
        // quick: a third of the 84x84 pairs (the single arrangements and the context vectors all stay)
        if !thorough && vi >= npairs_from && vi % 3 != 0 {
            continue;
        }
        let a: Vec<&str> = v.iter().map(|s| s.as_str()).collect();
        if e.mine() {
            for case in [t_case(false, &a), t_case(true, &a)] {
                let (obs, oracle) = run_case(&case);
                emit(&case, &obs, &oracle);
            }
        }
        if v.len() <= 2 {
            let mut h = vec!["yash"];
            h.extend_from_slice(&a);
            e.case(&h_case(&h));
        }
    }
    // `U`: the set built-in run in a shell (status, diagnostic, output, option changes, positional parameters)
    let fresh = initial_options(&[]);
    let preset = initial_options(&[(ShOpt::ErrExit, OptState::On), (ShOpt::Clobber, OptState::Off), (ShOpt::Unset, OptState::Off)]);
    let port = initial_options(&[(ShOpt::Portable, OptState::On)]);
    for v in &sign_vectors(thorough) {
        let a: Vec<&str> = v.iter().map(|s| s.as_str()).collect();
        e.case(&u_case(&fresh, &["p", "q"], &a));
        if thorough || v.len() <= 2 {
            e.case(&u_case(&port, &["p", "q"], &a));
        }
    }
    enumerate_tokens(e, &T_TOKENS, 2, &mut |a| {
        let mut v = vec![u_case(&fresh, &["p", "q"], a)];
        if a.len() < 2 || thorough {
            v.push(u_case(&preset, &[], a));
            v.push(u_case(&port, &["p"], a));
        }
        v
    });
    for k in 0..(if thorough { 6_000 } else { 600 }) {
        let mut r = rng.fork();
        if !e.mine() {
            continue;
        }
        let len = 3 + r.below(3);
        let a: Vec<&str> = (0..len).map(|_| *r.pick(&T_TOKENS)).collect();
        let init = match k % 4 { 0 => &preset, 1 => &port, _ => &fresh };
        let case = u_case(init, &["p", "q"], &a);
        let (obs, oracle) = run_case(&case);
        emit(&case, &obs, &oracle);
    }
    // random longer vectors
    let n = if thorough { 40_000 } else { 1_500 };
    for k in 0..n {
        let mut r = rng.fork();
        if !e.mine() {
            continue;
        }
        let len = 3 + r.below(4);
        let case = match k % 3 {
            0 => {
                let a: Vec<&str> = (0..len).map(|_| *r.pick(&T_TOKENS)).collect();
                t_case(r.chance(1, 4), &a)
            }
            1 => {
                let a: Vec<&str> = (0..len).map(|_| *r.pick(&K_TOKENS)).collect();
                k_case(r.chance(1, 4), &a)
            }
            _ => {
                let mut a: Vec<&str> = vec![*r.pick(&H_ARG0)];
                a.extend((0..len).map(|_| *r.pick(&H_TOKENS)));
                h_case(&a)
            }
        };
        let (obs, oracle) = run_case(&case);
        emit(&case, &obs, &oracle);
    }
}

// ------------------------------------------------------------------------------------------
// `B` / `E`: shell-level legs for the built-ins whose syntax.rs does more than `parse_arguments`

/// like `shell::run_script`, with executable `/bin/{true,false,pwd}` and `PATH=/bin` so that the
/// substitutive built-ins can be used
fn run_script_bins(script: &str) -> shell::Outcome {
    use yash_env::system::r#virtual::{FileBody, Inode};
    use yash_env::variable::Scope;
    shell::run_with(
        shell::Config::new(script),
        |env, state| {
            for n in ["true", "false", "pwd"] {
                let inode = Inode {
                    body: FileBody::new(Vec::<u8>::new()),
                    permissions: yash_env::system::Mode::from_bits_truncate(0o755),
                };
                let _ = state
                    .borrow_mut()
                    .file_system
                    .save(&format!("/bin/{n}"), std::rc::Rc::new(std::cell::RefCell::new(inode)));
            }
            let _ = env.variables.get_or_new("PATH", Scope::Global).assign("/bin", None);
        },
        |_, _| (),
    )
    .0
}

fn run_invocation_b(setup: &str, cmd: &str, args: Option<&[String]>, probe: &str, portable: bool) -> ShellObs {
    let mut script = String::new();
    script.push_str(setup);
    script.push('\n');
    if portable {
        script.push_str("set -o portable\n");
    }
    if let Some(args) = args {
        script.push_str(cmd);
        for a in args {
            script.push(' ');
            script.push_str(&sh_quote(a));
        }
        script.push('\n');
    } else {
        script.push_str("st 0\n");
    }
    script.push_str("echo \"@@status=$?\"\nset +o portable\n");
    script.push_str(probe);
    script.push('\n');
    let o = run_script_bins(&script);
    let out = o.stdout_str();
    let (before, after) = match out.split_once("@@status=") {
        Some((b, a)) => (b.to_string(), a.to_string()),
        None => (out.clone(), format!("exit{}\n", o.exit_status)),
    };
    let (status, probe_out) =
        after.split_once('\n').map(|(a, b)| (a.to_string(), b.to_string())).unwrap_or((after.clone(), String::new()));
    ShellObs {
        stdout: before,
        status: if o.stuck { "STUCK".into() } else { status },
        stderr_empty: o.stderr.is_empty(),
        probe: probe_out,
    }
}

fn run_b(w: &[&str]) -> (String, String) {
    let bad = || ("bad-case".to_string(), "-".to_string());
    if w.len() < 5 {
        return bad();
    }
    let portable = w[1] == "1";
    let (Some(cmd), Some(setup), Some(probe)) = (dec_str(w[2]), dec_str(w[3]), dec_str(w[4])) else { return bad() };
    let mut spellings: Vec<Vec<String>> = vec![];
    for sp in split_bar(&w[5..]) {
        match sp.iter().map(|a| dec_str(a)).collect::<Option<Vec<String>>>() {
            Some(v) => spellings.push(v),
            None => return bad(),
        }
    }
    let obs = format!("n={}", spellings.len());
    let oracle = guarded(|| {
        let first = run_invocation_b(&setup, &cmd, Some(&spellings[0]), &probe, portable);
        if !first.stderr_empty {
            return format!("FAIL:valid invocation {:?} printed a diagnostic (status {})", spellings[0], first.status);
        }
        for sp in &spellings[1..] {
            let o = run_invocation_b(&setup, &cmd, Some(sp), &probe, portable);
            if o.stdout != first.stdout || o.status != first.status || o.stderr_empty != first.stderr_empty || o.probe != first.probe {
                return format!(
                    "FAIL:spelling {:?} differs from {:?}: status {} vs {}, stdout {} vs {}, stderr-empty {} vs {}, probe {} vs {}",
                    sp, spellings[0], o.status, first.status, enc_str(&o.stdout), enc_str(&first.stdout),
                    o.stderr_empty, first.stderr_empty, enc_str(&o.probe), enc_str(&first.probe)
                );
            }
        }
        "ok".into()
    });
    (obs, oracle)
}

fn run_e(w: &[&str]) -> (String, String) {
    let bad = || ("bad-case".to_string(), "-".to_string());
    if w.len() < 5 {
        return bad();
    }
    let portable = w[1] == "1";
    let (Some(cmd), Some(setup), Some(probe)) = (dec_str(w[2]), dec_str(w[3]), dec_str(w[4])) else { return bad() };
    let Some(args) = w[5..].iter().map(|a| dec_str(a)).collect::<Option<Vec<String>>>() else { return bad() };
    // `!cmd`: the built-in only warns (no_arg.rs): a diagnostic is required, a non-zero status is not
    let warning_only = cmd.starts_with('!');
    let cmd = cmd.trim_start_matches('!').to_string();
    let oracle = guarded(|| {
        let o = run_invocation_b(&setup, &cmd, Some(&args), &probe, portable);
        let reference = run_invocation_b(&setup, &cmd, None, &probe, portable);
        if o.stderr_empty {
            return "FAIL:no diagnostic".into();
        }
        if o.status == "0" && !warning_only {
            return "FAIL:zero exit status".into();
        }
        if !o.stdout.is_empty() {
            return format!("FAIL:output {}", enc_str(&o.stdout));
        }
        if o.probe != reference.probe {
            return format!("FAIL:state changed: {} vs {}", enc_str(&o.probe), enc_str(&reference.probe));
        }
        "ok".into()
    });
    ("n=1".into(), oracle)
}

const STATE: &str = "echo \"$-|$*|${x-unset}|${y-unset}|$PWD\"; set +o; trap -p INT TERM; umask; alias";

/// (portable, cmd, setup, probe, spellings)
fn bespoke_spellings() -> Vec<(bool, &'static str, &'static str, &'static str, Vec<Vec<&'static str>>)> {
    let k = "k() { kill \"$@\" $$; }";
    vec![
        (false, "set", "", STATE, vec![vec!["-e", "-u"], vec!["-eu"], vec!["-ue"], vec!["-o", "errexit", "-o", "nounset"], vec!["-oerrexit", "-u"],
            vec!["--errexit", "--nounset"], vec!["-eo", "nounset"], vec!["--err-exit", "-o", "no_unset"], vec!["-e", "+o", "unset"], vec!["-e", "++unset"]]),
        (false, "set", "set -e -C", STATE, vec![vec!["+e", "+C"], vec!["+eC"], vec!["+o", "errexit", "-o", "clobber"], vec!["++errexit", "--clobber"], vec!["+oerrexit", "+onoclobber"], vec!["+e", "++noclobber"]]),
        (false, "set", "", STATE, vec![vec!["-C", "--", "a", "-b"], vec!["-o", "noclobber", "--", "a", "-b"], vec!["--noclobber", "-", "a", "-b"], vec!["-C", "-", "a", "-b"], vec!["++clobber", "--", "a", "-b"]]),
        (false, "set", "set -- p q", STATE, vec![vec!["--"], vec!["-"]]),
        (false, "set", "set -- p q", STATE, vec![vec!["a", "b"], vec!["--", "a", "b"], vec!["-", "a", "b"]]),
        (false, "set", "", STATE, vec![vec!["-a", "-b", "-f", "-h", "-n"], vec!["-abfhn"], vec!["--allexport", "--notify", "--noglob", "--hashondefinition", "--noexec"]]),
        (false, "set", "", STATE, vec![vec!["-m", "-C", "-u"], vec!["-mCu"], vec!["-o", "monitor", "-o", "noclobber", "-o", "nounset"]]),
        (false, "set", "", STATE, vec![vec!["-o", "vi", "-o", "ignoreeof", "-o", "pipefail", "-o", "posixlycorrect", "-o", "nolog"], vec!["--vi", "--ignoreeof", "--pipefail", "--posixly-correct", "++log"]]),
        (false, "set", "", "", vec![vec!["-o"]]),
        (false, "set", "", "", vec![vec!["+o"]]),
        (true, "set", "", STATE, vec![vec!["-e", "-u"], vec!["-eu"], vec!["-o", "errexit", "-o", "nounset"]]),
        (false, "k", k, STATE, vec![vec!["-s", "0"], vec!["-s0"], vec!["-n", "0"], vec!["-n0"], vec!["-0"], vec!["-s", "0", "--"], vec!["-0", "--"]]),
        (false, "k", "k() { kill \"$@\" $$; }; trap 'echo got' USR1", STATE, vec![vec!["-s", "USR1"], vec!["-sUSR1"], vec!["-USR1"], vec!["-s", "usr1"], vec!["-sSIGUSR1"],
            vec!["-SIGUSR1"], vec!["-sigusr1"], vec!["-n", "USR1"], vec!["-s", "SigUsr1"]]),
        (false, "kill", "", STATE, vec![vec!["-l"], vec!["-l", "--"]]),
        (false, "kill", "", STATE, vec![vec!["-l", "9", "INT"], vec!["-l", "--", "9", "INT"]]),
        (false, "kill", "", STATE, vec![vec!["-l", "-v", "9"], vec!["-lv", "9"], vec!["-vl", "9"], vec!["-v", "9"], vec!["-v", "--", "9"]]),
        (true, "k", k, STATE, vec![vec!["-s", "0"], vec!["-0"]]),
        (true, "kill", "", STATE, vec![vec!["-l", "9"], vec!["-l", "--", "9"]]),
        (false, "typeset", "x=1; export y=2", "typeset -p x y", vec![vec!["-x", "x"], vec!["--export", "x"], vec!["-x", "--", "x"]]),
        (false, "typeset", "x=1; export y=2", "typeset -p x y", vec![vec!["+x", "y"], vec!["++export", "y"], vec!["-X", "y"], vec!["--unexport", "y"], vec!["+x", "--", "y"]]),
        (false, "typeset", "x=1; export y=2", "typeset -p x y", vec![vec!["-g", "+x", "y", "x"], vec!["-g", "++export", "y", "x"], vec!["--global", "-X", "y", "x"]]),
        (false, "pwd", "", STATE, vec![vec!["-L"], vec!["--logical"], vec!["--log"], vec!["-L", "--"]]),
        (false, "pwd", "", STATE, vec![vec!["-P"], vec!["--physical"], vec!["-LP"], vec!["-L", "-P"]]),
        (false, "true", "", STATE, vec![vec![], vec!["x"], vec!["--", "-x"]]),
        (false, "false", "", STATE, vec![vec![], vec!["x"]]),
        (false, "trap", "trap 'echo x' INT", "trap -p", vec![vec!["-", "INT", "0"], vec!["--", "-", "INT", "EXIT"], vec!["-", "2", "EXIT"]]),
        (false, "trap", "trap 'echo x' INT", "", vec![vec!["-p"], vec!["--print"], vec!["-p", "--"]]),
        (false, "trap", "trap 'echo x' INT", "", vec![vec![], vec!["--"]]),
        (false, "cd", "", STATE, vec![vec!["-P", "-e", "/"], vec!["-Pe", "/"], vec!["--physical", "--ensure-pwd", "/"]]),
        (false, "command", "", STATE, vec![vec!["-v", "echo"], vec!["--identify", "echo"]]),
        (false, "read", "exec <<'EOF'\nab\tc\nEOF", "echo \"[$v]\"", vec![vec!["-d", "\t", "v"], vec!["-d\t", "v"], vec!["--delimiter=\t", "v"]]),
        (false, "ulimit", "ulimit -S -n 100", STATE, vec![vec!["-H", "-n", "200"], vec!["-Hn", "200"], vec!["--hard", "--nofile", "200"]]),
        (false, "ulimit", "", STATE, vec![vec!["100"], vec!["-f", "100"], vec!["--fsize", "100"], vec!["--", "100"]]),
        (false, "ulimit", "", STATE, vec![vec!["-S", "-c", "unlimited"], vec!["-Sc", "unlimited"]]),
        (true, "ulimit", "", STATE, vec![vec!["-H", "-n"], vec!["-H", "-H", "-n"]]),
        (false, "wait", "", STATE, vec![vec!["9999"], vec!["--", "9999"]]),
        (false, "wait", "", STATE, vec![vec!["%1"], vec!["--", "%1"]]),
        (false, "getopts", "", "echo \"$v|${OPTARG-unset}|$OPTIND\"", vec![vec!["ab", "v", "-a"], vec!["--", "ab", "v", "-a"]]),
        (false, "eval", "getopts ab v -a -b; OPTIND=1;", "echo \"$v|$OPTIND\"", vec![vec!["getopts", "ab", "v", "-b"], vec!["getopts", "--", "ab", "v", "-b"]]),
    ]
}

/// (portable, cmd, setup, probe, args): invocations that must be rejected
fn bespoke_rejections() -> Vec<(bool, &'static str, &'static str, &'static str, Vec<&'static str>)> {
    let st = STATE;
    vec![
        (false, "command set", "", st, vec!["-Z"]), (false, "command set", "", st, vec!["-eZ"]), (false, "command set", "", st, vec!["--nosuchoption"]),
        (false, "command set", "", st, vec!["-e", "-o"]), (false, "command set", "", st, vec!["-o", "nosuch"]), (false, "command set", "", st, vec!["--e"]),
        (false, "command set", "", st, vec!["-i"]), (false, "command set", "", st, vec!["--interactive"]), (false, "command set", "", st, vec!["-o", "stdin"]),
        (false, "command set", "", st, vec!["+c"]), (false, "command set", "", st, vec!["-e", "--no"]),
        (true, "command set", "", st, vec!["--errexit"]), (true, "command set", "", st, vec!["-oerrexit"]), (true, "command set", "", st, vec!["-o", "err-exit"]),
        (true, "command set", "", st, vec!["-l"]), (true, "command set", "", st, vec!["-o", "unset"]), (true, "command set", "", st, vec!["++errexit"]),
        (true, "command set", "", st, vec!["-o", "posixlycorrect"]), (true, "command set", "", st, vec!["-e", "-onounset"]),
        (false, "kill", "", st, vec![]), (false, "kill", "", st, vec!["-s"]), (false, "kill", "", st, vec!["-n"]), (false, "kill", "", st, vec!["-s", "INT", "-l"]),
        (false, "kill", "", st, vec!["-s", "INT", "-v"]), (false, "kill", "", st, vec!["-x", "1"]), (false, "kill", "", st, vec!["-s", "INT", "-s", "TERM", "1"]),
        (false, "kill", "", st, vec!["-INT", "-TERM", "1"]), (false, "kill", "", st, vec!["-s", "NOSUCH", "1"]), (false, "kill", "", st, vec!["-sNOSUCH", "1"]),
        (false, "kill", "", st, vec!["-INT"]), (false, "kill", "", st, vec!["--"]),
        (true, "kill", "", st, vec!["-n", "9", "1"]), (true, "kill", "", st, vec!["-v"]), (true, "kill", "", st, vec!["-s", "9", "1"]), (true, "kill", "", st, vec!["-s9", "1"]),
        (true, "kill", "", st, vec!["-sINT", "1"]), (true, "kill", "", st, vec!["-s", "SIGINT", "1"]), (true, "kill", "", st, vec!["-sSIGINT", "1"]),
        (true, "kill", "", st, vec!["-SIGINT", "1"]), (true, "kill", "", st, vec!["-sigstop", "1"]), (true, "kill", "", st, vec!["-l", "INT"]),
        (true, "kill", "", st, vec!["-l", "9", "10"]), (true, "kill", "", st, vec!["-s", "-5", "1"]),
        (false, "cd", "", st, vec!["-e", "/"]), (false, "cd", "", st, vec![""]), (false, "cd", "", st, vec!["/", "/"]), (false, "cd", "", st, vec!["-L", "-e", "/"]),
        (true, "command", "", st, vec!["-v", "-V", "echo"]), (true, "command", "", st, vec!["-V", "-v", "echo"]), (true, "command", "", st, vec!["-v"]), (true, "command", "", st, vec![]),
        (true, "command", "", st, vec!["-v", "echo", "cd"]), (true, "command", "", st, vec!["-V", "echo", "cd"]),
        (false, "read", "", st, vec![]), (false, "read", "", st, vec!["-r"]), (false, "read", "", st, vec!["-d", "ab", "v"]), (false, "read", "", st, vec!["-d", "é", "v"]),
        (false, "read", "", st, vec!["a=b"]), (false, "read", "", st, vec!["v", "a=b"]), (true, "read", "", st, vec!["é"]), (true, "read", "", st, vec!["-d:", "v"]),
        (false, "command trap", "", st, vec!["", "NOSUCH"]), (false, "command trap", "", st, vec!["echo", "INT", "NOSUCH"]), (false, "command trap", "", st, vec!["-p", "NOSUCH"]),
        (false, "command trap", "", st, vec!["echo"]), (false, "command trap", "", st, vec!["-", "99999"]),
        (false, "typeset", "", st, vec!["+p"]), (false, "typeset", "", st, vec!["++print"]), (false, "typeset", "", st, vec!["+f"]), (false, "typeset", "", st, vec!["-f", "-x", "f"]),
        (false, "typeset", "", st, vec!["-f", "-g", "f"]), (true, "typeset", "", st, vec![]), (true, "typeset", "", st, vec!["-p", "x"]), (true, "command export", "", st, vec![]), (false, "typeset", "", st, vec!["-Z"]), (false, "typeset", "", st, vec!["--nosuch"]), (false, "typeset", "", st, vec!["--p=1"]),
        (false, "typeset", "", st, vec!["-r", "+r", "x"]), (true, "typeset", "", st, vec!["--print"]),
        (false, "command export", "", st, vec!["-p", "x=1"]), (false, "command readonly", "", st, vec!["-Z"]),
        (false, "ulimit", "", st, vec!["-a", "1"]), (false, "ulimit", "", st, vec!["-H", "-S", "-n"]), (false, "ulimit", "", st, vec!["-n", "-c"]), (false, "ulimit", "", st, vec!["-n", "1", "2"]),
        (false, "ulimit", "", st, vec!["-n", "x"]), (false, "ulimit", "", st, vec!["-n", "-1"]), (false, "ulimit", "", st, vec!["-Z"]),
        (true, "ulimit", "", st, vec!["-Hn"]), (true, "ulimit", "", st, vec!["-n", "-n"]), (true, "ulimit", "", st, vec!["-k"]), (true, "ulimit", "", st, vec!["--nofile"]),
        (true, "ulimit", "", st, vec!["-H", "-S", "-n"]),
        (false, "wait", "", st, vec!["x"]), (false, "wait", "", st, vec!["-1"]), (false, "wait", "", st, vec!["1", "x"]), (false, "wait", "", st, vec!["-Z"]),
        (false, "getopts", "", st, vec!["ab"]), (false, "getopts", "", st, vec![]), (false, "getopts", "", st, vec!["ab", "v=x", "-a"]), (false, "getopts", "OPTIND=5", st, vec!["ab", "v", "-a"]),
        (false, "getopts", "", st, vec!["-Z", "ab", "v"]), (true, "getopts", "", st, vec!["ab", "é", "-a"]),
        (false, "eval", "getopts ab v -a -b;", st, vec!["getopts", "ab", "v", "-b"]),
        (false, "umask", "", st, vec!["-S", "a", "b"]), (false, "umask", "", st, vec!["-Z"]), (false, "umask", "", st, vec!["999"]),
        (false, "unalias", "", st, vec![]), (false, "unalias", "", st, vec!["-a", "x"]), (false, "command unset", "", st, vec!["-f", "-v", "x"]),
        (false, "pwd", "", st, vec!["x"]), (false, "pwd", "", st, vec!["-Z"]), (false, "jobs", "", st, vec!["-Z"]), (false, "command shift", "", st, vec!["x"]),
        (false, "command shift", "", st, vec!["1", "2"]), (false, "command exit", "", st, vec!["x"]),
        (false, "cd", "", st, vec!["--nosuch=1", "/"]), (false, "wait", "", st, vec!["--", "-1"]), (true, "command", "", st, vec!["-v", "-V", "-p", "echo"]),
        (true, "command export", "x=1", st, vec!["-p", "x"]), (true, "command export", "", st, vec!["--print"]), (true, "command readonly", "", st, vec![]),
        (true, "command set", "", st, vec!["--portable"]), (true, "command set", "", st, vec!["++portable"]), (true, "command set", "", st, vec!["--hashondefinition"]),
        (true, "command set", "", st, vec!["-o", "hash-on-definition"]),
        // warnings (status unchanged): marked by the `!` in front of the command
        (true, "!true", "", st, vec!["x"]), (true, "!false", "", st, vec!["x"]),
    ]
}

fn bespoke_shell_cases(e: &mut Emitter) {
    let hx = |s: &str| enc_str(s);
    for (portable, cmd, setup, probe, spellings) in bespoke_spellings() {
        let mut line = format!("B {} {} {} {}", portable as u8, hx(cmd), hx(setup), hx(probe));
        for (k, sp) in spellings.iter().enumerate() {
            if k > 0 {
                line.push_str(" |");
            }
            for a in sp {
                line.push(' ');
                line.push_str(&hx(a));
            }
        }
        e.case(&line);
    }
    for (portable, cmd, setup, probe, args) in bespoke_rejections() {
        let mut line = format!("E {} {} {} {}", portable as u8, hx(cmd), hx(setup), hx(probe));
        for a in &args {
            line.push(' ');
            line.push_str(&hx(a));
        }
        e.case(&line);
    }
}

// ------------------------------------------------------------------------------------------
// `J`: getopts histories — several sessions in one shell environment (getopts.rs `main` + verify.rs)

#[derive(Clone, Debug)]
enum HStep {
    Session { sp: char, spec: String, limit: Option<usize>, vec: Vec<String> },
    Assign(String),
}

fn parse_hsteps(w: &[&str]) -> Option<Vec<HStep>> {
    let mut out = vec![];
    for part in w.split(|t| *t == ";") {
        match part {
            ["R", v] => out.push(HStep::Assign(dec_str(v)?)),
            ["S", sp, spec, lim, vec @ ..] => {
                let sp = match *sp {
                    "i" => 'i',
                    "a" => 'a',
                    "l" => 'l',
                    _ => return None,
                };
                let limit = if *lim == "*" { None } else { Some(lim.parse().ok()?) };
                out.push(HStep::Session {
                    sp,
                    spec: dec_str(spec)?,
                    limit,
                    vec: vec.iter().map(|a| dec_str(a)).collect::<Option<Vec<String>>>()?,
                });
            }
            _ => return None,
        }
    }
    Some(out)
}

fn history_script(steps: &[HStep]) -> String {
    let mut sc = String::new();
    for st in steps {
        match st {
            HStep::Assign(v) => sc.push_str(&format!("OPTIND={}\n", sh_quote(v))),
            HStep::Session { sp, spec, limit, vec } => {
                let quoted: Vec<String> = vec.iter().map(|a| sh_quote(a)).collect();
                let mut call = format!("getopts {} v", sh_quote(spec));
                match sp {
                    'i' => sc.push_str(&format!("set -- {}\n", quoted.join(" "))),
                    'a' => {
                        sc.push_str(&format!("set -- {}\n", quoted.join(" ")));
                        call.push_str(" \"$@\"");
                    }
                    _ => {
                        for q in &quoted {
                            call.push(' ');
                            call.push_str(q);
                        }
                    }
                }
                let k = limit.unwrap_or(60);
                sc.push_str(&format!(
                    "n=0\nwhile :; do {call}; s=$?; case $s in 0) ;; *) break;; esac; echo \"c|$v|${{OPTARG-~}}|$OPTIND\"; \
                     n=$((n+1)); case $n in {k}) break;; esac; done\necho \"e|$s|${{v-~}}|${{OPTARG-~}}|$OPTIND\"\n"
                ));
            }
        }
        sc.push_str("echo ==\n");
    }
    sc
}

fn raw_or_dash(s: &str) -> String {
    if s.is_empty() { "-".into() } else { s.to_string() }
}

/// per step: `r` or `[calls] fin=… now=…`; then the numbers of option diagnostics and of usage errors
fn run_history(steps: &[HStep]) -> (Vec<String>, usize, usize) {
    let o = shell::run_script(&history_script(steps));
    let out = o.stdout_str();
    let mut shown = vec![];
    let mut blocks = out.split("==\n");
    for st in steps {
        let block = blocks.next().unwrap_or("");
        match st {
            HStep::Assign(_) => shown.push("r".to_string()),
            HStep::Session { limit, .. } => {
                let mut calls = vec![];
                let mut end = "LOST".to_string();
                for l in block.lines() {
                    let f: Vec<&str> = l.split('|').collect();
                    if f.len() == 4 && f[0] == "c" {
                        calls.push(format!("{},{},{}", enc_str(f[1]), tilde_hex(f[2]), raw_or_dash(f[3])));
                    } else if f.len() == 5 && f[0] == "e" {
                        let fin = if f[1] == "0" {
                            if limit.is_some() { "part".to_string() } else { "LOOP".to_string() }
                        } else {
                            format!("st{}", f[1])
                        };
                        end = format!("fin={} now={},{},{}", fin, tilde_hex(f[2]), tilde_hex(f[3]), raw_or_dash(f[4]));
                    }
                }
                shown.push(format!("[{}] {}", calls.join(";"), end));
            }
        }
    }
    let err = o.stderr_str();
    let diag = err.lines().filter(|l| l.starts_with("yash:")).count();
    let errors = err.lines().filter(|l| l.starts_with("error:")).count();
    if o.stuck {
        shown.push("STUCK".into());
    }
    (shown, diag, errors)
}

fn run_j(w: &[&str]) -> (String, String) {
    let Some(steps) = parse_hsteps(&w[1..]) else { return ("bad-case".into(), "-".into()) };
    let res = std::cell::RefCell::new(None);
    let obs = guarded(|| {
        let (shown, diag, errors) = run_history(&steps);
        let s = format!("{} diag={} err={}", shown.join(" | "), diag, errors);
        *res.borrow_mut() = Some(shown);
        s
    });
    // the property, on the real shell only: a complete session that starts with OPTIND=1 must look
    // exactly like the same session alone in a fresh shell, in every spelling
    let oracle = guarded(|| {
        let Some(shown) = res.borrow_mut().take() else { return "-".into() };
        let mut optind = "1".to_string();
        let mut checked = 0;
        for (st, seen) in steps.iter().zip(shown.iter()) {
            match st {
                HStep::Assign(v) => optind = v.clone(),
                HStep::Session { sp, spec, limit, vec } => {
                    if limit.is_none() && optind == "1" && !(*sp == 'l' && vec.is_empty()) {
                        let mut sps = vec!['i', 'a'];
                        if !vec.is_empty() {
                            sps.push('l');
                        }
                        for s2 in sps {
                            let alone = [HStep::Session { sp: s2, spec: spec.clone(), limit: None, vec: vec.clone() }];
                            let (fresh, _, _) = run_history(&alone);
                            if &fresh[0] != seen {
                                return format!(
                                    "FAIL:session {sp} {spec:?} {vec:?} gives {seen} but alone in a fresh shell (spelling {s2}) {}",
                                    fresh[0]
                                );
                            }
                        }
                        checked += 1;
                    }
                    optind = seen.rsplit(',').next().unwrap_or("").to_string();
                }
            }
        }
        if checked == 0 { "-".into() } else { "ok".into() }
    });
    (obs, oracle)
}

fn show_hsteps(steps: &[HStep]) -> String {
    let parts: Vec<String> = steps
        .iter()
        .map(|s| match s {
            HStep::Assign(v) => format!("R {}", enc_str(v)),
            HStep::Session { sp, spec, limit, vec } => {
                let mut t = format!("S {} {} {}", sp, enc_str(spec), limit.map(|k| k.to_string()).unwrap_or_else(|| "*".into()));
                for a in vec {
                    t.push(' ');
                    t.push_str(&enc_str(a));
                }
                t
            }
        })
        .collect();
    format!("J {}", parts.join(" ; "))
}

fn history_cases(e: &mut Emitter, rng: &mut Rng, thorough: bool) {
    let specs = ["ab", "a:b", ":ab"];
    let vecs: Vec<Vec<&str>> = vec![
        vec![], vec!["-a"], vec!["-a", "-b"], vec!["-ab"], vec!["-axb"], vec!["-a", "X"], vec!["-aY", "-b"], vec!["-a", "--", "-b"],
        vec!["-b", "-a", "-b"], vec!["X"],
    ];
    let sess = |sp: char, spec: &str, v: &Vec<&str>, limit: Option<usize>| HStep::Session {
        sp,
        spec: spec.to_string(),
        limit,
        vec: v.iter().map(|s| s.to_string()).collect(),
    };
    let reset = || HStep::Assign("1".into());
    let emit_steps = |e: &mut Emitter, steps: Vec<HStep>| {
        if e.mine() {
            let case = show_hsteps(&steps);
            let (obs, oracle) = run_case(&case);
            emit(&case, &obs, &oracle);
        }
    };
    // every pair of sessions (spelling x vector) x (spelling x vector) with a reset in between, one optstring each
    let spellings = ['i', 'a', 'l'];
    for (k, spec) in specs.iter().enumerate() {
        for s1 in spellings {
            for v1 in &vecs {
                emit_steps(e, vec![sess(s1, spec, v1, None)]);
                for s2 in spellings {
                    for v2 in &vecs {
                        if !thorough && (k != 0 || (v1.len() + v2.len()) % 2 == 1) {
                            continue;
                        }
                        emit_steps(e, vec![sess(s1, spec, v1, None), reset(), sess(s2, spec, v2, None)]);
                    }
                }
            }
        }
    }
    // random histories: 1-3 sessions; resets present, missing or garbage; partial sessions followed by a changed vector
    let garbage = ["x", "0", "2", "1:2", "", "01", "+1", "1:1", "3:x", "10"];
    let n = if thorough { 40_000 } else { 1_200 };
    for _ in 0..n {
        let mut r = rng.fork();
        let mut steps = vec![];
        let nsess = 1 + r.below(3);
        if r.chance(1, 8) {
            steps.push(HStep::Assign(r.pick(&garbage).to_string()));
        }
        for i in 0..nsess {
            if i > 0 {
                match r.below(10) {
                    0 | 1 => {}                                                        // no reset: documented misuse
                    2 => steps.push(HStep::Assign(r.pick(&garbage).to_string())), // garbage
                    _ => steps.push(reset()),
                }
            }
            let spec = *r.pick(&specs);
            let v = r.pick(&vecs).clone();
            let sp = *r.pick(&spellings);
            let limit = if r.chance(1, 5) { Some(1 + r.below(2)) } else { None };
            steps.push(sess(sp, spec, &v, limit));
        }
        emit_steps(e, steps);
    }
}

fn run_case(case: &str) -> (String, String) {
    let w: Vec<&str> = case.split_whitespace().collect();
    match w.first() {
        Some(&"P") if w.len() >= 3 => run_p(case, &w),
        Some(&"S") => run_s(&w),
        Some(&"M") => run_m(&w),
        Some(&"G") => run_g(&w),
        Some(&"J") => run_j(&w),
        Some(&"B") => run_b(&w),
        Some(&"E") => run_e(&w),
        Some(&"T") => run_t(&w),
        Some(&"H") => run_h(&w),
        Some(&"K") => run_k(&w),
        Some(&"U") => run_u(&w),
        Some(&"Y") => run_y(&w),
        Some(&"Q") => {
            static TABLES: std::sync::OnceLock<Vec<(String, Vec<SpecD>)>> = std::sync::OnceLock::new();
            run_q(&w, TABLES.get_or_init(builtin_tables))
        }
        _ => ("bad-case".into(), "-".into()),
    }
}

// ------------------------------------------------------------------------------------------
// generators

/// the token set of the property text
const TOKENS: [&str; 11] = ["-", "--", "-a", "-ab", "-b", "-oX", "-o", "--long", "--lo", "--long=X", "X"];

fn sd(short: Option<char>, long: Option<&str>, arg: bool, ext: bool) -> SpecD {
    SpecD { short, long: long.map(|s| s.to_string()), arg, ext }
}

/// all option-spec tables over the small alphabet: options a, b, o and long names long / lo / lot.
fn small_tables(thorough: bool) -> Vec<Vec<SpecD>> {
    let mut out = vec![];
    // b: absent | flag ; o: absent | flag | takes an argument | extension taking an argument
    // long: absent | flag | takes an argument | long name of `o` ; second long: none | lo (exact) | lot (ambiguity)
    let a_kinds: &[u8] = if thorough { &[0, 1] } else { &[1] };
    for &a in a_kinds {
        for b in 0..2 {
            for o in 0..4 {
                for l in 0..4 {
                    for l2 in 0..3 {
                        if l == 3 && o == 0 {
                            continue;
                        }
                        let mut t = vec![];
                        if a == 1 {
                            t.push(sd(Some('a'), None, false, false));
                        }
                        if b == 1 {
                            t.push(sd(Some('b'), None, false, false));
                        }
                        // `lot` placed before `long` in the table so that table order matters
                        if l2 == 2 {
                            t.push(sd(None, Some("lot"), false, false));
                        }
                        let olong = if l == 3 { Some("long") } else { None };
                        match o {
                            1 => t.push(sd(Some('o'), olong, false, false)),
                            2 => t.push(sd(Some('o'), olong, true, false)),
                            3 => t.push(sd(Some('o'), olong, true, true)),
                            _ => {}
                        }
                        match l {
                            1 => t.push(sd(None, Some("long"), false, false)),
                            2 => t.push(sd(None, Some("long"), true, false)),
                            _ => {}
                        }
                        if l2 == 1 {
                            t.push(sd(None, Some("lo"), true, false));
                        }
                        out.push(t);
                    }
                }
            }
        }
    }
    out
}

struct Emitter {
    index: usize,
    shard: (usize, usize),
}

impl Emitter {
    /// claims the next case index; `true` if it belongs to this shard
    fn mine(&mut self) -> bool {
        let mine = self.index % self.shard.1 == self.shard.0;
        self.index += 1;
        mine
    }
    fn case(&mut self, case: &str) {
        if self.mine() {
            let (obs, oracle) = run_case(case);
            emit(case, &obs, &oracle);
        }
    }
}

fn p_case(mode: &str, specs: &str, args: &[&str]) -> String {
    let mut s = format!("P {mode} {specs}");
    for a in args {
        s.push(' ');
        s.push_str(&enc_str(a));
    }
    s
}

fn enumerate(e: &mut Emitter, mode: &str, specs: &str, maxlen: usize) {
    let mut idx: Vec<usize> = vec![];
    loop {
        if e.mine() {
            let args: Vec<&str> = idx.iter().map(|&i| TOKENS[i]).collect();
            let case = p_case(mode, specs, &args);
            let (obs, oracle) = run_case(&case);
            emit(&case, &obs, &oracle);
        }
        // next vector in length-then-lexicographic order
        let mut k = idx.len();
        loop {
            if k == 0 {
                if idx.len() == maxlen {
                    return;
                }
                idx = vec![0; idx.len() + 1];
                break;
            }
            k -= 1;
            if idx[k] + 1 < TOKENS.len() {
                idx[k] += 1;
                for j in k + 1..idx.len() {
                    idx[j] = 0;
                }
                break;
            }
        }
    }
}

/// tables of the real built-ins, as written by tools/tables/args.py
fn builtin_tables() -> Vec<(String, Vec<SpecD>)> {
    let path = concat!(env!("CARGO_MANIFEST_DIR"), "/../lean/YashModel/Generated/ArgSpecs.lean");
    let text = std::fs::read_to_string(path).expect("Generated/ArgSpecs.lean (run tools/extract_tables.py ArgSpecs)");
    let mut v = vec![];
    for l in text.lines() {
        if let Some(r) = l.strip_prefix("-- TABLE ") {
            let (name, specs) = r.split_once(' ').expect("TABLE line");
            v.push((name.to_string(), parse_specs(specs.trim()).expect("TABLE specs")));
        }
    }
    assert!(v.len() >= 10, "too few built-in tables");
    v
}

/// tokens exercising one real table
fn table_tokens(specs: &[SpecD], r: &mut Rng) -> Vec<String> {
    let mut t: Vec<String> = vec!["-".into(), "--".into(), "X".into(), "".into(), "-Z".into(), "--zzz".into(), "-1".into(), "---".into(), "--=X".into()];
    for s in specs {
        if let Some(c) = s.short {
            t.push(format!("-{c}"));
            t.push(format!("-{c}X"));
            if let Some(s2) = specs.get(r.below(specs.len())).and_then(|s| s.short) {
                t.push(format!("-{c}{s2}"));
                t.push(format!("-{s2}{c}X"));
            }
            t.push(format!("-{c}-"));
        }
        if let Some(l) = &s.long {
            t.push(format!("--{l}"));
            t.push(format!("--{l}=X"));
            t.push(format!("--{l}="));
            let n = l.chars().count();
            for _ in 0..2 {
                if n == 0 {
                    break;
                }
                let k = 1 + r.below(n);
                let p: String = l.chars().take(k).collect();
                t.push(format!("--{p}"));
                if r.chance(1, 3) {
                    t.push(format!("--{p}=X=Y"));
                }
            }
            t.push(format!("--{l}x"));
        }
    }
    t
}

fn random_tables(e: &mut Emitter, rng: &mut Rng, tables: &[(String, Vec<SpecD>)], per_table: usize) {
    for (_, specs) in tables {
        let st = show_specs(specs);
        let mut r = rng.fork();
        for k in 0..per_table {
            let toks = table_tokens(specs, &mut r);
            let len = r.below(6);
            let args: Vec<&str> = (0..len).map(|_| r.pick(&toks).as_str()).collect();
            let mode = match k % 8 {
                0 => "000",
                1 => ["100", "010", "001", "110", "101", "011"][r.below(6)],
                _ => "111",
            };
            e.case(&p_case(mode, &st, &args));
        }
    }
}

/// random tables with unusual names: non-ASCII shorts, `-` as a short name, empty / `=`-containing /
/// duplicate long names, prefixes of one another
fn random_odd(e: &mut Emitter, rng: &mut Rng, n: usize) {
    let shorts = ['a', 'b', 'o', 'é', '-', '=', 'あ'];
    let longs = ["long", "lo", "lot", "l", "", "a=b", "long-er", "é", "-"];
    for _ in 0..n {
        let mut r = rng.fork();
        let k = r.below(5);
        let mut specs = vec![];
        for _ in 0..k {
            specs.push(SpecD {
                short: if r.chance(2, 3) { Some(*r.pick(&shorts)) } else { None },
                long: if r.chance(2, 3) { Some(r.pick(&longs).to_string()) } else { None },
                arg: r.chance(1, 3),
                ext: r.chance(1, 5),
            });
        }
        let mut toks = table_tokens(&specs, &mut r);
        toks.extend(["-aé".to_string(), "-éa".into(), "-あoX".into(), "--a=b".into(), "--a".into(), "--l=".into(), "-=".into(), "--=".into()]);
        let len = r.below(6);
        let args: Vec<&str> = (0..len).map(|_| r.pick(&toks).as_str()).collect();
        let mode = if r.chance(1, 5) { "000" } else { "111" };
        e.case(&p_case(mode, &show_specs(&specs), &args));
    }
}

// ---- catalogue of real invocations

struct Inv {
    /// table name in Generated/ArgSpecs.lean (`-` = the built-in takes no options: empty table)
    table: &'static str,
    /// command text in front of the arguments
    cmd: &'static str,
    setup: &'static str,
    probe: &'static str,
    /// canonical spelling: separate short options, arguments in the next field
    args: &'static [&'static str],
}

const fn inv(table: &'static str, cmd: &'static str, setup: &'static str, probe: &'static str, args: &'static [&'static str]) -> Inv {
    Inv { table, cmd, setup, probe, args }
}

const VARS: &str = "echo \"$PWD|${x-unset}|${y-unset}|$?\"; alias; umask";

fn catalogue() -> Vec<Inv> {
    vec![
        inv("cd", "cd", "", VARS, &["-L", "/"]),
        inv("cd", "cd", "", VARS, &["-P", "/"]),
        inv("cd", "cd", "", VARS, &["-L", "-P", "/"]),
        inv("cd", "cd", "", VARS, &["-P", "-e", "/"]),
        inv("cd", "cd", "", VARS, &["/"]),
        inv("command", "command", "", VARS, &["-v", "echo"]),
        inv("command", "command", "", VARS, &["-V", "cd"]),
        inv("command", "command", "", VARS, &["-p", "-v", "echo"]),
        inv("command", "command", "", VARS, &["-p", "echo", "-v"]),
        inv("command", "command", "x=1", VARS, &["unset", "x"]),
        inv("type", "type", "", VARS, &["cd", "echo"]),
        inv("read", "read", "", "echo \"[$v][$w]\"", &["-r", "v", "w"]),
        inv("read", "read", "", "echo \"[$v][$w]\"", &["-d", ":", "v"]),
        inv("read", "read", "", "echo \"[$v][$w]\"", &["-r", "-d", ";", "v", "w"]),
        inv("read", "read", "", "echo \"[$v][$w]\"", &["-d", "", "v"]),
        inv("read", "read", "", "echo \"[$v][$w]\"", &["v"]),
        inv("unset", "unset", "x=1; y=2; x() { :; }", "echo \"${x-unset}|${y-unset}\"; command -v x", &["-v", "x"]),
        inv("unset", "unset", "x=1; y=2; x() { :; }", "echo \"${x-unset}|${y-unset}\"; command -v x", &["-f", "x"]),
        inv("unset", "unset", "x=1; y=2; x() { :; }", "echo \"${x-unset}|${y-unset}\"; command -v x", &["x", "y"]),
        inv("umask", "umask", "umask 027", VARS, &["-S"]),
        inv("umask", "umask", "", VARS, &["-S", "u=rwx,g=rx,o="]),
        inv("umask", "umask", "", VARS, &["022"]),
        inv("unalias", "unalias", "alias a=b c=d", VARS, &["-a"]),
        inv("unalias", "unalias", "alias a=b c=d", VARS, &["a"]),
        inv("trap", "trap", "trap 'echo x' INT", "trap -p INT TERM", &["-p", "INT"]),
        inv("trap", "trap", "trap 'echo x' INT", "trap -p INT TERM", &["-p"]),
        inv("trap", "trap", "", "trap -p INT TERM", &["echo t", "TERM"]),
        inv("trap", "trap", "trap 'echo x' INT", "trap -p INT TERM", &["-", "INT"]),
        inv("jobs", "jobs", "", VARS, &["-l"]),
        inv("jobs", "jobs", "", VARS, &["-p"]),
        inv("export", "export", "x=1", "export -p; echo \"${x-unset}|${y-unset}\"", &["-p", "x"]),
        inv("export", "export", "x=1", "export -p; echo \"${x-unset}|${y-unset}\"", &["x", "y=2"]),
        inv("readonly", "readonly", "x=1", "readonly -p; echo \"${x-unset}|${y-unset}\"", &["-p"]),
        inv("readonly", "readonly", "x=1", "readonly -p; echo \"${x-unset}|${y-unset}\"", &["x", "y=2"]),
        inv("typeset", "typeset", "x=1", "typeset -p; echo \"${x-unset}|${y-unset}\"", &["-p", "x"]),
        inv("typeset", "typeset", "x=1", "typeset -p; echo \"${x-unset}|${y-unset}\"", &["-g", "-x", "x", "y=2"]),
        inv("typeset", "typeset", "x=1", "typeset -p; echo \"${x-unset}|${y-unset}\"", &["-r", "-x", "y=3"]),
        inv("typeset", "typeset", "x() { :; }", "typeset -f -p x", &["-f", "-p", "x"]),
        inv("typeset", "typeset", "x() { :; }", "typeset -f -p x", &["-f", "-r", "x"]),
        inv("ulimit", "ulimit", "", VARS, &["-n"]),
        inv("ulimit", "ulimit", "", VARS, &["-H", "-n"]),
        inv("ulimit", "ulimit", "", VARS, &["-a"]),
        inv("ulimit", "ulimit", "", VARS, &["-S", "-c", "0"]),
        inv("return", "f() { return", "", VARS, &["-n", "3"]),
        inv("return", "f() { return", "", VARS, &["3"]),
        inv("exit", "exit", "", VARS, &["-f", "3"]),
        inv("exit", "exit", "", VARS, &["4"]),
        inv("-", "shift", "set -- 1 2 3", "echo \"$*\"", &["2"]),
        inv("-", "eval", "", VARS, &["x=5"]),
        inv("-", "alias", "", VARS, &["a=b"]),
        inv("-", "wait", "", VARS, &[]),
        inv("-", "times", "", "echo $?", &[]),
        inv("-", "break", "for i in 1 2; do echo $i;", "", &["1"]),
    ]
}

/// All equivalent spellings of a canonical invocation (first = the canonical one itself).
fn spellings(specs: &[SpecD], args: &[&str], r: &mut Rng, limit: usize) -> Vec<Vec<String>> {
    // parse the canonical form: leading `-c [arg]` items, then operands
    enum Item {
        Flag(char),
        WithArg(char, String),
    }
    let mut items = vec![];
    let mut i = 0;
    while i < args.len() {
        let a: Vec<char> = args[i].chars().collect();
        if a.len() == 2 && a[0] == '-' && a[1] != '-' {
            if let Some(s) = first_short(specs, a[1]) {
                if s.arg {
                    items.push(Item::WithArg(a[1], args[i + 1].to_string()));
                    i += 2;
                } else {
                    items.push(Item::Flag(a[1]));
                    i += 1;
                }
                continue;
            }
        }
        break;
    }
    let operands: Vec<String> = args[i..].iter().map(|s| s.to_string()).collect();
    let needs_sep = operands.first().is_some_and(|o| o.starts_with('-') && o.len() > 1);
    let mut out: Vec<Vec<String>> = vec![args.iter().map(|s| s.to_string()).collect()];
    let mut seen: BTreeSet<Vec<String>> = out.iter().cloned().collect();
    for _ in 0..limit * 8 {
        if out.len() >= limit {
            break;
        }
        let mut v: Vec<String> = vec![];
        let mut group: Option<String> = None; // open cluster of flags
        for it in &items {
            match it {
                Item::Flag(c) => {
                    let s = first_short(specs, *c).unwrap();
                    let long = s.long.as_ref().filter(|l| !l.is_empty() && !l.contains('='));
                    let choice = r.below(4);
                    if choice == 0 && long.is_some() {
                        if let Some(g) = group.take() {
                            v.push(g);
                        }
                        let l = long.unwrap();
                        // full name or an unambiguous abbreviation
                        let mut k = l.chars().count();
                        if r.chance(1, 2) {
                            let n = l.chars().count();
                            let cand = 1 + r.below(n);
                            let p: String = l.chars().take(cand).collect();
                            if resolve_long(specs, &p).0 == Some(s) {
                                k = cand;
                            }
                        }
                        v.push(format!("--{}", l.chars().take(k).collect::<String>()));
                    } else if choice <= 2 {
                        match &mut group {
                            Some(g) => g.push(*c),
                            None => group = Some(format!("-{c}")),
                        }
                    } else {
                        if let Some(g) = group.take() {
                            v.push(g);
                        }
                        v.push(format!("-{c}"));
                    }
                }
                Item::WithArg(c, a) => {
                    let s = first_short(specs, *c).unwrap();
                    let long = s.long.as_ref().filter(|l| !l.is_empty() && !l.contains('='));
                    let choice = r.below(5);
                    if choice <= 1 && long.is_some() {
                        if let Some(g) = group.take() {
                            v.push(g);
                        }
                        let l = long.unwrap();
                        let mut name = l.clone();
                        if r.chance(1, 2) {
                            let p: String = l.chars().take(1 + r.below(l.chars().count())).collect();
                            if resolve_long(specs, &p).0 == Some(s) {
                                name = p;
                            }
                        }
                        if choice == 0 {
                            v.push(format!("--{name}={a}"));
                        } else {
                            v.push(format!("--{name}"));
                            v.push(a.clone());
                        }
                    } else {
                        // short: possibly joined to an open cluster; argument attached (if non-empty) or next
                        let mut g = if r.chance(1, 2) { group.take().unwrap_or_else(|| "-".into()) } else {
                            if let Some(g) = group.take() {
                                v.push(g);
                            }
                            "-".to_string()
                        };
                        g.push(*c);
                        if !a.is_empty() && r.chance(1, 2) {
                            g.push_str(a);
                            v.push(g);
                        } else {
                            v.push(g);
                            v.push(a.clone());
                        }
                    }
                }
            }
        }
        if let Some(g) = group.take() {
            v.push(g);
        }
        if needs_sep || r.chance(1, 3) {
            v.push("--".into());
        }
        v.extend(operands.iter().cloned());
        if seen.insert(v.clone()) {
            out.push(v);
        }
    }
    out
}

fn catalogue_cases(e: &mut Emitter, rng: &mut Rng, tables: &[(String, Vec<SpecD>)], thorough: bool) {
    let hx = |s: &str| enc_str(s);
    for inv in catalogue() {
        let empty = vec![];
        let specs: &Vec<SpecD> = if inv.table == "-" {
            &empty
        } else {
            &tables.iter().find(|(n, _)| n == inv.table).unwrap_or_else(|| panic!("no table {}", inv.table)).1
        };
        let mut r = rng.fork();
        // a function body / loop opened in `cmd` is closed in the probe
        let (cmd, probe) = if inv.cmd.starts_with("f() {") {
            (inv.cmd.to_string(), format!("}}; f; echo \"f=$?\"; {}", inv.probe))
        } else if inv.cmd == "break" {
            ("break".to_string(), "done; echo after".to_string())
        } else {
            (inv.cmd.to_string(), inv.probe.to_string())
        };
        let (setup, cmd) = if inv.cmd == "break" { (String::new(), format!("{} break", inv.setup)) } else { (inv.setup.to_string(), cmd) };
        let setup = if inv.table == "read" { format!("{setup}\nexec <<'EOF'\na\\:b;c d\\\n e:f\nsecond line\nEOF") } else { setup };
        let sps = spellings(specs, inv.args, &mut r, if thorough { 24 } else { 8 });
        let mut line = format!("S {} 111 {} {} {}", hx(&cmd), show_specs(specs), hx(&setup), hx(&probe));
        for (k, sp) in sps.iter().enumerate() {
            if k > 0 {
                line.push_str(" |");
            }
            for a in sp {
                line.push(' ');
                line.push_str(&hx(a));
            }
        }
        e.case(&line);

        // malformed variants of the same invocation
        if inv.cmd.starts_with("f() {") || inv.cmd == "break" || inv.cmd == "exit" {
            continue;
        }
        // special built-ins interrupt a non-interactive shell on a syntax error: run them through `command`
        let mcmd = if ["unset", "trap", "export", "readonly", "shift", "eval", "times"].contains(&inv.cmd) {
            format!("command {}", inv.cmd)
        } else {
            inv.cmd.to_string()
        };
        let mut bads: Vec<Vec<String>> = vec![];
        let canon: Vec<String> = inv.args.iter().map(|s| s.to_string()).collect();
        let with_front = |x: &[&str]| -> Vec<String> {
            let mut v: Vec<String> = x.iter().map(|s| s.to_string()).collect();
            v.extend(canon.iter().cloned());
            v
        };
        if inv.table != "command" || inv.args.first().is_some_and(|a| a.starts_with('-')) {
            bads.push(with_front(&["-@"]));
            bads.push(with_front(&["--no-such-option"]));
            if let Some(c) = specs.iter().find(|s| !s.arg).and_then(|s| s.short) {
                bads.push(with_front(&[&format!("-{c}@")]));
            }
            if let Some(l) = specs.iter().find(|s| !s.arg && s.long.is_some()).and_then(|s| s.long.clone()) {
                bads.push(with_front(&[&format!("--{l}=value")]));
            }
            // an ambiguous abbreviation, if the table has one
            'amb: for s in specs {
                if let Some(l) = &s.long {
                    for k in 1..l.len() {
                        if resolve_long(specs, &l[..k]) == (None, 2) || matches!(resolve_long(specs, &l[..k]), (None, n) if n > 1) {
                            bads.push(with_front(&[&format!("--{}", &l[..k])]));
                            break 'amb;
                        }
                    }
                }
            }
            if let Some(s) = specs.iter().find(|s| s.arg) {
                if let Some(c) = s.short {
                    bads.push(vec![format!("-{c}")]);
                }
                if let Some(l) = &s.long {
                    bads.push(vec![format!("--{l}")]);
                }
            }
        }
        for b in bads {
            let mut line = format!("M {} 111 {} {} {}", hx(&mcmd), show_specs(specs), hx(&setup), hx(&probe));
            for a in &b {
                line.push(' ');
                line.push_str(&hx(a));
            }
            e.case(&line);
        }
        // portable mode: long and attached forms are rejected by design
        if inv.table != "-" && inv.table != "typeset" && inv.table != "export" && inv.table != "readonly" {
            if let Some(l) = specs.iter().find_map(|s| s.long.clone()) {
                let mut line = format!("M {} 000 {} {} {}", hx(&mcmd), show_specs(specs), hx(&setup), hx(&probe));
                for a in with_front(&[&format!("--{l}")]) {
                    line.push(' ');
                    line.push_str(&hx(&a));
                }
                e.case(&line);
            }
        }
    }
}

/// optstrings and argument tokens of the getopts leg
const G_SPECS: [&str; 12] = ["ab", "a:b", ":ab", ":a:b", "abo:", ":abo:", "o:", ":o:a", "a", "ba:o", ":", "ab-"];
const G_TOKENS: [&str; 20] = [
    "-a", "-b", "-ab", "-ba", "-axb", "-x", "-xa", "-o", "-oX", "-ao", "-aoX", "-abo", "-axo", "--", "-", "X", "-a-", "--a",
    "", "-:a",
];

fn g_case(spec: &str, args: &[&str]) -> String {
    let mut s = format!("G {}", enc_str(spec));
    for a in args {
        s.push(' ');
        s.push_str(&enc_str(a));
    }
    s
}

fn getopts_cases(e: &mut Emitter, rng: &mut Rng, thorough: bool) {
    // exhaustive: every optstring x every vector over the tokens up to length 2 (quick) / 3 (thorough)
    let maxlen = if thorough { 3 } else { 2 };
    for (sk, spec) in G_SPECS.iter().enumerate() {
        let spec = *spec;
        let mut idx: Vec<usize> = vec![];
        'vectors: loop {
            // quick: a third of the pairs per optstring (every token still in both positions for every optstring)
            let thinned = !thorough && idx.len() == 2 && (idx[0] + idx[1] + sk) % 3 != 0;
            if !thinned && e.mine() {
                let args: Vec<&str> = idx.iter().map(|&i| G_TOKENS[i]).collect();
                let case = g_case(spec, &args);
                let (obs, oracle) = run_case(&case);
                emit(&case, &obs, &oracle);
            }
            let mut k = idx.len();
            loop {
                if k == 0 {
                    if idx.len() == maxlen {
                        break 'vectors;
                    }
                    idx = vec![0; idx.len() + 1];
                    break;
                }
                k -= 1;
                if idx[k] + 1 < G_TOKENS.len() {
                    idx[k] += 1;
                    for j in k + 1..idx.len() {
                        idx[j] = 0;
                    }
                    break;
                }
            }
        }
    }
    // random: random optstrings over a small alphabet, random groups of letters, longer vectors
    let n = if thorough { 60_000 } else { 1_000 };
    let letters = ['a', 'b', 'o', 'x', 'y', ':', '-', 'é'];
    for _ in 0..n {
        let mut r = rng.fork();
        if !e.mine() {
            continue;
        }
        let mut spec = String::new();
        if r.chance(1, 2) {
            spec.push(':');
        }
        for _ in 0..r.below(5) {
            let c = *r.pick(&['a', 'b', 'o', 'y', 'é', '-']);
            if c == '-' && spec.is_empty() {
                continue; // an optstring starting with `-` would be taken as an option of getopts itself
            }
            spec.push(c);
            if r.chance(1, 3) {
                spec.push(':');
            }
        }
        let len = r.below(6);
        let mut args: Vec<String> = vec![];
        for _ in 0..len {
            let a = match r.below(10) {
                0 => "--".to_string(),
                1 => r.pick(&["X", "", "-", "a"]).to_string(),
                _ => {
                    let mut g = String::from("-");
                    for _ in 0..1 + r.below(4) {
                        g.push(*r.pick(&letters));
                    }
                    g
                }
            };
            args.push(a);
        }
        let argv: Vec<&str> = args.iter().map(|s| s.as_str()).collect();
        let case = g_case(&spec, &argv);
        let (obs, oracle) = run_case(&case);
        emit(&case, &obs, &oracle);
    }
}

fn main() {
    quiet_panics();
    let o = Opts::from_args();
    let (fixed, only) = o.fixed_cases();
    for c in &fixed {
        let (obs, oracle) = run_case(c);
        emit(c, &obs, &oracle);
    }
    if only {
        return;
    }
    let thorough = o.thorough();
    let mut e = Emitter { index: 0, shard: o.shard };
    let mut rng = Rng::new(o.seed ^ 0xC20);
    let tables = builtin_tables();

    // (ii) catalogue of real invocations (first: it is the slowest part, spread over the shards)
    catalogue_cases(&mut e, &mut rng, &tables, thorough);

    // (iii) the getopts built-in's own walker
    getopts_cases(&mut e, &mut rng, thorough);
    history_cases(&mut e, &mut rng, thorough);

    // (iv) the bespoke parsers: set, the shell's command line, kill
    bespoke_shell_cases(&mut e);
    bespoke_cases(&mut e, &mut rng, thorough);
    typeset_cases(&mut e, &mut rng, thorough);
    post_cases(&mut e, &mut rng, &tables, thorough);

    // (i) exhaustive: small tables x all vectors over the token set
    let small = small_tables(thorough);
    let has_a = |t: &Vec<SpecD>| t.iter().any(|s| s.short == Some('a'));
    for (ti, t) in small.iter().enumerate() {
        // thorough: length 5 for the tables with `a` and `b`, length 4 for the others; quick (volume moved to thorough in
        // wave 3): with `b` length 3 and every 9th table length 4, without `b` length 2 and every 3rd table length 3
        let has_b = t.iter().any(|s| s.short == Some('b'));
        let maxlen = if thorough {
            if has_a(t) && has_b { 5 } else { 4 }
        } else if has_b {
            if ti % 9 == 0 { 4 } else { 3 }
        } else if ti % 3 == 0 {
            3
        } else {
            2
        };
        enumerate(&mut e, "111", &show_specs(t), maxlen);
    }
    // portable mode and the three single-extension modes on shorter vectors
    for t in &small {
        for m in ["000", "100", "010", "001"] {
            let maxlen = if !thorough { 2 } else if m == "000" && has_a(t) { 4 } else { 3 };
            enumerate(&mut e, m, &show_specs(t), maxlen);
        }
    }
    // real tables and odd tables, random vectors
    random_tables(&mut e, &mut rng, &tables, if thorough { 30_000 } else { 600 });
    random_odd(&mut e, &mut rng, if thorough { 300_000 } else { 8_000 });
}
