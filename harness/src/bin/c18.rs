//! exploration stub (replaced below)
use std::cell::{Cell, RefCell};
use std::future::Future;
use std::io::SeekFrom;
use std::pin::Pin;
use std::rc::Rc;
use std::task::{Context, Poll};
use std::time::{Duration, Instant};
use yash_env::system::concurrency::Sleep as _;
use yash_env::builtin::{Builtin, Type};
use yash_env::io::Fd;
use yash_env::job::Pid;
use yash_env::semantics::{ExitStatus, Field};
use yash_env::system::concurrency::WriteAll as _;
use yash_env::system::r#virtual::{FileBody, Process, SystemState, VirtualSystem};
use yash_env::system::{Close as _, Concurrent, Pipe as _};
use yverif::proto::enc_str;
use yverif::shell::{BuiltinFuture, Config, Outcome, SourceKind, VEnv, run_with};

#[derive(Clone, Debug)]
enum Feed {
    /// `sh -c script`, stdin = data
    Str,
    /// `sh -s` with /dev/stdin = script (a regular file)
    File,
    /// `sh -s` with stdin a pipe written in chunks of the given sizes (cyclic), with that many
    /// executor yields between chunks
    Pipe(Vec<usize>, usize),
}

struct YieldNow(bool);
impl Future for YieldNow {
    type Output = ();
    fn poll(mut self: Pin<&mut Self>, cx: &mut Context<'_>) -> Poll<()> {
        if self.0 {
            Poll::Ready(())
        } else {
            self.0 = true;
            cx.waker().wake_by_ref();
            Poll::Pending
        }
    }
}

thread_local! {
    /// bytes of the pipe-fed script not yet written by the writer task
    static UNWRITTEN: Cell<usize> = const { Cell::new(0) };
    static TOTAL: Cell<usize> = const { Cell::new(0) };
    static STATE: RefCell<Option<Rc<RefCell<SystemState>>>> = const { RefCell::new(None) };
}

/// Number of bytes consumed so far from the shell's standard input.
fn stdin_offset(env: &VEnv) -> usize {
    let state = STATE.with(|s| s.borrow().clone()).unwrap();
    let st = state.borrow();
    let Some(p) = st.processes.get(&env.main_pid) else { return usize::MAX };
    let Some(body) = p.get_fd(Fd::STDIN) else { return usize::MAX };
    let mut ofd = body.open_file_description.borrow_mut();
    let fifo_len = match &ofd.inode().borrow().body {
        FileBody::Fifo { content, .. } => Some(content.len()),
        _ => None,
    };
    match fifo_len {
        Some(n) => TOTAL.get() - UNWRITTEN.get() - n,
        None => ofd.seek(SeekFrom::Current(0)).unwrap_or(usize::MAX),
    }
}

/// `probe args…` : `<$?>:<hex fields>@<stdin offset>`; preserves `$?`.
fn probe_main(env: &mut VEnv, args: Vec<Field>) -> BuiltinFuture<'_> {
    let fields: Vec<String> = args.iter().map(|f| enc_str(&f.value)).collect();
    let st = env.exit_status.0;
    let off = stdin_offset(env);
    Box::pin(async move {
        let text = format!("{}:{}@{}\n", st, fields.join(","), off);
        match env.system.write_all(Fd::STDOUT, text.as_bytes()).await {
            Ok(_) => ExitStatus(st).into(),
            Err(_) => ExitStatus::FAILURE.into(),
        }
    })
}

fn run_feed(script: &[u8], data: &[u8], feed: &Feed) -> Outcome {
    let text = String::from_utf8_lossy(script).into_owned();
    let mut cfg = match feed {
        Feed::Str => Config::new(&text),
        Feed::File => {
            let mut c = Config::new(&text);
            c.source = SourceKind::Stdin;
            c
        }
        Feed::Pipe(..) => {
            let mut c = Config::new("");
            c.source = SourceKind::Stdin;
            c
        }
    };
    cfg.max_rounds = 100_000;
    let feed = feed.clone();
    let script = script.to_vec();
    let data = data.to_vec();
    let (o, _) = run_with(
        cfg,
        move |env, state| {
            STATE.with(|s| *s.borrow_mut() = Some(Rc::clone(state)));
            env.builtins.insert("probe", Builtin::new(Type::Mandatory, probe_main));
            match feed {
                Feed::Str => {
                    // standard input of a `-c` shell: a regular file holding `data`
                    let inode = state.borrow().file_system.get("/dev/stdin").unwrap();
                    if let FileBody::Regular { content, .. } = &mut inode.borrow_mut().body {
                        *content = data.clone();
                    }
                }
                Feed::File => {}
                Feed::Pipe(sizes, yields) => {
                    let wpid = Pid(1000);
                    let wsys = VirtualSystem { state: Rc::clone(state), process_id: wpid };
                    state
                        .borrow_mut()
                        .processes
                        .insert(wpid, Process::with_parent_and_group(Pid(1), Pid(1)));
                    let (r, w) = wsys.pipe().unwrap();
                    // hand the read end to the shell process as its standard input
                    {
                        let mut st = state.borrow_mut();
                        let body = st.processes.get_mut(&wpid).unwrap().close_fd(r).unwrap();
                        let shell = st.processes.get_mut(&env.main_pid).unwrap();
                        let _old = shell.set_fd(Fd::STDIN, body);
                    }
                    if state.borrow().now.is_none() {
                        state.borrow_mut().now = Some(Instant::now());
                    }
                    TOTAL.set(script.len());
                    UNWRITTEN.set(script.len());
                    let conc = Rc::new(Concurrent::new(wsys));
                    let conc2 = Rc::clone(&conc);
                    let task = async move {
                        let mut pos = 0;
                        let mut k = 0;
                        while pos < script.len() {
                            let n = sizes[k % sizes.len()].clamp(1, 512).min(script.len() - pos);
                            k += 1;
                            if yields > 0 {
                                conc2.sleep(Duration::from_millis(yields as u64)).await;
                            }
                            if conc2.write_all(w, &script[pos..pos + n]).await.is_err() {
                                break;
                            }
                            pos += n;
                            UNWRITTEN.set(script.len() - pos);
                        }
                        if yields > 0 {
                            conc2.sleep(Duration::from_millis(yields as u64)).await;
                        }
                        conc2.close(w).ok();
                    };
                    let runner = async move { conc.run_virtual(task).await };
                    let ex = state.borrow().executor.clone().unwrap();
                    ex.spawn(Box::pin(runner)).unwrap();
                }
            }
        },
        |_, _| (),
    );
    STATE.with(|s| *s.borrow_mut() = None);
    o
}

fn main() {
    let args: Vec<String> = std::env::args().collect();
    if args.get(1).map(|s| s.as_str()) == Some("--run") {
        let feed = match args[2].as_str() {
            "str" => Feed::Str,
            "file" => Feed::File,
            p => {
                let v: Vec<usize> = p.split(',').map(|x| x.parse().unwrap()).collect();
                Feed::Pipe(v[1..].to_vec(), v[0])
            }
        };
        let script = args[3].replace("\\n", "\n");
        let data = args.get(4).map(|s| s.replace("\\n", "\n")).unwrap_or_default();
        let o = run_feed(script.as_bytes(), data.as_bytes(), &feed);
        println!("--stdout\n{}--stderr\n{}--exit {} stuck {}", o.stdout_str(), o.stderr_str(), o.exit_status, o.stuck);
    }
}
